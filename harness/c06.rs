// C06 / E5: shared randomness — pairwise agreement and pairwise distinctness over an alphabet of
// gates x indices x all offsets, sequential generators, misuse of the endpoint API, cross-shard
// randomness over real gateways, and the "never drawn twice" monitor applied to protocol runs.
// (module path: crate::verif::c06; config A)

use std::{collections::HashMap, time::Duration};

use generic_array::GenericArray;
use rand::{RngCore, SeedableRng, rngs::StdRng};
use serde_json::json;
use typenum::U1;

use super::{
    c01::{self, Case1, Rep},
    common::{self, Report},
    fault::{self, Out},
};
use crate::{
    helpers::in_memory_config::passthrough,
    protocol::{
        Gate,
        context::{Context, ShardedContext},
        prss::{Endpoint, SharedRandomness},
    },
    test_fixture::{TestWorld, TestWorldConfig, WithShards, make_participants},
};
use ipa_step::StepNarrow;

fn gates() -> Vec<Gate> {
    let mut names: Vec<String> = vec![
        "a".into(), "b".into(), "aa".into(), "ab".into(), "a/a".into(), "a/b".into(), "protocol".into(), "protocol/iter000".into(),
        "protocol/iter000/malicious_protocol".into(), "protocol/iter000/malicious_protocol/upgrade".into(),
        "protocol/iter000/validate".into(), "protocol/iter000/validate/challenge".into(),
        "protocol/iter001".into(), "protocol/iter000/gate0".into(), "protocol/iter000/gate1".into(),
    ];
    // neighbours differing in one character
    for i in 0..16 {
        names.push(format!("protocol/iter000/bit{i}"));
        names.push(format!("protocol/iter000/bit{i}/multiply"));
    }
    names.into_iter().map(|n| n.split('/').fold(Gate::default(), |g, s| g.narrow(s))).collect()
}

fn agreement(seed: u64, r: &mut Report) {
    let mut rng = StdRng::seed_from_u64(seed);
    let p = make_participants(&mut rng);
    let gs = gates();
    let indices: [u32; 6] = [0, 1, 2, 255, 65_536, u32::MAX];
    // value -> (gate, index, offset) for the pair (H1.right / H2.left); distinctness over everything
    let mut seen: HashMap<u128, String> = HashMap::new();
    let mut bad_agree = 0u64;
    let mut first = None;
    let mut collisions = Vec::new();
    let mut n = 0u64;
    for g in &gs {
        let prss: Vec<_> = p.iter().map(|e| e.indexed(g)).collect();
        for (ii, &idx) in indices.iter().enumerate() {
            // all 2049 admissible offsets for two indices per gate, 40 for the others
            let offsets = if ii < 2 { 2049 } else { 40 };
            let mut its: Vec<_> = prss.iter().map(|x| x.generate_chunks_iter::<u32, U1>(idx)).collect();
            for off in 0..offsets {
                let vals: Vec<(GenericArray<u128, U1>, GenericArray<u128, U1>)> = its.iter_mut().map(|it| it.next().unwrap()).collect();
                n += 1;
                for h in 0..3 {
                    let right = vals[h].1[0];
                    let left_of_next = vals[(h + 1) % 3].0[0];
                    if right != left_of_next {
                        bad_agree += 1;
                        first.get_or_insert_with(|| format!("gate {} index {idx} offset {off}: helper {h}'s right value differs from helper {}'s left value", g.as_ref(), (h + 1) % 3));
                    }
                    if let Some(prev) = seen.insert(right, format!("{}:{idx}:{off}:pair{h}", g.as_ref())) {
                        collisions.push(format!("value for {}:{idx}:{off} (pair {h}) equals the value for {prev}", g.as_ref()));
                    }
                }
            }
        }
    }
    r.add("evaluations", n);
    r.add("distinct_nontrivial", seen.len() as u64);
    r.add("prss_values_compared", 3 * n);
    if bad_agree > 0 {
        r.violation("prss:disagreement", &format!("{} ({bad_agree} values)", first.unwrap()), json!({"part":"prss","seed":seed}));
    }
    if let Some(c) = collisions.first() {
        r.violation("prss:related-values", &format!("{c} ({} collisions among {} values)", collisions.len(), seen.len()), json!({"part":"prss","seed":seed}));
    }
    // one more than the admissible number of values for one index must be refused
    let g = Gate::default().narrow("offset-limit");
    let prss = p[0].indexed(&g);
    let res = common::catch(|| {
        let mut it = prss.generate_chunks_iter::<u32, U1>(7);
        for _ in 0..2050 {
            let _ = it.next();
        }
    });
    r.inc("evaluations");
    if res.is_ok() {
        r.violation("prss:offset-limit", "2050 values were drawn for one (step, index) without an error: the offset space is 0..=2048", json!({"part":"prss"}));
    }
}

fn sequential_and_misuse(seed: u64, r: &mut Report) {
    let mut rng = StdRng::seed_from_u64(seed);
    let p = make_participants(&mut rng);
    let g = Gate::default().narrow("seq");
    let mut gens: Vec<_> = p.iter().map(|e| e.sequential(&g)).collect();
    let mut bad = 0u64;
    let mut seen = std::collections::HashSet::new();
    for _ in 0..1000 {
        let vals: Vec<(u64, u64)> = gens.iter_mut().map(|(l, rr)| (l.next_u64(), rr.next_u64())).collect();
        for h in 0..3 {
            if vals[h].1 != vals[(h + 1) % 3].0 {
                bad += 1;
            }
            seen.insert((h, vals[h].1));
        }
    }
    r.add("evaluations", 1000);
    r.add("distinct_nontrivial", seen.len() as u64);
    if bad > 0 {
        r.violation("prss:sequential-disagreement", &format!("{bad} of 3000 sequential draws differ between neighbours"), json!({"part":"prss"}));
    }
    if seen.len() < 2990 {
        r.violation("prss:sequential-repeats", &format!("only {} distinct values among 3000 sequential draws", seen.len()), json!({"part":"prss"}));
    }
    // misuse: the same step must not hand out the same stream twice, nor mix indexed / sequential
    let misuse: [(&str, Box<dyn Fn(&Endpoint, &Gate)>, Box<dyn Fn(&Endpoint, &Gate)>); 3] = [
        ("sequential-twice", Box::new(|e, g| drop(e.sequential(g))), Box::new(|e, g| drop(e.sequential(g)))),
        ("indexed-then-sequential", Box::new(|e, g| drop(e.indexed(g))), Box::new(|e, g| drop(e.sequential(g)))),
        ("sequential-then-indexed", Box::new(|e, g| drop(e.sequential(g))), Box::new(|e, g| drop(e.indexed(g)))),
    ];
    for (name, first, second) in &misuse {
        let g = Gate::default().narrow(*name);
        // a refused call panics while holding the endpoint's lock: use fresh endpoints per case
        let q = make_participants(&mut StdRng::seed_from_u64(seed + 5));
        first(&q[1], &g);
        r.inc("evaluations");
        if common::catch(|| second(&q[1], &g)).is_ok() {
            r.violation(&format!("prss:misuse-accepted:{name}"), &format!("{name} on one step was accepted: the same (step, index) values can be drawn twice"), json!({"part":"prss"}));
        }
    }
    // the per-generator monitor: the same (index, offset) on one indexed generator is refused (debug builds)
    let g = Gate::default().narrow("twice");
    let prss = p[2].indexed(&g);
    let _ = prss.generate_values(5u32);
    r.inc("evaluations");
    if common::provoking_prss_monitor(|| prss.generate_values(5u32)).is_ok() {
        r.note("the duplicate-index monitor is off in this build (release?): reuse inside protocols can not be observed");
        r.machinery("duplicate-index monitor inactive");
    }
}

/// The sequential stream of a gate must be unrelated to every indexed value of that gate's relatives
/// (the gate itself is excluded by the endpoint's own guard; children and siblings are not): the first
/// 64 sequential words of G are compared, as 64-bit values, with both halves of the indexed values
/// 0..64 of G/<child> and <sibling> for a list of child names that includes the words the generator
/// code itself uses.
fn sequential_vs_indexed(seed: u64, r: &mut Report) {
    let children = ["sequential", "seq", "indexed", "rng", "left", "right", "0", "prss"];
    let mut n = 0u64;
    let mut bad = Vec::new();
    for base in ["protocol/shuffle", "a", "protocol/iter000/gate0"] {
        let g = base.split('/').fold(Gate::default(), |g, s| g.narrow(s));
        let p = make_participants(&mut StdRng::seed_from_u64(seed));
        let mut words: Vec<HashMap<u64, usize>> = Vec::new();
        for e in p.iter() {
            let (mut l, mut rr) = e.sequential(&g);
            let mut m = HashMap::new();
            for i in 0..64usize {
                m.insert(l.next_u64(), i);
                m.insert(rr.next_u64(), i);
            }
            words.push(m);
        }
        let mut relatives: Vec<Gate> = children.iter().map(|c| g.narrow(*c)).collect();
        relatives.push(format!("{base}x").split('/').fold(Gate::default(), |g, s| g.narrow(s)));
        for rel in &relatives {
            for (h, e) in p.iter().enumerate() {
                let ix = e.indexed(rel);
                for idx in 0..64u32 {
                    let (a, b): (u128, u128) = ix.generate_values(idx);
                    n += 1;
                    for v in [a, b] {
                        for half in [v as u64, (v >> 64) as u64] {
                            for (h2, m) in words.iter().enumerate() {
                                if let Some(i) = m.get(&half) {
                                    bad.push(format!("word #{i} of the sequential stream of {base} (helper {h2}) equals half of the indexed value at index {idx} of {} (helper {h})", rel.as_ref()));
                                }
                            }
                        }
                    }
                }
            }
        }
    }
    r.add("evaluations", n);
    r.add("distinct_nontrivial", n);
    r.add("sequential_vs_indexed_points", n);
    if let Some(b) = bad.first() {
        r.violation("prss:sequential-related-to-indexed", &format!("{b} ({} coincidences)", bad.len()), json!({"part":"prss","seed":seed}));
    }
}

/// Indices are 32 bits wide. A wider integer handed in as an index must be refused or, if accepted, must
/// not alias a small index.
fn wide_indices(seed: u64, r: &mut Report) {
    let mut n = 0u64;
    let mut bad = Vec::new();
    let g = Gate::default().narrow("wide-index");
    let base: Vec<u128> = vec![0, 1, 5, 255, u128::from(u32::MAX)];
    let wides: Vec<u128> = vec![1 << 32, (1 << 32) + 1, (1 << 32) + 5, (1 << 33) + 5, (1 << 63) + 5, u128::from(u64::MAX), (1u128 << 64) + 5, u128::MAX];
    let p = make_participants(&mut StdRng::seed_from_u64(seed));
    let small: Vec<(u128, (u128, u128))> = {
        let ix = p[0].indexed(&g);
        base.iter().map(|b| (*b, ix.generate_values(u32::try_from(*b).unwrap()))).collect()
    };
    for w in wides {
        n += 1;
        // fresh endpoints: a refusal may panic while the endpoint is locked
        let q = make_participants(&mut StdRng::seed_from_u64(seed));
        let ix = q[0].indexed(&g);
        if let Ok(v) = common::catch(|| -> (u128, u128) { ix.generate_values(w) }) {
            for (b, sv) in &small {
                if *sv == v {
                    bad.push(format!("index {w:#x} is accepted and yields the same values as index {b}"));
                }
            }
        }
    }
    r.add("evaluations", n);
    r.add("distinct_nontrivial", n);
    r.add("wide_index_points", n);
    if let Some(b) = bad.first() {
        r.violation("prss:wide-index-aliases", &format!("{b} ({} aliases)", bad.len()), json!({"part":"prss","seed":seed}));
    }
}

macro_rules! cross_shard {
    ($S:literal, $seed:expr, $r:expr, $rt:expr) => {{
        let mut config = TestWorldConfig::default();
        config.seed = $seed;
        config.timeout = None;
        let _g = $rt.enter();
        let world: TestWorld<WithShards<$S>> = TestWorld::with_shards(&config);
        let ctxs = world.contexts();
        let mut bad = Vec::new();
        let mut n = 0u64;
        for gi in 0..4 {
            for idx in [0u32, 1, 77, 65_536] {
                let vals: Vec<Vec<(u128, u128)>> = ctxs
                    .iter()
                    .map(|per_shard| per_shard.iter().map(|c| c.narrow(&format!("cs{gi}")).cross_shard_prss().generate_values(idx)).collect())
                    .collect();
                n += 1;
                for h in 0..3 {
                    if vals[h].iter().any(|v| *v != vals[h][0]) {
                        bad.push(format!("helper {h}: shards derive different cross-shard values for step cs{gi} index {idx}"));
                    }
                    if vals[h][0].1 != vals[(h + 1) % 3][0].0 {
                        bad.push(format!("cross-shard value of helper {h} (right) != helper {} (left) for step cs{gi} index {idx}", (h + 1) % 3));
                    }
                }
                // and it is different from the per-shard randomness of the same step
                let own: (u128, u128) = ctxs[0][0].narrow(&format!("cs{gi}")).prss().generate_values(idx);
                if own == vals[0][0] {
                    bad.push(format!("cross-shard and per-shard randomness coincide for step cs{gi} index {idx}"));
                }
            }
        }
        $r.add("evaluations", n);
        $r.add("distinct_nontrivial", n);
        $r.add("cross_shard_points", n);
        if let Some(b) = bad.first() {
            $r.violation(&format!("prss:cross-shard:S{}", $S), &format!("{b} ({} mismatches)", bad.len()), json!({"part":"prss","shards":$S}));
        }
    }};
}

fn protocol_runs(rt: &tokio::runtime::Runtime, seed: u64, r: &mut Report) {
    // size-dependent index arithmetic: attribution queries with and without padding, both modes,
    // 1 and 2 shards (the inputs keep rows on every shard)
    let (i, c) = (false, true);
    let mut reports = Vec::new();
    for k in 0..14u64 {
        reports.push(Rep { conversion: i, mk: 900 + k, data: (k * 9 % 256) as u32 });
        reports.push(Rep { conversion: c, mk: 900 + k, data: (k % 8) as u32 });
    }
    let n = reports.len();
    let mut cases = Vec::new();
    for (shards, malicious, padding) in [(1usize, false, false), (1, true, false), (1, true, true), (2, false, false), (2, true, true)] {
        cases.push(Case1 { shards, malicious, hv_bits: 8, padding, reports: reports.clone(), assign: (0..n).map(|x| x % shards).collect(), seed: seed + 40 + shards as u64 });
    }
    let before = common::prss_reuse_panics().len();
    let outs = rt.block_on(async { futures::future::join_all(cases.iter().map(|c| c01::hybrid_world(c, passthrough(), Duration::from_secs(120), Duration::from_secs(3)))).await });
    for (c, o) in cases.iter().zip(&outs) {
        r.inc("evaluations");
        r.inc("protocol_runs_monitored");
        let ok = o.iter().flatten().all(|x| matches!(x, Out::Ok(_)));
        if !ok && !c01::some_shard_runs_dry(c, rt) {
            let what: Vec<String> = o.iter().flatten().filter(|x| !matches!(x, Out::Ok(_))).map(|x| format!("{x:?}")).take(2).collect();
            if what.iter().any(|w| w.contains("Generated randomness for index")) {
                // reported below through the monitor
            } else {
                r.note(format!("monitored run S{} malicious={} padding={} did not complete: {what:?}", c.shards, c.malicious, c.padding));
            }
        }
    }
    let reuse = common::prss_reuse_panics();
    if reuse.len() > before {
        r.violation("prss:index-reuse-in-protocol", &format!("{} ({} panics)", reuse[before], reuse.len() - before), json!({"part":"prss"}));
    }
}

#[test]
fn run() {
    let mut r = Report::new("C06");
    let seed = common::seed();
    let rt = fault::runtime(4);
    for s in 0..3 {
        agreement(seed * 1000 + s, &mut r);
    }
    sequential_and_misuse(seed, &mut r);
    for s in 0..3 {
        sequential_vs_indexed(seed * 1000 + 50 + s, &mut r);
        wide_indices(seed * 1000 + 60 + s, &mut r);
    }
    cross_shard!(2, seed + 7, r, rt);
    cross_shard!(3, seed + 8, r, rt);
    cross_shard!(5, seed + 9, r, rt);
    protocol_runs(&rt, seed, &mut r);
    r.sample(json!({"alphabet":{"gates":gates().len(),"indices":[0,1,2,255,65536,4294967295u64],"offsets":"0..=2048 for two indices per gate, 0..40 otherwise"}}));
    r.flag("exhaustive", true);
    r.finish();
}
