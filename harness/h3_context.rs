// Hook H3 (ipa-core/src/protocol/context/mod.rs): Batcher / BatchState are pub(super) in
// context::batcher.

#[cfg(all(not(feature = "shuttle"), feature = "descriptive-gate"))]
mod c16 {
    include!(concat!(env!("IPA_VERIF_DIR"), "/c16.rs"));
}
