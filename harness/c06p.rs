// C06 (end of a sequential stream): a sequential generator hands out the values of one step at
// indices 0, 1, 2, ... of a 32-bit counter. Positioned (through the private field, hook H12) shortly
// before the end, it must hand out the remaining indices - the same values on the two neighbours that
// share the stream, all distinct from the first values of the stream - and must refuse loudly to go
// past the last index: wrapping around would replay the step's stream from index 0.
// (module path: crate::protocol::prss::verif::c06p; config A)

use rand::{RngCore, SeedableRng, rngs::StdRng};
use serde_json::json;

use super::super::{PrssIndex, SequentialSharedRandomness};
use crate::{
    protocol::Gate,
    test_fixture::make_participants,
    verif::common::{self, Report},
};

fn set_position(g: &mut SequentialSharedRandomness, index: u32) {
    g.counter = PrssIndex::from(index);
}

#[test]
fn run() {
    use ipa_step::StepNarrow;
    let mut r = Report::new("C06");
    let seed = common::seed() + 660;
    for (case, back) in [(0u32, 4u32), (1, 1), (2, 0), (3, 17)] {
        let p = make_participants(&mut StdRng::seed_from_u64(seed + u64::from(case)));
        let g = Gate::default().narrow(&format!("seq-end-{case}"));
        // helper 0's right stream is helper 1's left stream
        let (_l0, mut r0) = p[0].sequential(&g);
        let (mut l1, _r1) = p[1].sequential(&g);
        // the first values of the stream, from a second endpoint set with the same seed
        let q = make_participants(&mut StdRng::seed_from_u64(seed + u64::from(case)));
        let (_ql, mut qr) = q[0].sequential(&g);
        let first: Vec<u64> = (0..64).map(|_| qr.next_u64()).collect();
        set_position(&mut r0, u32::MAX - back);
        set_position(&mut l1, u32::MAX - back);
        let mut drawn = Vec::new();
        let mut refused_at = None;
        // the indices u32::MAX - back ..= u32::MAX exist; everything after must be refused
        for k in 0..u64::from(back) + 1 + 8 {
            let a = common::catch(std::panic::AssertUnwindSafe(|| r0.next_u64()));
            let b = common::catch(std::panic::AssertUnwindSafe(|| l1.next_u64()));
            r.inc("evaluations");
            r.inc("distinct_nontrivial");
            match (a, b) {
                (Ok(a), Ok(b)) => {
                    if a != b {
                        r.violation("prss:sequential-end:disagreement", &format!("draw {k} after position u32::MAX - {back}: the two holders of the stream drew {a:#x} and {b:#x}"), json!({"part":"prss-end","back":back}));
                    }
                    drawn.push(a);
                }
                (Err(_), Err(_)) => {
                    refused_at = Some(k);
                    break;
                }
                (a, b) => {
                    r.violation("prss:sequential-end:one-sided", &format!("draw {k} after position u32::MAX - {back}: one holder of the stream refused and the other did not ({:?} / {:?})", a.is_ok(), b.is_ok()), json!({"part":"prss-end","back":back}));
                    break;
                }
            }
        }
        r.inc("sequential_end_cases");
        let allowed = u64::from(back) + 1;
        match refused_at {
            Some(k) if k <= allowed => {}
            Some(k) => r.violation("prss:sequential-end:wrapped", &format!("positioned {back} before the last index, the generator handed out {k} values ({allowed} indices are left) before it refused"), json!({"part":"prss-end","back":back})),
            None => {
                let replayed = drawn.iter().skip(allowed as usize).zip(&first).filter(|(a, b)| a == b).count();
                r.violation(
                    "prss:sequential-end:wrapped",
                    &format!("positioned {back} before the last index, the generator handed out {} values although only {allowed} indices are left and never refused; {replayed} of the values after the end equal the first values of the step's stream (replayed from index 0)", drawn.len()),
                    json!({"part":"prss-end","back":back}),
                );
            }
        }
        // the values before the end are not a replay of the start either
        if drawn.iter().take(allowed as usize).any(|v| first.contains(v)) {
            r.violation("prss:sequential-end:repeat", "a value near the end of the stream equals one of the first 64 values", json!({"part":"prss-end","back":back}));
        }
    }
    r.sample(json!({"case":"position u32::MAX - 4","oracle":"5 more values, equal on both holders, then a refusal (panic)"}));
    r.flag("exhaustive", true);
    r.finish();
}
