// C19 / E2: reshard_iter on the shards of one helper (resharding only talks to sibling shards of the
// same helper) of a sharded TestWorld built inside the shuttle body; one task per shard plus the
// gateway stream tasks and the shard transport, every interleaving within the preemption bound
// inside the exploration window. The output on every shard must be the reference vector on every
// schedule (that is what keeps the three helpers aligned: none of them may depend on timing).
// (module path: crate::verif::c19s; config B)

use std::{
    collections::BTreeSet,
    sync::{Arc as StdArc, Mutex as StdMutex},
};

use serde_json::json;

use super::{
    common::{self, Report},
    sched::{self, Cfg},
};
use crate::{
    ff::{Fp32BitPrime, U128Conversions},
    protocol::{RecordId, context::reshard_iter},
    sharding::ShardIndex,
    test_fixture::{TestWorld, TestWorldConfig, WithShards},
};

#[derive(Clone, Copy, Debug)]
pub struct Drv {
    pub shards: usize,
    /// records per shard
    pub n: usize,
    /// 0: by value, 1: all to shard 0, 2: all to the last shard, 3: stay, 4: next shard
    pub picker: usize,
}

impl Drv {
    pub fn name(&self) -> String {
        format!("S{}-n{}-p{}", self.shards, self.n, self.picker)
    }
    pub fn to_json(&self) -> serde_json::Value {
        json!({"shards":self.shards,"n":self.n,"picker":self.picker})
    }
    pub fn from_json(v: &serde_json::Value) -> Self {
        let u = |k: &str| v[k].as_u64().unwrap() as usize;
        Self { shards: u("shards"), n: u("n"), picker: u("picker") }
    }
    fn pick(&self, my: usize, idx: usize, value: u128) -> usize {
        match self.picker {
            0 => (value % self.shards as u128) as usize,
            1 => 0,
            2 => self.shards - 1,
            3 => my,
            _ => (my + 1 + idx) % self.shards,
        }
    }
    fn input(&self, shard: usize) -> Vec<u128> {
        (0..self.n).map(|i| 100 * (shard as u128 + 1) + 7 * i as u128 + shard as u128).collect()
    }
    pub fn reference(&self) -> Vec<Vec<u128>> {
        let mut out = vec![Vec::new(); self.shards];
        for s in 0..self.shards {
            for (i, v) in self.input(s).into_iter().enumerate() {
                out[self.pick(s, i, v)].push(v);
            }
        }
        out
    }
}

async fn world_run<const S: usize>(d: Drv) -> Vec<Vec<u128>> {
    let mut config = TestWorldConfig::default();
    config.seed = 19;
    config.timeout = None;
    let world: &'static mut TestWorld<WithShards<S>> = Box::leak(Box::new(TestWorld::with_shards(&config)));
    let ptr = world as *mut TestWorld<WithShards<S>>;
    let world: &'static TestWorld<WithShards<S>> = world;
    let [h1, _, _] = world.contexts();
    sched::open_window();
    let mut hs = Vec::new();
    for (s, ctx) in h1.into_iter().enumerate().rev() {
        hs.push((s, shuttle::future::spawn(async move {
            let input: Vec<Fp32BitPrime> = d.input(s).into_iter().map(Fp32BitPrime::truncate_from).collect();
            let r = reshard_iter(ctx, input, move |_, rid: RecordId, v: &Fp32BitPrime| ShardIndex::from(d.pick(s, usize::from(rid), v.as_u128()) as u32)).await.unwrap();
            r.iter().map(U128Conversions::as_u128).collect::<Vec<u128>>()
        })));
    }
    let mut out = vec![Vec::new(); S];
    for (s, h) in hs {
        out[s] = h.await.unwrap();
    }
    sched::close_window();
    // SAFETY: every task holding a context has been joined
    drop(unsafe { Box::from_raw(ptr) });
    out
}

fn body(d: Drv, outcomes: StdArc<StdMutex<BTreeSet<String>>>) {
    shuttle::future::block_on(async move {
        let got = match d.shards {
            2 => world_run::<2>(d).await,
            _ => world_run::<3>(d).await,
        };
        let want = d.reference();
        assert!(got == want, "C19-ORACLE order: shards hold {got:?}, expected {want:?}");
        outcomes.lock().unwrap().insert(format!("{got:?}"));
    });
}

pub fn explore_driver(d: Drv, bounds: &[u32], cap_exec: u64, cap_wall_s: u64, r: &mut Report) -> bool {
    let name = d.name();
    for &k in bounds {
        let outcomes = StdArc::new(StdMutex::new(BTreeSet::new()));
        let o2 = StdArc::clone(&outcomes);
        let mut cfg = Cfg::new(k);
        cfg.max_exec = cap_exec;
        cfg.max_wall = std::time::Duration::from_secs(cap_wall_s);
        cfg.use_window = true;
        cfg.split = std::env::var("VERIF_SPLIT").ok().and_then(|s| s.parse().ok()).unwrap_or(2);
        let out = sched::explore(cfg, move || body(d, StdArc::clone(&o2)));
        r.add("states", out.counted);
        r.add("transitions", out.steps);
        r.add("evaluations", out.executions);
        r.add("distinct_nontrivial", out.counted);
        r.add("schedules", out.counted);
        r.max("depth", out.max_depth as u64);
        r.max("preemptions_used", u64::from(out.max_preempt));
        r.add(&format!("schedules_{name}_k{k}"), out.counted);
        if std::env::var("VERIF_VERBOSE").is_ok() {
            eprintln!("{name} k={k}: execs {} counted {} steps {} depth {} wall {:.1}s complete {} cap {}", out.executions, out.counted, out.steps, out.max_depth, out.wall, out.complete, out.cap_hit);
        }
        if let Some(m) = out.machinery {
            r.machinery(&format!("{name} k={k}: {m}"));
            return false;
        }
        if let Some((path, msg)) = out.failure {
            let kind = if msg.contains("deadlock") { "deadlock" } else if msg.contains("C19-ORACLE") { "order" } else { "panic" };
            r.violation(&format!("reshard-sched:{kind}:{name}"), &format!("k={k}: {msg}"), json!({"part":"sched","driver":d.to_json(),"bound":k,"schedule":path}));
            return false;
        }
        if out.cap_hit || !out.complete {
            r.flag("exhaustive", false);
            r.note(format!("{name}: cap hit at k={k} after {} executions ({:.0}s); bounds below k completed", out.executions, out.wall));
            r.set("bounds_completed", format!("{name}:k<{k}"));
            return true;
        }
        r.set("bounds_completed", format!("{name}:k={k}"));
    }
    true
}

#[test]
fn run() {
    let mut r = Report::new("C19");
    if let Some(rep) = common::replay_arg() {
        let d = Drv::from_json(&rep["driver"]);
        let path: Vec<u32> = rep["schedule"].as_array().unwrap().iter().map(|v| v.as_u64().unwrap() as u32).collect();
        let outcomes = StdArc::new(StdMutex::new(BTreeSet::new()));
        let mut cfg = Cfg::new(rep["bound"].as_u64().unwrap() as u32);
        cfg.forced = Some(path.clone());
        cfg.worker = (0, 1);
        cfg.use_window = true;
        let out = sched::explore(cfg, move || body(d, StdArc::clone(&outcomes)));
        r.add("states", 1);
        r.add("transitions", out.steps);
        if let Some((_, msg)) = out.failure {
            r.violation(&format!("reshard-sched:replay:{}", d.name()), &msg, json!({"part":"sched","driver":rep["driver"],"bound":rep["bound"],"schedule":path}));
        }
        r.finish();
        return;
    }
    let thorough = common::thorough();
    let mut drivers: Vec<(Drv, Vec<u32>)> = vec![
        (Drv { shards: 2, n: 2, picker: 0 }, vec![0]),
        (Drv { shards: 2, n: 2, picker: 1 }, vec![0]),
        (Drv { shards: 2, n: 2, picker: 4 }, vec![0]),
        (Drv { shards: 2, n: 0, picker: 3 }, vec![0]),
        (Drv { shards: 2, n: 3, picker: 0 }, vec![0]),
        (Drv { shards: 2, n: 2, picker: 3 }, vec![0]),
    ];
    if thorough {
        drivers = vec![
            (Drv { shards: 2, n: 2, picker: 0 }, vec![0, 1, 2]),
            (Drv { shards: 2, n: 2, picker: 1 }, vec![0, 1, 2]),
            (Drv { shards: 2, n: 2, picker: 2 }, vec![0, 1, 2]),
            (Drv { shards: 2, n: 3, picker: 4 }, vec![0, 1, 2]),
            (Drv { shards: 2, n: 1, picker: 4 }, vec![0, 1, 2, 3]),
            (Drv { shards: 2, n: 0, picker: 3 }, vec![0, 1, 2, 3]),
            (Drv { shards: 2, n: 2, picker: 3 }, vec![0, 1, 2]),
            (Drv { shards: 3, n: 1, picker: 4 }, vec![0, 1]),
            (Drv { shards: 3, n: 2, picker: 0 }, vec![0, 1]),
        ];
    }
    r.flag("exhaustive", true);
    let (cap_exec, cap_wall) = if thorough { (20_000_000, 1200) } else { (2_000_000, 120) };
    let budget = sched::Budget::new(if thorough { 2400 } else { 240 }, cap_wall);
    let mut left: usize = drivers.iter().map(|d| d.1.len()).sum();
    for (d, bounds) in drivers {
        let mut ok = true;
        for b in &bounds {
            let share = budget.share(left);
            left -= 1;
            ok = explore_driver(d, &[*b], cap_exec, share, &mut r);
            if !ok {
                break;
            }
            // a bound that hit its cap ends this driver
            if r.has_note_for(&d.name()) {
                break;
            }
        }
        if !ok {
            break;
        }
    }
    r.sample(json!({"driver":{"shards":2,"n":2,"picker":"by value"},"tasks":"one task per shard of helper 1 running reshard_iter, gateway stream tasks, shard transport","oracle":"every shard holds the reference vector on every schedule; no deadlock"}));
    r.finish();
}
