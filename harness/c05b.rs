// C05 (row types): the honest sharded shuffle for the other row widths the property names - 32-bit
// and 112-bit plain rows and the two production row types (a hybrid report with its 64-bit match key,
// 3-bit value and 8-bit breakdown key packed into 112 bits; the aggregation row packed into 32 bits) -
// in both security modes: the rows over all shards are the input rows as a multiset, held as
// consistent replicated sharings. (module path: crate::verif::c05b; config A)

use std::time::Duration;

use rand::{SeedableRng, rngs::StdRng};
use serde_json::json;

use super::{
    common::{self, Report},
    fault::{self, BoxFut, Out},
};
use crate::{
    ff::{
        U128Conversions,
        boolean_array::{BA3, BA8, BA16, BA32, BA64, BA112},
    },
    protocol::ipa_prf::shuffle::ShardedShuffle,
    report::hybrid::{AggregateableHybridReport, IndistinguishableHybridReport},
    secret_sharing::{
        IntoShares,
        replicated::{ReplicatedSecretSharing, semi_honest::AdditiveShare},
    },
    test_fixture::{TestWorld, TestWorldConfig, WithShards},
};

/// a row type: how to build the three shares of plaintext row `v` and how to read a row back
pub trait RowKind: Clone + Send + Sync + 'static {
    const NAME: &'static str;
    fn share(v: u128, rng: &mut StdRng) -> [Self; 3];
    /// (left, right) parts as integers, field by field
    fn parts(&self) -> (Vec<u128>, Vec<u128>);
    fn plain(v: u128) -> Vec<u128>;
}

impl RowKind for AdditiveShare<BA32> {
    const NAME: &'static str = "BA32";
    fn share(v: u128, rng: &mut StdRng) -> [Self; 3] {
        BA32::truncate_from(v).share_with(rng)
    }
    fn parts(&self) -> (Vec<u128>, Vec<u128>) {
        (vec![self.left().as_u128()], vec![self.right().as_u128()])
    }
    fn plain(v: u128) -> Vec<u128> {
        vec![v & 0xffff_ffff]
    }
}
impl RowKind for AdditiveShare<BA112> {
    const NAME: &'static str = "BA112";
    fn share(v: u128, rng: &mut StdRng) -> [Self; 3] {
        BA112::truncate_from(v).share_with(rng)
    }
    fn parts(&self) -> (Vec<u128>, Vec<u128>) {
        (vec![self.left().as_u128()], vec![self.right().as_u128()])
    }
    fn plain(v: u128) -> Vec<u128> {
        vec![v & ((1 << 112) - 1)]
    }
}
impl RowKind for IndistinguishableHybridReport<BA8, BA3> {
    const NAME: &'static str = "hybrid-report(64+3+8)";
    fn share(v: u128, rng: &mut StdRng) -> [Self; 3] {
        let mk: [AdditiveShare<BA64>; 3] = BA64::truncate_from(v).share_with(rng);
        let val: [AdditiveShare<BA3>; 3] = BA3::truncate_from(v >> 64).share_with(rng);
        let bk: [AdditiveShare<BA8>; 3] = BA8::truncate_from(v >> 67).share_with(rng);
        std::array::from_fn(|h| Self { match_key: mk[h].clone(), value: val[h].clone(), breakdown_key: bk[h].clone() })
    }
    fn parts(&self) -> (Vec<u128>, Vec<u128>) {
        (
            vec![self.match_key.left().as_u128(), self.value.left().as_u128(), self.breakdown_key.left().as_u128()],
            vec![self.match_key.right().as_u128(), self.value.right().as_u128(), self.breakdown_key.right().as_u128()],
        )
    }
    fn plain(v: u128) -> Vec<u128> {
        vec![v & u128::from(u64::MAX), (v >> 64) & 7, (v >> 67) & 0xff]
    }
}
impl RowKind for AggregateableHybridReport<BA8, BA3> {
    const NAME: &'static str = "aggregation-row(3+8)";
    fn share(v: u128, rng: &mut StdRng) -> [Self; 3] {
        let val: [AdditiveShare<BA3>; 3] = BA3::truncate_from(v).share_with(rng);
        let bk: [AdditiveShare<BA8>; 3] = BA8::truncate_from(v >> 3).share_with(rng);
        std::array::from_fn(|h| Self { match_key: (), value: val[h].clone(), breakdown_key: bk[h].clone() })
    }
    fn parts(&self) -> (Vec<u128>, Vec<u128>) {
        (vec![self.value.left().as_u128(), self.breakdown_key.left().as_u128()], vec![self.value.right().as_u128(), self.breakdown_key.right().as_u128()])
    }
    fn plain(v: u128) -> Vec<u128> {
        vec![v & 7, (v >> 3) & 0xff]
    }
}

// the widest reports the shuffle shares can hold: match key + value + breakdown key fill BA112 / BA32 exactly
impl RowKind for IndistinguishableHybridReport<BA32, BA16> {
    const NAME: &'static str = "hybrid-report(64+16+32, exact fit)";
    fn share(v: u128, rng: &mut StdRng) -> [Self; 3] {
        let mk: [AdditiveShare<BA64>; 3] = BA64::truncate_from(v).share_with(rng);
        let val: [AdditiveShare<BA16>; 3] = BA16::truncate_from(v >> 64).share_with(rng);
        let bk: [AdditiveShare<BA32>; 3] = BA32::truncate_from((v >> 80) | (1 << 31)).share_with(rng);
        std::array::from_fn(|h| Self { match_key: mk[h].clone(), value: val[h].clone(), breakdown_key: bk[h].clone() })
    }
    fn parts(&self) -> (Vec<u128>, Vec<u128>) {
        (
            vec![self.match_key.left().as_u128(), self.value.left().as_u128(), self.breakdown_key.left().as_u128()],
            vec![self.match_key.right().as_u128(), self.value.right().as_u128(), self.breakdown_key.right().as_u128()],
        )
    }
    fn plain(v: u128) -> Vec<u128> {
        vec![v & u128::from(u64::MAX), (v >> 64) & 0xffff, ((v >> 80) | (1 << 31)) & 0xffff_ffff]
    }
}
impl RowKind for AggregateableHybridReport<BA16, BA16> {
    const NAME: &'static str = "aggregation-row(16+16, exact fit)";
    fn share(v: u128, rng: &mut StdRng) -> [Self; 3] {
        let val: [AdditiveShare<BA16>; 3] = BA16::truncate_from(v).share_with(rng);
        let bk: [AdditiveShare<BA16>; 3] = BA16::truncate_from((v >> 16) | (1 << 15)).share_with(rng);
        std::array::from_fn(|h| Self { match_key: (), value: val[h].clone(), breakdown_key: bk[h].clone() })
    }
    fn parts(&self) -> (Vec<u128>, Vec<u128>) {
        (vec![self.value.left().as_u128(), self.breakdown_key.left().as_u128()], vec![self.value.right().as_u128(), self.breakdown_key.right().as_u128()])
    }
    fn plain(v: u128) -> Vec<u128> {
        vec![v & 0xffff, ((v >> 16) | (1 << 15)) & 0xffff]
    }
}

fn values(n: usize) -> Vec<u128> {
    (0..n).map(|i| 0x0123_4567_89ab_cdef_1357_9bdf_0246u128.wrapping_mul(i as u128 + 1).wrapping_add(1 << (7 * i % 110))).collect()
}

macro_rules! arm {
    ($fname:ident, $T:ty) => {
        async fn $fname<const S: usize>(n: usize, assign: &[usize], malicious: bool, seed: u64) -> Result<(), String>
        where
            $T: RowKind,
        {
            let mut config = TestWorldConfig::default();
            config.seed = seed;
            config.timeout = None;
            let world: TestWorld<WithShards<S>> = TestWorld::with_shards(&config);
            let mut rng = StdRng::seed_from_u64(seed ^ 0x55);
            let vals = values(n);
            let mut inputs: [Vec<Vec<$T>>; 3] = std::array::from_fn(|_| (0..S).map(|_| Vec::new()).collect());
            for (v, sh) in vals.iter().zip(assign) {
                let shares = <$T as RowKind>::share(*v, &mut rng);
                for (h, s) in shares.into_iter().enumerate() {
                    inputs[h][*sh].push(s);
                }
            }
            let mut futs: Vec<BoxFut<'_, Vec<$T>>> = Vec::new();
            macro_rules! push {
                ($ctxs:expr) => {
                    for (h, per_shard) in $ctxs.into_iter().enumerate() {
                        for (s, ctx) in per_shard.into_iter().enumerate() {
                            let inp = std::mem::take(&mut inputs[h][s]);
                            futs.push(Box::pin(async move { ctx.sharded_shuffle(inp).await.map_err(|e| format!("{e:?}")) }));
                        }
                    }
                };
            }
            if malicious {
                push!(world.malicious_contexts());
            } else {
                push!(world.contexts());
            }
            let flat = fault::run_all(futs, Duration::from_secs(60), Duration::from_secs(5)).await;
            let mut it = flat.into_iter();
            let out: Vec<Vec<Out<Vec<$T>>>> = (0..3).map(|_| (0..S).map(|_| it.next().unwrap()).collect()).collect();
            drop(world);
            let mut got: Vec<Vec<u128>> = Vec::new();
            for s in 0..S {
                let (Some(a), Some(b), Some(c)) = (out[0][s].ok(), out[1][s].ok(), out[2][s].ok()) else {
                    return Err(format!("shard {s}: {:?} {:?} {:?}", out[0][s].class(), out[1][s].class(), out[2][s].class()));
                };
                if a.len() != b.len() || b.len() != c.len() {
                    return Err(format!("shard {s}: the helpers hold {} / {} / {} rows", a.len(), b.len(), c.len()));
                }
                for i in 0..a.len() {
                    let (al, ar) = a[i].parts();
                    let (bl, br) = b[i].parts();
                    let (cl, cr) = c[i].parts();
                    if ar != bl || br != cl || cr != al {
                        return Err(format!("shard {s} row {i}: neighbouring helpers hold different copies of their common share"));
                    }
                    got.push((0..al.len()).map(|f| al[f] ^ bl[f] ^ cl[f]).collect());
                }
            }
            let mut want: Vec<Vec<u128>> = vals.iter().map(|v| <$T as RowKind>::plain(*v)).collect();
            got.sort();
            want.sort();
            if got != want {
                return Err(format!("rows after the shuffle are not the input rows as a multiset: {} rows out, {} in; first difference {:?}", got.len(), want.len(), got.iter().zip(&want).find(|(a, b)| a != b)));
            }
            Ok(())
        }
    };
}
arm!(arm_ba32, AdditiveShare<BA32>);
arm!(arm_ba112, AdditiveShare<BA112>);
arm!(arm_report, IndistinguishableHybridReport<BA8, BA3>);
arm!(arm_agg, AggregateableHybridReport<BA8, BA3>);
arm!(arm_report_fit, IndistinguishableHybridReport<BA32, BA16>);
arm!(arm_agg_fit, AggregateableHybridReport<BA16, BA16>);

#[test]
fn run() {
    let mut r = Report::new("C05");
    let thorough = common::thorough();
    let rt = fault::runtime(6);
    let seed = common::seed() + 505;
    let ns: Vec<usize> = if thorough { (0..=16).collect() } else { vec![0, 1, 2, 3, 5, 8] };
    for kind in 0..6usize {
        let name = [<AdditiveShare<BA32> as RowKind>::NAME, <AdditiveShare<BA112> as RowKind>::NAME, <IndistinguishableHybridReport<BA8, BA3> as RowKind>::NAME, <AggregateableHybridReport<BA8, BA3> as RowKind>::NAME, <IndistinguishableHybridReport<BA32, BA16> as RowKind>::NAME, <AggregateableHybridReport<BA16, BA16> as RowKind>::NAME][kind];
        for shards in [1usize, 2, 3] {
            for &n in &ns {
                let mut assigns: Vec<Vec<usize>> = vec![(0..n).map(|i| i % shards).collect(), vec![0; n], vec![shards - 1; n]];
                assigns.dedup();
                for assign in assigns {
                    for malicious in [false, true] {
                        r.inc("evaluations");
                        r.inc("row_type_runs");
                        if n >= 2 {
                            r.inc("distinct_nontrivial");
                        }
                        r.set("row_types", name.to_string());
                        macro_rules! go {
                            ($f:ident) => {
                                match shards {
                                    1 => rt.block_on($f::<1>(n, &assign, malicious, seed)),
                                    2 => rt.block_on($f::<2>(n, &assign, malicious, seed)),
                                    _ => rt.block_on($f::<3>(n, &assign, malicious, seed)),
                                }
                            };
                        }
                        let res = match kind {
                            0 => go!(arm_ba32),
                            1 => go!(arm_ba112),
                            2 => go!(arm_report),
                            3 => go!(arm_agg),
                            4 => go!(arm_report_fit),
                            _ => go!(arm_agg_fit),
                        };
                        if let Err(e) = res {
                            r.violation(
                                &format!("shuffle:row-type:{name}:{}", if malicious { "malicious" } else { "semi-honest" }),
                                &format!("{n} rows on {shards} shards (assignment {assign:?}): {e}"),
                                json!({"part":"rows","row_type":name,"n":n,"shards":shards,"assign":assign,"malicious":malicious}),
                            );
                        }
                    }
                }
            }
        }
    }
    r.sample(json!({"row_types":["BA32","BA112","hybrid report (112 bits)","aggregation row (32 bits)"],"oracle":"multiset of reconstructed rows over all shards == input rows; neighbouring helpers' share copies agree"}));
    r.flag("exhaustive", true);
    r.finish();
}
