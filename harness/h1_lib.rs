// Hook H1 (ipa-core/src/lib.rs): harness root, compiled as `crate::verif` under
// `--cfg ipa_verif` in test builds only.

macro_rules! hmod {
    ($vis:vis $name:ident, $file:literal) => {
        $vis mod $name {
            include!(concat!(env!("IPA_VERIF_DIR"), "/", $file));
        }
    };
}

hmod!(pub(crate) common, "common.rs");
hmod!(pub(crate) bfs, "bfs.rs");
hmod!(pub(crate) explore, "explore.rs");
#[cfg(feature = "shuttle")]
hmod!(pub(crate) sched, "sched.rs");
#[cfg(all(feature = "shuttle", feature = "multi-threading"))]
hmod!(pub(crate) c15s, "c15s.rs");
#[cfg(feature = "shuttle")]
hmod!(pub(crate) c13s, "c13s.rs");
#[cfg(feature = "shuttle")]
hmod!(pub(crate) c19s, "c19s.rs");
#[cfg(not(feature = "shuttle"))]
hmod!(pub(crate) fault, "fault.rs");
#[cfg(not(feature = "shuttle"))]
hmod!(pub(crate) c01, "c01.rs");
#[cfg(all(not(feature = "shuttle"), feature = "descriptive-gate"))]
hmod!(pub(crate) c02, "c02.rs");
#[cfg(all(not(feature = "shuttle"), feature = "descriptive-gate"))]
hmod!(pub(crate) c02r, "c02r.rs");
#[cfg(all(not(feature = "shuttle"), feature = "descriptive-gate"))]
hmod!(pub(crate) c03, "c03.rs");
#[cfg(all(not(feature = "shuttle"), feature = "descriptive-gate"))]
hmod!(pub(crate) c04, "c04.rs");
#[cfg(all(not(feature = "shuttle"), feature = "descriptive-gate"))]
hmod!(pub(crate) c04m, "c04m.rs");
#[cfg(all(not(feature = "shuttle"), feature = "descriptive-gate"))]
hmod!(pub(crate) c05, "c05.rs");
#[cfg(all(not(feature = "shuttle"), feature = "descriptive-gate"))]
hmod!(pub(crate) c05b, "c05b.rs");
#[cfg(all(not(feature = "shuttle"), feature = "descriptive-gate"))]
hmod!(pub(crate) c06, "c06.rs");
#[cfg(all(not(feature = "shuttle"), feature = "descriptive-gate"))]
hmod!(pub(crate) c07, "c07.rs");
#[cfg(all(not(feature = "shuttle"), feature = "descriptive-gate"))]
hmod!(pub(crate) c07b, "c07b.rs");
#[cfg(all(not(feature = "shuttle"), feature = "descriptive-gate"))]
hmod!(pub(crate) c07c, "c07c.rs");
#[cfg(all(not(feature = "shuttle"), feature = "descriptive-gate"))]
hmod!(pub(crate) c08, "c08.rs");
#[cfg(all(not(feature = "shuttle"), feature = "descriptive-gate"))]
hmod!(pub(crate) c08b, "c08b.rs");
#[cfg(all(not(feature = "shuttle"), feature = "descriptive-gate"))]
hmod!(pub(crate) c09, "c09.rs");
#[cfg(all(not(feature = "shuttle"), feature = "descriptive-gate"))]
hmod!(pub(crate) c09t, "c09t.rs");
#[cfg(all(not(feature = "shuttle"), feature = "descriptive-gate"))]
hmod!(pub(crate) c09o, "c09o.rs");
#[cfg(all(not(feature = "shuttle"), feature = "descriptive-gate"))]
hmod!(pub(crate) c10, "c10.rs");
#[cfg(all(not(feature = "shuttle"), feature = "descriptive-gate"))]
hmod!(pub(crate) c12d, "c12d.rs");
#[cfg(all(not(feature = "shuttle"), feature = "descriptive-gate"))]
hmod!(pub(crate) c13, "c13.rs");
#[cfg(all(not(feature = "shuttle"), feature = "descriptive-gate"))]
hmod!(pub(crate) c15, "c15.rs");
#[cfg(all(not(feature = "shuttle"), feature = "descriptive-gate"))]
hmod!(pub(crate) c17, "c17.rs");
#[cfg(all(not(feature = "shuttle"), feature = "descriptive-gate"))]
hmod!(pub(crate) c16v, "c16v.rs");
#[cfg(all(not(feature = "shuttle"), feature = "descriptive-gate"))]
hmod!(pub(crate) c19, "c19.rs");
#[cfg(all(not(feature = "shuttle"), feature = "descriptive-gate"))]
hmod!(pub(crate) c19p, "c19p.rs");

#[test]
fn selftest() {
    let mut r = common::Report::new("SELF");
    r.inc("evaluations");
    assert!(common::catch(|| panic!("x")).unwrap_err().starts_with("x @"));
    r.finish();
}
