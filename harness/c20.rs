// C20 / E5: helper-to-helper and shard-to-shard endpoints refuse callers without a verified peer
// identity. (1) route table discovery by probing every path of <= 5 segments over the segment
// alphabet x 4 methods with a valid identity; every mounted route is then requested without an
// identity: peer routes must answer 401 whatever the parameters, report-collector routes never 401.
// (2) live loopback matrix: {TLS on/off} x {inherited listener, self-bound port} x identity header.
// (module path: crate::net::server::verif::c20; hook H11; config A)

use std::collections::BTreeMap;

use axum::body::Body;
use hyper::{Method, StatusCode};
use serde_json::json;

use super::super::ClientIdentity;
use crate::{
    helpers::{HelperIdentity, HelperResponse, make_owned_handler},
    net::{
        Helper, Shard,
        test::{TestServer, TestServerBuilder},
    },
    protocol::QueryId,
    sharding::ShardIndex,
    verif::common::{self, Report},
};

/// a request handler that answers every request the way the query processor would for a query in
/// the Running state (the HTTP handlers parse some of the responses)
fn permissive<I: crate::helpers::TransportIdentity>() -> std::sync::Arc<dyn crate::helpers::RequestHandler<I>> {
    use crate::helpers::{RoleAssignment, query::{PrepareQuery, QueryConfig, QueryType}, routing::RouteId};
    make_owned_handler(|addr: crate::helpers::routing::Addr<I>, _| async move {
        ORIGINS.lock().unwrap().push(format!("{:?}", addr.origin));
        Ok(match addr.route {
            RouteId::QueryStatus => HelperResponse::from(crate::query::QueryStatus::Running),
            RouteId::ReceiveQuery => HelperResponse::from(PrepareQuery {
                query_id: QueryId,
                config: QueryConfig::new(QueryType::TestMultiply, crate::ff::FieldType::Fp31, 1).unwrap(),
                roles: RoleAssignment::new(HelperIdentity::make_three()),
            }),
            RouteId::CompleteQuery => HelperResponse::from(vec![1u8, 2, 3]),
            RouteId::KillQuery => HelperResponse::from(crate::query::QueryKilled(QueryId)),
            _ => HelperResponse::ok(),
        })
    })
}

/// the peer identity every request reached the handler with (in order)
static ORIGINS: std::sync::Mutex<Vec<String>> = std::sync::Mutex::new(Vec::new());

// HEAD is answered by every GET route; OPTIONS and PATCH are what probes and preflights send
const METHODS: [Method; 7] = [Method::GET, Method::POST, Method::PUT, Method::DELETE, Method::HEAD, Method::OPTIONS, Method::PATCH];

fn alphabet() -> Vec<String> {
    // harvested from the AXUM_PATH constants of net/http_serde.rs (every literal segment), plus a
    // valid and a malformed query id and a step segment
    let mut segs: Vec<String> = Vec::new();
    use crate::net::http_serde as h;
    for p in [
        h::echo::AXUM_PATH,
        h::metrics::AXUM_PATH,
        h::query::BASE_AXUM_PATH,
        h::query::create::AXUM_PATH,
        h::query::prepare::AXUM_PATH,
        h::query::input::AXUM_PATH,
        h::query::step::AXUM_PATH,
        h::query::status::AXUM_PATH,
        h::query::results::AXUM_PATH,
        h::query::kill::AXUM_PATH,
        h::query::status_match::AXUM_PATH,
    ] {
        for s in p.split('/') {
            if !s.is_empty() && !s.starts_with(':') && !s.starts_with('*') {
                segs.push(s.to_string());
            }
        }
    }
    segs.push(QueryId.as_ref().to_string());
    segs.push("not-a-query-id".to_string());
    segs.push("gate-x".to_string());
    segs.sort();
    segs.dedup();
    segs
}

fn paths(max_len: usize) -> Vec<String> {
    let a = alphabet();
    let mut out = vec![String::from("/")];
    let mut frontier: Vec<Vec<usize>> = vec![vec![]];
    for _ in 0..max_len {
        let mut next = Vec::new();
        for p in &frontier {
            for i in 0..a.len() {
                let mut q = p.clone();
                q.push(i);
                out.push(format!("/{}", q.iter().map(|x| a[*x].as_str()).collect::<Vec<_>>().join("/")));
                out.push(format!("/{}/", q.iter().map(|x| a[*x].as_str()).collect::<Vec<_>>().join("/")));
                next.push(q);
            }
        }
        // keep the tree small: only prefixes that start with a top-level segment that exists
        frontier = next.into_iter().filter(|q| ["echo", "metrics", "query"].contains(&a[q[0]].as_str())).collect();
    }
    out.sort();
    out.dedup();
    out
}

/// what the module documentation says about a (server, method, path pattern)
#[derive(Clone, Copy, Debug, PartialEq)]
enum Class {
    Collector,
    Peer,
}

fn classify(shard_server: bool, method: &Method, path: &str) -> Option<Class> {
    let p = path.trim_end_matches('/');
    let seg: Vec<&str> = p.split('/').filter(|s| !s.is_empty()).collect();
    // a HEAD request is served by the GET route of the same path
    let m = if *method == Method::HEAD { "GET" } else { method.as_str() };
    match (seg.as_slice(), m) {
        (["echo"], "GET") => Some(Class::Collector),
        (["metrics"], "GET") if !shard_server => Some(Class::Collector),
        (["query"], "POST") if !shard_server => Some(Class::Collector), // create
        (["query", _], "POST") => Some(Class::Peer),                     // prepare
        (["query", _], "GET") if !shard_server => Some(Class::Collector), // status
        (["query", _, "input"], "POST") if !shard_server => Some(Class::Collector),
        (["query", _, "kill"], "POST") if !shard_server => Some(Class::Collector),
        (["query", _, "complete"], "GET") => Some(if shard_server { Class::Peer } else { Class::Collector }),
        (["query", _, "status-match"], _) if shard_server => Some(Class::Peer),
        (["query", _, "step", ..], "POST") if seg.len() >= 4 => Some(Class::Peer),
        _ => None,
    }
}

async fn probe<F>(server: &TestServer<F>, shard_server: bool, identity: Option<ClientIdentity<F::Identity>>, r: &mut Report) -> (BTreeMap<(String, String), StatusCode>, u64)
where
    F: crate::net::ConnectionFlavor,
{
    let mut res = BTreeMap::new();
    let mut n = 0u64;
    let bodies: [&[u8]; 2] = [b"", b"{\"query_id\":\"0\"}"];
    for path in paths(5) {
        for m in &METHODS {
            for (bi, body) in bodies.iter().enumerate() {
                if bi == 1 && *m == Method::GET {
                    continue;
                }
                // query parameters that make the well-formed variants of create/prepare/status-match parse
                let uri = format!("http://localhost{path}?query_type=test-multiply&field_type=Fp31&size=1&status=Running");
                let mut b = hyper::Request::builder().method(m.clone()).uri(uri).header("content-type", "application/json");
                if let Some(id) = identity {
                    b = b.extension(id);
                }
                let req = b.body(Body::from(body.to_vec())).unwrap();
                // a repeated step submission for the same gate makes the in-memory stream registry panic
                // inside the handler (a served connection would be dropped): counted as "reached the handler"
                use futures::FutureExt;
                let resp = std::panic::AssertUnwindSafe(server.server.handle_req(req)).catch_unwind().await;
                n += 1;
                let st = resp.map_or(StatusCode::INTERNAL_SERVER_ERROR, |r| r.status());
                let key = (m.to_string(), path.clone());
                // keep the most permissive status seen for the route over the body variants
                let e = res.entry(key).or_insert(st);
                if *e == StatusCode::UNAUTHORIZED && st != StatusCode::UNAUTHORIZED {
                    *e = st;
                }
                if *e == StatusCode::NOT_FOUND || *e == StatusCode::METHOD_NOT_ALLOWED {
                    *e = st;
                }
            }
        }
    }
    let _ = (shard_server, r);
    (res, n)
}

async fn route_tables(r: &mut Report) {
    let ok_h = permissive::<HelperIdentity>();
    let ok_s = permissive::<ShardIndex>();
    let mpc: TestServer<Helper> = TestServerBuilder::<Helper>::default().with_request_handler(ok_h).build().await;
    let shard: TestServer<Shard> = TestServerBuilder::<Shard>::default().with_request_handler(ok_s).build().await;
    let mut judge = |name: &str, shard_server: bool, with_id: BTreeMap<(String, String), StatusCode>, without: BTreeMap<(String, String), StatusCode>, r: &mut Report| {
        let mut mounted = 0u64;
        for ((m, path), st) in &with_id {
            if *st == StatusCode::NOT_FOUND || *st == StatusCode::METHOD_NOT_ALLOWED {
                // not mounted for an authenticated caller: an anonymous caller must not get further
                let anon = without[&(m.clone(), path.clone())];
                if anon != StatusCode::NOT_FOUND && anon != StatusCode::METHOD_NOT_ALLOWED && anon != StatusCode::UNAUTHORIZED {
                    r.violation(&format!("auth:route-only-for-anonymous:{name}"), &format!("{m} {path}: {anon} without identity but {st} with identity"), json!({"part":"auth"}));
                }
                continue;
            }
            mounted += 1;
            let method = Method::from_bytes(m.as_bytes()).unwrap();
            let anon = without[&(m.clone(), path.clone())];
            let class = classify(shard_server, &method, path);
            r.set(&format!("mounted_{name}"), format!("{m} {} [{}]", pattern(path), class.map_or("unlisted".to_string(), |c| format!("{c:?}"))));
            match class {
                Some(Class::Peer) | None => {
                    if anon != StatusCode::UNAUTHORIZED {
                        let what = if class.is_none() { "a route that is not in the documented tables" } else { "a helper-to-helper / shard-to-shard route" };
                        r.violation(
                            &format!("auth:peer-route-open:{name}:{m} {}", pattern(path)),
                            &format!("{what} answers {anon} (not 401) to a request without a verified peer identity: {m} {path} ({st} with identity)"),
                            json!({"part":"auth","server":name,"method":m,"path":path}),
                        );
                    }
                }
                Some(Class::Collector) => {
                    if anon == StatusCode::UNAUTHORIZED {
                        r.violation(&format!("auth:collector-route-closed:{name}:{m} {}", pattern(path)), &format!("report-collector route {m} {path} answers 401 without peer identity"), json!({"part":"auth","server":name,"method":m,"path":path}));
                    }
                }
            }
        }
        r.add(&format!("mounted_routes_{name}"), mounted);
        mounted
    };
    let (with_h, n1) = probe(&mpc, false, Some(ClientIdentity(HelperIdentity::TWO)), r).await;
    let (without_h, n2) = probe(&mpc, false, None, r).await;
    let (with_s, n3) = probe(&shard, true, Some(ClientIdentity(ShardIndex::from(1u32))), r).await;
    let (without_s, n4) = probe(&shard, true, None, r).await;
    r.add("evaluations", n1 + n2 + n3 + n4);
    let m1 = judge("mpc", false, with_h, without_h, r);
    let m2 = judge("shard", true, with_s, without_s, r);
    r.add("distinct_nontrivial", m1 + m2);
    // the documented routes must all have been discovered (otherwise the probe alphabet is stale)
    for (name, want) in [("mpc", 9usize), ("shard", 5usize)] {
        let got = r.set_len(&format!("mounted_{name}"));
        if got < want {
            r.machinery(&format!("route discovery found only {got} route patterns on the {name} server (expected >= {want})"));
        }
    }
}

fn pattern(path: &str) -> String {
    let a = [QueryId.as_ref().to_string(), "not-a-query-id".to_string()];
    path.split('/').map(|s| if a.iter().any(|x| x == s) { ":query_id" } else if s == "gate-x" { "*step" } else { s }).collect::<Vec<_>>().join("/")
}

// ---- live loopback matrix ---------------------------------------------------------------------------

mod live {
    use std::sync::Arc;

    use hyper_rustls::HttpsConnector;
    use hyper_util::{
        client::legacy::{Client, connect::HttpConnector},
        rt::{TokioExecutor, TokioTimer},
    };
    use rustls::{
        client::danger::{ServerCertVerified, ServerCertVerifier},
        pki_types::ServerName,
    };
    use rustls_pki_types::CertificateDer;

    #[derive(Debug)]
    pub struct NoVerify;
    impl ServerCertVerifier for NoVerify {
        fn verify_tls12_signature(&self, _m: &[u8], _c: &CertificateDer<'_>, _d: &rustls::DigitallySignedStruct) -> Result<rustls::client::danger::HandshakeSignatureValid, rustls::Error> {
            Ok(rustls::client::danger::HandshakeSignatureValid::assertion())
        }
        fn verify_tls13_signature(&self, _m: &[u8], _c: &CertificateDer<'_>, _d: &rustls::DigitallySignedStruct) -> Result<rustls::client::danger::HandshakeSignatureValid, rustls::Error> {
            Ok(rustls::client::danger::HandshakeSignatureValid::assertion())
        }
        fn supported_verify_schemes(&self) -> Vec<rustls::SignatureScheme> {
            vec![rustls::SignatureScheme::RSA_PKCS1_SHA256, rustls::SignatureScheme::RSA_PSS_SHA256, rustls::SignatureScheme::ECDSA_NISTP256_SHA256]
        }
        fn verify_server_cert(&self, _e: &CertificateDer<'_>, _i: &[CertificateDer<'_>], _s: &ServerName<'_>, _o: &[u8], _n: rustls_pki_types::UnixTime) -> Result<ServerCertVerified, rustls::Error> {
            Ok(ServerCertVerified::assertion())
        }
    }

    pub fn https_client() -> Client<HttpsConnector<HttpConnector>, axum::body::Body> {
        let config = rustls::ClientConfig::builder_with_provider(Arc::clone(&crate::net::CRYPTO_PROVIDER))
            .with_safe_default_protocol_versions()
            .unwrap()
            .dangerous()
            .with_custom_certificate_verifier(Arc::new(NoVerify))
            .with_no_client_auth();
        let mut http = HttpConnector::new();
        http.enforce_http(false);
        let https = HttpsConnector::<HttpConnector>::from((http, Arc::new(config)));
        Client::builder(TokioExecutor::new()).pool_timer(TokioTimer::new()).build(https)
    }

    /// a TLS client that presents the test certificate number `cert` (0..3: helpers A, B, C; 3..6: the
    /// certificates the fixtures use for a second shard - not known to an MPC server of one shard)
    pub fn https_client_with_cert(cert: usize) -> (Client<HttpsConnector<HttpConnector>, axum::body::Body>, CertificateDer<'static>) {
        use crate::sharding::{ShardIndex, ShardedHelperIdentity};
        let id = ShardedHelperIdentity::new(crate::helpers::HelperIdentity::make_three()[cert % 3], ShardIndex::from((cert / 3) as u32));
        let (mut cert_pem, mut key_pem) = crate::net::test::get_test_certificate_and_key(id);
        let certs: Vec<CertificateDer<'static>> = rustls_pemfile::certs(&mut cert_pem).flatten().collect();
        let key = rustls_pemfile::private_key(&mut key_pem).unwrap().unwrap();
        let der = certs[0].clone();
        let config = rustls::ClientConfig::builder_with_provider(Arc::clone(&crate::net::CRYPTO_PROVIDER))
            .with_safe_default_protocol_versions()
            .unwrap()
            .dangerous()
            .with_custom_certificate_verifier(Arc::new(NoVerify))
            .with_client_auth_cert(certs, key)
            .unwrap();
        let mut http = HttpConnector::new();
        http.enforce_http(false);
        let https = HttpsConnector::<HttpConnector>::from((http, Arc::new(config)));
        (Client::builder(TokioExecutor::new()).pool_timer(TokioTimer::new()).build(https), der)
    }

    pub fn http_client() -> Client<HttpConnector, axum::body::Body> {
        Client::builder(TokioExecutor::new()).pool_timer(TokioTimer::new()).build(HttpConnector::new())
    }
}

async fn live_matrix(r: &mut Report) {
    use crate::executor::IpaRuntime;
    let qid = QueryId.as_ref().to_string();
    for https in [true, false] {
        let ok_h = permissive::<HelperIdentity>();
        let b = TestServerBuilder::<Helper>::default().with_request_handler(ok_h);
        let b = if https { b } else { b.disable_https() };
        let mut server: TestServer<Helper> = b.build().await;
        // a second listener of the same server object that binds its own (OS-assigned) port
        server.server.config.port = None;
        let (self_bound, _h) = server.server.start_on(&IpaRuntime::current(), None, ()).await;
        for (listener, addr) in [("inherited-listener", server.addr), ("self-bound-port", self_bound)] {
            for header in [None, Some("A"), Some("B"), Some("C")] {
                for (route, method, path) in [("step", Method::POST, format!("/query/{qid}/step/gate-{}-{}-{}", if https { "tls" } else { "plain" }, listener, header.unwrap_or("none"))), ("prepare", Method::POST, format!("/query/{qid}")), ("echo", Method::GET, "/echo".to_string())] {
                    let scheme = if https { "https" } else { "http" };
                    let uri = format!("{scheme}://localhost:{}{path}?query_type=test-multiply&field_type=Fp31&size=1", addr.port());
                    let mut b = hyper::Request::builder().method(method.clone()).uri(uri).header("content-type", "application/json");
                    if let Some(hv) = header {
                        b = b.header("x-unverified-helper-identity", hv);
                    }
                    let req = b.body(Body::from(Vec::new())).unwrap();
                    let st = if https {
                        tokio::time::timeout(std::time::Duration::from_secs(20), live::https_client().request(req)).await.map(|x| x.map(|x| x.status()))
                    } else {
                        tokio::time::timeout(std::time::Duration::from_secs(20), live::http_client().request(req)).await.map(|x| x.map(|x| x.status()))
                    };
                    r.inc("evaluations");
                    r.inc("distinct_nontrivial");
                    r.inc("live_requests");
                    let st = match st {
                        Ok(Ok(s)) => s,
                        other => {
                            r.machinery(&format!("live request {scheme} {listener} {route} failed: {other:?}"));
                            continue;
                        }
                    };
                    let peer_route = route != "echo";
                    let authenticated_expected = !https && header.is_some();
                    let ok = if !peer_route {
                        st != StatusCode::UNAUTHORIZED
                    } else if authenticated_expected {
                        st != StatusCode::UNAUTHORIZED
                    } else {
                        st == StatusCode::UNAUTHORIZED
                    };
                    r.set("live_outcomes", format!("{scheme}:{listener}:{route}:header={header:?}:{st}"));
                    if !ok {
                        let key = if https && header.is_some() && peer_route { "auth:tls-honours-identity-header" } else if peer_route && !authenticated_expected { "auth:peer-route-open-live" } else { "auth:live-unexpected" };
                        r.violation(
                            &format!("{key}:{listener}:{route}"),
                            &format!("{scheme} server ({listener}), no client certificate, identity header {header:?}: {method} {path} answered {st}"),
                            json!({"part":"auth","https":https,"listener":listener,"route":route,"header":header}),
                        );
                    }
                }
            }
        }
        // ---- client certificates (TLS only): the certificate of helper A, B or C is an identity, a
        // certificate the server does not know is none, and an identity header changes nothing ----------
        if https {
            for cert in 0..6usize {
                let known = cert < 3;
                let mut statuses: Vec<(Option<&str>, &str, StatusCode)> = Vec::new();
                for header in [None, Some("A"), Some("C")] {
                    for (route, method, path) in [("step", Method::POST, format!("/query/{qid}/step/gate-cert{cert}-{}", header.unwrap_or("none"))), ("prepare", Method::POST, format!("/query/{qid}")), ("echo", Method::GET, "/echo".to_string())] {
                        let uri = format!("https://localhost:{}{path}?query_type=test-multiply&field_type=Fp31&size=1", server.addr.port());
                        let mut b = hyper::Request::builder().method(method.clone()).uri(uri).header("content-type", "application/json");
                        if let Some(hv) = header {
                            b = b.header("x-unverified-helper-identity", hv);
                        }
                        let body = if route == "step" { vec![cert as u8 + 1, 7] } else { Vec::new() };
                        let req = b.body(Body::from(body)).unwrap();
                        let st = tokio::time::timeout(std::time::Duration::from_secs(20), live::https_client_with_cert(cert).0.request(req)).await.map(|x| x.map(|x| x.status()));
                        if known && route == "step" && matches!(st, Ok(Ok(x)) if x == StatusCode::OK) {
                            // the records must have been filed under the identity of the certificate, whatever
                            // the header claims: they can be received from that helper (and only from it)
                            use futures::StreamExt;
                            let gate = crate::protocol::Gate::from(format!("gate-cert{cert}-{}", header.unwrap_or("none")).as_str());
                            let want_from = HelperIdentity::make_three()[cert];
                            let mut got_from = None;
                            for from in HelperIdentity::make_three() {
                                let mut s = server.transport.receive(from, &(QueryId, gate.clone()));
                                if let Ok(Some(Ok(bytes))) = tokio::time::timeout(std::time::Duration::from_millis(if from == want_from { 20_000 } else { 150 }), s.next()).await {
                                    if bytes.as_ref() == [cert as u8 + 1, 7] {
                                        got_from = Some(from);
                                    }
                                }
                            }
                            r.inc("identity_observations");
                            if got_from != Some(want_from) {
                                r.violation(
                                    "auth:certificate-identity-not-used",
                                    &format!("client certificate of helper {cert}, identity header {header:?}: the step records were filed under {got_from:?}, expected {want_from:?}"),
                                    json!({"part":"auth","cert":cert,"route":route,"header":header}),
                                );
                            }
                        }
                        r.inc("evaluations");
                        r.inc("distinct_nontrivial");
                        r.inc("live_requests");
                        r.inc("live_cert_requests");
                        let st = match st {
                            Ok(Ok(s)) => s,
                            other => {
                                // a server may refuse the handshake of an unknown certificate altogether: that is a refusal too
                                if known {
                                    r.machinery(&format!("live request with certificate {cert} {route} failed: {other:?}"));
                                } else {
                                    r.set("live_outcomes", format!("https:cert{cert}:{route}:header={header:?}:connection-refused"));
                                }
                                continue;
                            }
                        };
                        r.set("live_outcomes", format!("https:cert{cert}:{route}:header={header:?}:{st}"));
                        statuses.push((header, route, st));
                        let peer_route = route != "echo";
                        let bad = if !peer_route {
                            st == StatusCode::UNAUTHORIZED
                        } else if known {
                            st == StatusCode::UNAUTHORIZED
                        } else {
                            st != StatusCode::UNAUTHORIZED
                        };
                        if bad {
                            let key = if known { "auth:known-certificate-refused" } else { "auth:unknown-certificate-accepted" };
                            r.violation(
                                &format!("{key}:{route}"),
                                &format!("TLS server, client certificate {cert} ({}), identity header {header:?}: {method} {path} answered {st}", if known { "a helper of this network" } else { "not a helper of this network" }),
                                json!({"part":"auth","cert":cert,"route":route,"header":header}),
                            );
                        }
                    }
                }
                // the header has no effect on top of a certificate
                for route in ["step", "prepare", "echo"] {
                    let per: Vec<StatusCode> = statuses.iter().filter(|x| x.1 == route).map(|x| x.2).collect();
                    if per.windows(2).any(|w| w[0] != w[1]) {
                        r.violation(&format!("auth:tls-honours-identity-header:cert:{route}"), &format!("client certificate {cert}: the answers to {route} differ with the identity header: {per:?}"), json!({"part":"auth","cert":cert,"route":route}));
                    }
                }
            }
        }
    }
}


// ---- configuration matrix ------------------------------------------------------------------------------
// Every server configuration {HTTPS disabled or not} x {TLS material present or not} x {which peers of
// the network have a certificate configured} for both server flavours, started as a second listener of
// the real server object; every kind of caller {plain HTTP, TLS without a certificate, TLS with each of
// the six test certificates} x {no identity header, identity header}. A peer route may only be served
// when (HTTPS explicitly disabled and the header present) or (TLS and the caller's certificate is the
// one configured for some peer). A server that refuses to start, or a connection that cannot be
// established, is a refusal.

async fn config_matrix<F: crate::net::ConnectionFlavor>(flavor: &'static str, base: &TestServer<F>, header_values: &[&'static str], subsets: &[u8], r: &mut Report) {
    use std::panic::AssertUnwindSafe;

    use futures::FutureExt;

    use crate::executor::IpaRuntime;
    let qid = QueryId.as_ref().to_string();
    // the six test certificates in DER form, as the clients present them
    let ders: Vec<rustls_pki_types::CertificateDer<'static>> = (0..6).map(|c| live::https_client_with_cert(c).1).collect();
    let npeers = base.server.network_config.peers.len();
    for disable_https in [false, true] {
        for tls_present in [true, false] {
            for &missing in subsets {
                let mut config = base.server.config.clone();
                config.port = None;
                config.disable_https = disable_https;
                if !tls_present {
                    config.tls = None;
                }
                if config.tls.is_none() && tls_present {
                    // the base server was built without TLS material: nothing to vary
                    continue;
                }
                let mut network_config = base.server.network_config.clone();
                for p in 0..npeers {
                    if missing & (1 << p) != 0 {
                        network_config.peers[p].certificate = None;
                    }
                }
                let configured: Vec<Option<rustls_pki_types::CertificateDer<'static>>> = network_config.peers.iter().map(|p| p.certificate.clone()).collect();
                let name = format!("{flavor}:disable_https={disable_https}:tls={}:peers-without-certificate={missing:#05b}", if tls_present { "present" } else { "absent" });
                r.inc("server_configurations");
                // direct lookup: no certificate is no identity; a certificate is the identity of the peer it is configured for
                {
                    let got = network_config.identify_cert(None);
                    r.inc("evaluations");
                    if got.is_some() {
                        r.violation(&format!("auth:config:no-certificate-identified:{flavor}"), &format!("{name}: identify_cert(None) = {got:?}"), json!({"part":"auth","arm":"config","flavor":flavor,"missing":missing}));
                    }
                    for (c, der) in ders.iter().enumerate() {
                        let want = configured.iter().position(|x| x.as_ref() == Some(der)).map(|p| network_config.identities[p]);
                        let got = network_config.identify_cert(Some(der));
                        r.inc("evaluations");
                        r.inc("distinct_nontrivial");
                        if got != want {
                            r.violation(&format!("auth:config:certificate-lookup:{flavor}"), &format!("{name}: identify_cert(test certificate {c}) = {got:?}, expected {want:?}"), json!({"part":"auth","arm":"config","flavor":flavor,"missing":missing,"cert":c}));
                        }
                    }
                }
                let server = super::super::IpaHttpServer::<F> { config, network_config, router: base.server.router.clone() };
                let started = AssertUnwindSafe(server.start_on(&IpaRuntime::current(), None, ())).catch_unwind().await;
                let Ok((addr, _handle)) = started else {
                    r.inc("configurations_refusing_to_start");
                    r.set("config_outcomes", format!("{name}:refuses-to-start"));
                    if disable_https || (tls_present && missing == 0) {
                        r.machinery(&format!("{name}: the server did not start"));
                    }
                    continue;
                };
                // callers
                #[derive(Clone, Copy, Debug)]
                enum Caller {
                    Plain,
                    TlsAnonymous,
                    TlsCert(usize),
                }
                let mut callers = vec![Caller::Plain, Caller::TlsAnonymous];
                callers.extend((0..6).map(Caller::TlsCert));
                for caller in callers {
                    for header in std::iter::once(None).chain(header_values.iter().map(|h| Some(*h))) {
                        let mut routes = vec![("step", Method::POST, format!("/query/{qid}/step/gate-cfg")), ("prepare", Method::POST, format!("/query/{qid}")), ("echo", Method::GET, "/echo".to_string())];
                        if flavor == "shard" {
                            routes.push(("complete", Method::GET, format!("/query/{qid}/complete")));
                        }
                        for (route, method, path) in routes {
                            let scheme = if matches!(caller, Caller::Plain) { "http" } else { "https" };
                            let uri = format!("{scheme}://localhost:{}{path}?query_type=test-multiply&field_type=Fp31&size=1", addr.port());
                            let mut b = hyper::Request::builder().method(method.clone()).uri(uri).header("content-type", "application/json");
                            if let Some(hv) = header {
                                b = b.header(F::identity_header(), hv);
                            }
                            let req = b.body(Body::from(Vec::new())).unwrap();
                            let t = std::time::Duration::from_secs(20);
                            let st = match caller {
                                Caller::Plain => tokio::time::timeout(t, live::http_client().request(req)).await.map(|x| x.map(|x| x.status())),
                                Caller::TlsAnonymous => tokio::time::timeout(t, live::https_client().request(req)).await.map(|x| x.map(|x| x.status())),
                                Caller::TlsCert(c) => tokio::time::timeout(t, live::https_client_with_cert(c).0.request(req)).await.map(|x| x.map(|x| x.status())),
                            };
                            r.inc("evaluations");
                            r.inc("distinct_nontrivial");
                            r.inc("config_matrix_requests");
                            let st = match st {
                                Ok(Ok(s)) => s,
                                Ok(Err(_)) => {
                                    r.inc("config_matrix_connection_refused");
                                    continue;
                                }
                                Err(_) => {
                                    r.machinery(&format!("{name}: request by {caller:?} timed out"));
                                    continue;
                                }
                            };
                            let may_be_served = match caller {
                                Caller::Plain | Caller::TlsAnonymous => disable_https && header.is_some(),
                                Caller::TlsCert(c) => (disable_https && header.is_some()) || (!disable_https && configured.iter().any(|x| x.as_ref() == Some(&ders[c]))),
                            };
                            r.set("config_outcomes", format!("{name}:{caller:?}:header={}:{route}:{st}", header.is_some()));
                            if route == "echo" {
                                if st == StatusCode::UNAUTHORIZED {
                                    r.violation(&format!("auth:config:collector-route-closed:{flavor}"), &format!("{name}, caller {caller:?}, header {header:?}: GET /echo answered 401"), json!({"part":"auth","arm":"config","flavor":flavor,"disable_https":disable_https,"tls":tls_present,"missing":missing}));
                                }
                            } else if st != StatusCode::UNAUTHORIZED && !may_be_served {
                                let why = if !disable_https && header.is_some() && !matches!(caller, Caller::TlsCert(_)) {
                                    "the identity header was honoured although HTTPS is not disabled"
                                } else if matches!(caller, Caller::TlsCert(_)) {
                                    "the certificate is not the one configured for any peer"
                                } else {
                                    "the caller carries no verified identity"
                                };
                                r.violation(
                                    &format!("auth:config:peer-route-open:{flavor}:{route}:{}", match caller { Caller::Plain => "plain", Caller::TlsAnonymous => "tls-anonymous", Caller::TlsCert(_) => "tls-unknown-certificate" }),
                                    &format!("{name}, caller {caller:?}, identity header {header:?}: {method} {path} answered {st} ({why})"),
                                    json!({"part":"auth","arm":"config","flavor":flavor,"disable_https":disable_https,"tls":tls_present,"missing":missing,"caller":format!("{caller:?}"),"header":header,"route":route}),
                                );
                            } else if st == StatusCode::UNAUTHORIZED && may_be_served && matches!(caller, Caller::TlsCert(_)) && !disable_https {
                                r.violation(&format!("auth:config:configured-certificate-refused:{flavor}:{route}"), &format!("{name}, caller {caller:?}: {method} {path} answered 401 although the certificate is configured for a peer"), json!({"part":"auth","arm":"config","flavor":flavor,"missing":missing,"caller":format!("{caller:?}"),"route":route}));
                            }
                        }
                    }
                }
            }
        }
    }
}

#[test]
fn run() {
    let mut r = Report::new("C20");
    let rt = tokio::runtime::Builder::new_multi_thread().worker_threads(2).enable_all().build().unwrap();
    let res = common::catch(std::panic::AssertUnwindSafe(|| {
        rt.block_on(async {
            route_tables(&mut r).await;
            live_matrix(&mut r).await;
            let subsets: &[u8] = if common::thorough() { &[0, 1, 2, 3, 4, 5, 6, 7] } else { &[0, 1, 4, 7] };
            let mpc: TestServer<Helper> = TestServerBuilder::<Helper>::default().with_request_handler(permissive::<HelperIdentity>()).build().await;
            config_matrix::<Helper>("mpc", &mpc, &["A", "C"], subsets, &mut r).await;
            let shard: TestServer<Shard> = TestServerBuilder::<Shard>::default().with_request_handler(permissive::<ShardIndex>()).build().await;
            config_matrix::<Shard>("shard", &shard, &["0", "1"], subsets, &mut r).await;
        })
    }));
    if let Err(p) = res {
        r.machinery(&format!("harness panicked: {p}"));
    }
    r.sample(json!({"probe":"every path of <= 5 segments over the http_serde segment alphabet x GET/POST/PUT/DELETE, with and without a ClientIdentity extension","alphabet":alphabet()}));
    r.flag("exhaustive", true);
    r.finish();
}
