// C14 / E2: OrderingSender under every interleaving of real tasks with <= k preemptions.
// (module path: crate::helpers::buffers::verif::c14_sched; config B)

use std::{
    collections::BTreeSet,
    num::NonZeroUsize,
    sync::{Arc as StdArc, Mutex as StdMutex},
};

use futures::{future::join, stream::StreamExt};
use serde_json::json;

use super::super::OrderingSender;
use crate::{
    ff::{Fp31, Fp32BitPrime, U128Conversions},
    sync::Arc,
    verif::{
        common::{self, Report},
        sched::{self, Cfg},
    },
};

#[derive(Clone, Copy, Debug)]
pub struct Driver {
    pub writers: usize,
    pub per_writer: usize,
    pub capacity: usize,
    pub read: usize,
    /// message width in bytes (1 = Fp31, 4 = Fp32BitPrime)
    pub width: usize,
}

impl Driver {
    fn name(&self) -> String {
        format!("w{}x{}-cap{}-read{}-msg{}B", self.writers, self.per_writer, self.capacity, self.read, self.width)
    }
}

fn body(d: Driver, outcomes: StdArc<StdMutex<BTreeSet<String>>>) {
    shuttle::future::block_on(async move {
        let n = d.writers * d.per_writer;
        let sender = Arc::new(OrderingSender::new(
            NonZeroUsize::new(d.capacity * d.width).unwrap(),
            NonZeroUsize::new(d.width).unwrap(),
            NonZeroUsize::new(d.read * d.width).unwrap(),
        ));
        // writers are spawned in reverse index order so that the default schedule is the
        // adversarial one (highest index arrives first)
        let mut hs = Vec::new();
        for w in (0..d.writers).rev() {
            let s = Arc::clone(&sender);
            hs.push(shuttle::future::spawn(async move {
                for j in 0..d.per_writer {
                    let i = w + j * d.writers;
                    if d.width == 1 {
                        s.send(i, Fp31::truncate_from(i as u128 + 1)).await;
                    } else {
                        s.send(i, Fp32BitPrime::truncate_from(0x0101_0101u128 * (i as u128 + 1))).await;
                    }
                }
            }));
        }
        let (_, chunks) = join(sender.close(n), futures::stream::poll_fn(|cx| sender.take_next(cx)).collect::<Vec<_>>()).await;
        for h in hs {
            h.await.unwrap();
        }
        // oracle: concatenation = messages 0..n in index order; every chunk but the last has the
        // read size; the last is the remainder
        let flat: Vec<u8> = chunks.iter().flatten().copied().collect();
        let expect: Vec<u8> = (0..n).flat_map(|i| std::iter::repeat((i + 1) as u8).take(d.width)).collect();
        assert!(flat == expect, "C14-ORACLE order: got {flat:?} expected {expect:?}");
        let lens: Vec<usize> = chunks.iter().map(Vec::len).collect();
        for (ci, l) in lens.iter().enumerate() {
            if ci + 1 < lens.len() {
                assert!(*l == d.read * d.width, "C14-ORACLE chunking: chunk {ci} of {lens:?} is not read-size");
            } else {
                assert!(*l <= d.capacity * d.width && *l > 0, "C14-ORACLE chunking: last chunk {lens:?}");
            }
        }
        assert!(sender.is_closed(), "C14-ORACLE: not closed after close()");
        outcomes.lock().unwrap().insert(format!("{lens:?}"));
    });
}

pub fn explore_driver(d: Driver, bounds: &[u32], cap_exec: u64, cap_wall_s: u64, r: &mut Report) -> bool {
    let name = d.name();
    for &k in bounds {
        let outcomes = StdArc::new(StdMutex::new(BTreeSet::new()));
        let o2 = StdArc::clone(&outcomes);
        let mut cfg = Cfg::new(k);
        cfg.max_exec = cap_exec;
        cfg.max_wall = std::time::Duration::from_secs(cap_wall_s);
        let out = sched::explore(cfg, move || body(d, StdArc::clone(&o2)));
        r.add("states", out.counted);
        r.add("transitions", out.steps);
        r.add("evaluations", out.executions);
        r.max("depth", out.max_depth as u64);
        r.max("preemptions_used", u64::from(out.max_preempt));
        r.add(&format!("schedules_{name}_k{k}"), out.counted);
        for o in outcomes.lock().unwrap().iter() {
            r.set("chunkings", format!("{name}:{o}"));
        }
        if let Some(m) = out.machinery {
            r.machinery(&format!("{name} k={k}: {m}"));
            return false;
        }
        if let Some((path, msg)) = out.failure {
            let kind = if msg.contains("deadlock") { "deadlock" } else if msg.contains("C14-ORACLE") { "oracle" } else { "panic" };
            r.violation(
                &format!("ordering-sender:{kind}:{name}"),
                &format!("k={k}: {msg}"),
                json!({"part":"sender-sched","driver":{"writers":d.writers,"per_writer":d.per_writer,"capacity":d.capacity,"read":d.read,"width":d.width},"bound":k,"schedule":path}),
            );
            return false;
        }
        if out.cap_hit || !out.complete {
            r.flag("exhaustive", false);
            r.note(format!("{name}: cap hit at k={k} after {} executions ({:.0}s); bounds below k completed", out.executions, out.wall));
            r.set("bounds_completed", format!("{name}:k<{k}"));
            return true;
        }
        r.set("bounds_completed", format!("{name}:k={k}"));
    }
    true
}

#[test]
fn run() {
    let mut r = Report::new("C14");
    if let Some(rep) = common::replay_arg() {
        let dv = &rep["driver"];
        let d = Driver {
            writers: dv["writers"].as_u64().unwrap() as usize,
            per_writer: dv["per_writer"].as_u64().unwrap() as usize,
            capacity: dv["capacity"].as_u64().unwrap() as usize,
            read: dv["read"].as_u64().unwrap() as usize,
            width: dv["width"].as_u64().unwrap() as usize,
        };
        let path: Vec<u32> = rep["schedule"].as_array().unwrap().iter().map(|v| v.as_u64().unwrap() as u32).collect();
        let outcomes = StdArc::new(StdMutex::new(BTreeSet::new()));
        let mut cfg = Cfg::new(rep["bound"].as_u64().unwrap() as u32);
        cfg.forced = Some(path.clone());
        cfg.worker = (0, 1);
        let out = sched::explore(cfg, move || body(d, StdArc::clone(&outcomes)));
        r.add("states", 1);
        r.add("transitions", out.steps);
        if let Some((_, msg)) = out.failure {
            r.violation(&format!("ordering-sender:replay:{}", d.name()), &msg, json!({"part":"sender-sched","driver":dv,"bound":rep["bound"],"schedule":path}));
        }
        r.finish();
        return;
    }
    let thorough = common::thorough();
    let mut drivers: Vec<(Driver, Vec<u32>)> = vec![
        (Driver { writers: 2, per_writer: 1, capacity: 1, read: 1, width: 1 }, vec![0, 1, 2, 3]),
        (Driver { writers: 2, per_writer: 1, capacity: 2, read: 1, width: 1 }, vec![0, 1, 2, 3]),
        (Driver { writers: 2, per_writer: 1, capacity: 2, read: 2, width: 1 }, vec![0, 1, 2, 3]),
        (Driver { writers: 2, per_writer: 2, capacity: 2, read: 1, width: 1 }, vec![0, 1, 2]),
        (Driver { writers: 3, per_writer: 1, capacity: 2, read: 2, width: 1 }, vec![0, 1]),
        (Driver { writers: 3, per_writer: 1, capacity: 1, read: 1, width: 1 }, vec![0, 1]),
        (Driver { writers: 2, per_writer: 1, capacity: 2, read: 1, width: 4 }, vec![0, 1, 2]),
    ];
    if thorough {
        drivers = vec![
            (Driver { writers: 2, per_writer: 1, capacity: 1, read: 1, width: 1 }, vec![0, 1, 2, 3, 4]),
            (Driver { writers: 2, per_writer: 1, capacity: 2, read: 1, width: 1 }, vec![0, 1, 2, 3, 4]),
            (Driver { writers: 2, per_writer: 1, capacity: 2, read: 2, width: 1 }, vec![0, 1, 2, 3, 4]),
            (Driver { writers: 2, per_writer: 2, capacity: 2, read: 1, width: 1 }, vec![0, 1, 2, 3]),
            (Driver { writers: 2, per_writer: 2, capacity: 4, read: 2, width: 1 }, vec![0, 1, 2, 3]),
            (Driver { writers: 3, per_writer: 1, capacity: 2, read: 2, width: 1 }, vec![0, 1, 2]),
            (Driver { writers: 3, per_writer: 1, capacity: 1, read: 1, width: 1 }, vec![0, 1, 2]),
            (Driver { writers: 3, per_writer: 1, capacity: 4, read: 2, width: 1 }, vec![0, 1, 2]),
            (Driver { writers: 2, per_writer: 1, capacity: 2, read: 1, width: 4 }, vec![0, 1, 2, 3]),
        ];
    }
    r.flag("exhaustive", true);
    let (cap_exec, cap_wall) = if thorough { (20_000_000, 1500) } else { (3_000_000, 240) };
    let budget = sched::Budget::new(if thorough { 3000 } else { 400 }, cap_wall);
    let mut left: usize = drivers.iter().map(|d| d.1.len()).sum();
    for (d, bounds) in drivers {
        let mut ok = true;
        for b in &bounds {
            let share = budget.share(left);
            left -= 1;
            ok = explore_driver(d, &[*b], cap_exec, share, &mut r);
            // a violation ends the run; a bound that hit its cap ends this driver
            if !ok || r.has_note_for(&d.name()) {
                break;
            }
        }
        if !ok {
            break;
        }
    }
    r.sample(json!({"driver":"2 writers x1, capacity 1, read 1","tasks":"writer1, writer0 (spawned in that order), main = close(2) || collect(stream)","oracle":"bytes == [1,2], chunk sizes, no deadlock"}));
    r.finish();
}
