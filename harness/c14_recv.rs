// C14 / E1: UnorderedReceiver — every chunking of the byte stream x every order of polling the
// woken recv(i) futures x Pending / empty-chunk deviations, on a waker-tracking executor.
// (module path: crate::helpers::buffers::verif::c14_recv; config A)

use std::{
    cell::RefCell,
    num::NonZeroUsize,
    pin::Pin,
    rc::Rc,
    task::{Context, Poll},
};

use futures::Stream;
use generic_array::GenericArray;
use serde_json::json;
use typenum::Unsigned;

use super::super::{UnorderedReceiver, UnorderedReceiverError};
use crate::{
    ff::{Fp31, Gf9Bit, Gf20Bit, Serializable, U128Conversions},
    verif::{
        common::{self, Report},
        explore::{self, Choices, MiniExec},
    },
};

struct EnvStream {
    bytes: Vec<u8>,
    pos: usize,
    cx: *mut Choices,
    chunks: Rc<RefCell<Vec<usize>>>,
}
// the harness is single-threaded; the receiver only requires `Send` for its real callers
unsafe impl Send for EnvStream {}

impl Stream for EnvStream {
    type Item = Vec<u8>;
    fn poll_next(mut self: Pin<&mut Self>, task: &mut Context<'_>) -> Poll<Option<Vec<u8>>> {
        let cx = unsafe { &mut *self.cx };
        if self.pos >= self.bytes.len() {
            return Poll::Ready(None);
        }
        match cx.deviate(3) {
            1 => {
                // data has not arrived yet; it arrives (and wakes the registered task) later
                task.waker().wake_by_ref();
                self.chunks.borrow_mut().push(usize::MAX);
                Poll::Pending
            }
            2 => {
                self.chunks.borrow_mut().push(0);
                Poll::Ready(Some(Vec::new()))
            }
            _ => {
                let remaining = self.bytes.len() - self.pos;
                let len = 1 + cx.choose(remaining);
                let c = self.bytes[self.pos..self.pos + len].to_vec();
                self.pos += len;
                self.chunks.borrow_mut().push(len);
                Poll::Ready(Some(c))
            }
        }
    }
}

#[derive(Clone, Copy, Debug)]
pub struct RecvCfg {
    pub msgs: usize,
    pub size: usize,
    pub capacity: usize,
    pub trailing: usize,
    pub bound: u32,
    /// index of a message whose bytes are not a valid encoding (1-byte messages: 31 is not an Fp31)
    pub bad: Option<usize>,
}

fn one<M>(c: RecvCfg, cx: &mut Choices, obs: &mut Obs) -> Result<(), String>
where
    M: crate::helpers::Message + U128Conversions + PartialEq + std::fmt::Debug,
{
    let sz = <M as Serializable>::Size::USIZE;
    let mut bytes = Vec::new();
    for i in 0..c.msgs {
        let mut b = GenericArray::<u8, <M as Serializable>::Size>::default();
        M::truncate_from((i + 1) as u128).serialize(&mut b);
        if c.bad == Some(i) {
            b.iter_mut().for_each(|x| *x = 0xff);
        }
        bytes.extend_from_slice(&b);
    }
    bytes.extend(std::iter::repeat(1u8).take(c.trailing));
    let chunks = Rc::new(RefCell::new(Vec::new()));
    let stream = EnvStream { bytes, pos: 0, cx: cx as *mut Choices, chunks: Rc::clone(&chunks) };
    let rx = UnorderedReceiver::new(Box::pin(stream), NonZeroUsize::new(c.capacity).unwrap());
    let results: Rc<RefCell<Vec<Option<Result<M, String>>>>> = Rc::new(RefCell::new((0..c.msgs).map(|_| None).collect()));
    let order = Rc::new(RefCell::new(Vec::new()));
    let mut ex = MiniExec::new();
    for i in 0..c.msgs {
        let rx = rx.clone();
        let res = Rc::clone(&results);
        ex.spawn(async move {
            let v = rx.recv::<M, _>(i).await;
            res.borrow_mut()[i] = Some(v.map_err(|e| format!("{e:?}")));
        });
    }
    loop {
        let w = ex.woken();
        if w.is_empty() {
            if ex.all_done() {
                break;
            }
            return Err(format!(
                "lost wake-up: recv futures {:?} are pending, none is woken, stream chunks so far {:?}",
                ex.unfinished(),
                chunks.borrow()
            ));
        }
        // deviation: a spurious poll of a pending, not-woken request (executors may do that)
        let idle = ex.idle();
        if !idle.is_empty() {
            let d = cx.deviate(1 + idle.len());
            if d > 0 {
                ex.poll(idle[d - 1]);
                continue;
            }
        }
        let pick = w[cx.choose(w.len())];
        order.borrow_mut().push(pick);
        ex.poll(pick);
        if ex.polls > 10_000 {
            return Err("livelock: more than 10000 polls".into());
        }
    }
    for i in 0..c.msgs {
        match results.borrow()[i].as_ref() {
            // the undecodable message fails the request for its own index and no other
            Some(Err(e)) if c.bad == Some(i) && e.contains("DeserializeFailed") => {}
            Some(Ok(v)) if c.bad != Some(i) && *v == M::truncate_from((i + 1) as u128) => {}
            other => return Err(format!("recv({i}) returned {other:?}, expected message {}; chunks {:?}", i + 1, chunks.borrow())),
        }
    }
    // the stream holds no further complete message
    let mut ex2 = MiniExec::new();
    let end: Rc<RefCell<Option<Result<M, UnorderedReceiverError>>>> = Rc::new(RefCell::new(None));
    let e2 = Rc::clone(&end);
    let rx2 = rx.clone();
    let m = c.msgs;
    let id = ex2.spawn(async move {
        *e2.borrow_mut() = Some(rx2.recv::<M, _>(m).await);
    });
    let mut guard = 0;
    while !ex2.is_done(id) {
        if ex2.woken().is_empty() {
            return Err(format!("lost wake-up: recv({m}) past the end of the stream never completes"));
        }
        ex2.poll(id);
        guard += 1;
        if guard > 1000 {
            return Err("livelock at end of stream".into());
        }
    }
    match end.borrow().as_ref() {
        Some(Err(UnorderedReceiverError::EndOfStream(_))) => {}
        other => return Err(format!("recv({m}) past the end returned {:?}, expected EndOfStream", other.as_ref().map(|r| r.as_ref().map_err(ToString::to_string)))),
    }
    obs.first_polls.insert(order.borrow().iter().take(c.msgs).map(|v| v.to_string()).collect::<Vec<_>>().join(","));
    obs.chunkings.insert(format!("{:?}", chunks.borrow()));
    let _ = sz;
    Ok(())
}

#[derive(Default)]
pub struct Obs {
    first_polls: std::collections::BTreeSet<String>,
    chunkings: std::collections::BTreeSet<String>,
}

fn run_cfg(c: RecvCfg, cx: &mut Choices, obs: &mut Obs) -> Result<(), String> {
    match c.size {
        1 => one::<Fp31>(c, cx, obs),
        2 => one::<Gf9Bit>(c, cx, obs),
        _ => one::<Gf20Bit>(c, cx, obs),
    }
}

fn cfg_json(c: RecvCfg) -> serde_json::Value {
    json!({"msgs":c.msgs,"size":c.size,"capacity":c.capacity,"trailing":c.trailing,"bound":c.bound,"bad":c.bad})
}

#[test]
fn run() {
    let mut r = Report::new("C14");
    if let Some(rep) = common::replay_arg() {
        let v = &rep["config"];
        let c = RecvCfg {
            msgs: v["msgs"].as_u64().unwrap() as usize,
            size: v["size"].as_u64().unwrap() as usize,
            capacity: v["capacity"].as_u64().unwrap() as usize,
            trailing: v["trailing"].as_u64().unwrap() as usize,
            bound: v["bound"].as_u64().unwrap() as u32,
            bad: v["bad"].as_u64().map(|x| x as usize),
        };
        let trace: Vec<u32> = rep["choices"].as_array().unwrap().iter().map(|x| x.as_u64().unwrap() as u32).collect();
        let mut obs = Obs::default();
        r.add("states", 1);
        r.add("transitions", trace.len() as u64);
        if let Err(e) = explore::replay(&trace, |cx| run_cfg(c, cx, &mut obs)) {
            r.violation("unordered-receiver:replay", &e, rep.clone());
        }
        r.finish();
        return;
    }
    let thorough = common::thorough();
    let mut cfgs = Vec::new();
    // (msgs, size, capacity): msgs*size bounded so that all compositions x poll orders stay tractable
    let grid: &[(usize, usize, usize, u32)] = if thorough {
        &[(1, 1, 2, 3), (2, 1, 2, 3), (3, 1, 2, 3), (4, 1, 2, 3), (5, 1, 2, 2), (5, 1, 4, 2), (6, 1, 4, 2), (6, 1, 5, 1), (7, 1, 4, 1), (8, 1, 4, 0),
          (1, 2, 2, 3), (2, 2, 2, 3), (3, 2, 2, 3), (4, 2, 2, 2), (4, 2, 3, 2), (5, 2, 4, 1), (6, 2, 4, 0),
          (1, 3, 2, 3), (2, 3, 2, 3), (3, 3, 2, 2), (3, 3, 3, 2), (4, 3, 2, 1), (4, 3, 4, 1)]
    } else {
        &[(1, 1, 2, 2), (2, 1, 2, 2), (3, 1, 2, 2), (4, 1, 2, 2), (5, 1, 2, 1), (5, 1, 4, 1), (6, 1, 4, 1), (6, 1, 5, 0), (7, 1, 4, 0),
          (1, 2, 2, 2), (2, 2, 2, 2), (3, 2, 2, 2), (4, 2, 2, 1), (4, 2, 3, 1), (5, 2, 4, 0),
          (1, 3, 2, 2), (2, 3, 2, 2), (3, 3, 2, 1), (3, 3, 3, 1), (4, 3, 2, 0)]
    };
    for &(msgs, size, capacity, bound) in grid {
        cfgs.push(RecvCfg { msgs, size, capacity, trailing: 0, bound, bad: None });
        if size > 1 && msgs <= 3 {
            cfgs.push(RecvCfg { msgs, size, capacity, trailing: size - 1, bound: bound.min(1), bad: None });
        }
    }
    // one undecodable message at every position of short streams
    for msgs in 2..=if thorough { 5 } else { 4 } {
        for bad in 0..msgs {
            cfgs.push(RecvCfg { msgs, size: 1, capacity: 2, trailing: 0, bound: if msgs <= 3 { 2 } else { 1 }, bad: Some(bad) });
        }
    }
    r.flag("exhaustive", true);
    let cap = if thorough { 30_000_000 } else { 4_000_000 };
    let results = common::par_map(cfgs.len(), common::ncpu(), |i| {
        let c = cfgs[i];
        let mut obs = Obs::default();
        let st = explore::explore(c.bound, cap, |cx| run_cfg(c, cx, &mut obs));
        (c, st, obs)
    });
    for (c, st, obs) in results {
        r.add("states", st.executions);
        r.add("evaluations", st.executions);
        r.add("transitions", st.choice_points);
        r.max("depth", st.max_depth as u64);
        r.max("distinct_first_poll_orders", obs.first_polls.len() as u64);
        r.max("distinct_chunkings", obs.chunkings.len() as u64);
        if c.msgs == 3 && c.size == 2 && c.trailing == 0 {
            for o in obs.first_polls.iter().take(8) {
                r.set("poll_orders", o.clone());
            }
            r.sample(json!({"config":cfg_json(c),"executions":st.executions,"distinct_chunkings":obs.chunkings.len(),"longest_choice_sequence":st.longest}));
        }
        if let Some(m) = st.machinery {
            r.machinery(&format!("recv {c:?}: {m}"));
        }
        if c.bad.is_some() {
            r.inc("undecodable_message_configs");
        }
        if let Some((trace, e)) = st.failure {
            let kind = if e.contains("lost wake-up") { "lost-wakeup" } else if e.contains("panic") { "panic" } else { "wrong-message" };
            r.violation(&format!("unordered-receiver:{kind}:m{}-s{}-c{}", c.msgs, c.size, c.capacity), &e, json!({"part":"receiver","config":cfg_json(c),"choices":trace}));
        } else if !st.complete {
            r.flag("exhaustive", false);
            r.note(format!("receiver {c:?}: execution cap hit after {}", st.executions));
        }
    }
    r.finish();
}

// ---- C13: a transport error in the middle of a records stream ------------------------------------------
// The MPC receive path is `transport stream -> LogErrors -> UnorderedReceiver`. A chunk that arrives as
// an error ends the stream there: records wholly contained in the bytes before it are delivered to
// their requests, every later request fails or stays parked - none is handed bytes that were sent for
// another record.
// Every chunking of k messages x every position of the error item (further chunks follow it).

#[test]
fn run_log_errors() {
    use futures::FutureExt;
    let mut r = Report::new("C13");
    let thorough = common::thorough();
    fn one<M>(k: usize, r: &mut Report)
    where
        M: crate::helpers::Message + U128Conversions + PartialEq + std::fmt::Debug,
    {
        let sz = <M as Serializable>::Size::USIZE;
        let mut bytes = Vec::new();
        for i in 0..k {
            let mut b = GenericArray::<u8, <M as Serializable>::Size>::default();
            M::truncate_from((i + 1) as u128).serialize(&mut b);
            bytes.extend_from_slice(&b);
        }
        let n = bytes.len();
        // every composition of n bytes into chunks
        for cuts in 0u32..(1 << (n - 1)) {
            let mut chunks: Vec<Vec<u8>> = Vec::new();
            let mut cur = vec![bytes[0]];
            for i in 1..n {
                if cuts & (1 << (i - 1)) != 0 {
                    chunks.push(std::mem::take(&mut cur));
                }
                cur.push(bytes[i]);
            }
            chunks.push(cur);
            for p in 0..=chunks.len() {
                let mut items: Vec<Result<Vec<u8>, crate::error::BoxError>> = Vec::new();
                for (i, c) in chunks.iter().enumerate() {
                    if i == p {
                        items.push(Err("connection reset".into()));
                    }
                    items.push(Ok(c.clone()));
                }
                if p == chunks.len() {
                    items.push(Err("connection reset".into()));
                }
                let good: usize = chunks[..p].iter().map(Vec::len).sum();
                let stream = crate::helpers::LogErrors::new(futures::stream::iter(items));
                let rx = UnorderedReceiver::new(Box::pin(stream), NonZeroUsize::new(4).unwrap());
                r.inc("evaluations");
                r.inc("distinct_nontrivial");
                r.inc("lost_chunk_cases");
                r.inc("states");
                r.add("transitions", k as u64);
                for i in 0..k {
                    let got = rx.recv::<M, _>(i).now_or_never();
                    let whole = (i + 1) * sz <= good;
                    let bad = match (&got, whole) {
                        (Some(Ok(v)), true) => *v != M::truncate_from((i + 1) as u128),
                        (Some(Ok(_)), false) => true,
                        (Some(Err(_)), false) => false,
                        (Some(Err(_)), true) => true,
                        // a request behind a failed one stays parked (its predecessor never took its
                        // turn); what it must never get is a message
                        (None, false) => false,
                        (None, true) => true,
                    };
                    if bad {
                        r.violation(
                            &format!("gateway:lost-chunk:{}B", sz),
                            &format!("{k} messages of {sz} bytes in chunks {:?}, a transport error in front of chunk {p} ({good} bytes arrived before it): receive({i}) returned {:?}, expected {}", chunks.iter().map(Vec::len).collect::<Vec<_>>(), got.as_ref().map(|x| x.as_ref().map_err(|e| format!("{e:?}"))), if whole { format!("message {}", i + 1) } else { "an error (the stream ended at the failed chunk)".to_string() }),
                            json!({"part":"lost-chunk","k":k,"size":sz,"cuts":cuts,"error_before_chunk":p}),
                        );
                        return;
                    }
                }
            }
        }
    }
    for k in 1..=if thorough { 6 } else { 5 } {
        one::<Fp31>(k, &mut r);
    }
    for k in 1..=if thorough { 4 } else { 3 } {
        one::<Gf20Bit>(k, &mut r);
    }
    for k in 1..=if thorough { 5 } else { 4 } {
        one::<Gf9Bit>(k, &mut r);
    }
    r.sample(json!({"messages":3,"size":3,"chunks":[4,1,4],"error_before_chunk":1,"oracle":"receive(0) = message 1, receive(1) and receive(2) fail"}));
    r.flag("exhaustive", true);
    r.finish();
}
