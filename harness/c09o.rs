// C09 (values produced by operations): "encode(x) decodes to x" must hold for every value of a type,
// including the ones its own operators and constructors return - not only for values obtained by
// decoding. For every fallible bit-array / field type: constants, every value of the domain (or a
// boundary alphabet), and the results of Not / Neg / Add / Sub / Mul on them are encoded; the bytes
// must be accepted by the type's own decoder and decode to the same value, and equal values must
// have equal bytes. (module path: crate::verif::c09o; config A)

use generic_array::GenericArray;
use serde_json::json;

use super::common::{self, Report};
use crate::{
    ff::{
        Fp31, Fp32BitPrime, Fp61BitPrime, Gf3Bit, Gf9Bit, Gf20Bit, PrimeField, Serializable, U128Conversions,
        boolean::Boolean,
        boolean_array::{BA3, BA4, BA5, BA6, BA7, BA20},
    },
    secret_sharing::SharedValue,
};

fn ser<F: Serializable>(v: &F) -> Vec<u8> {
    let mut buf = GenericArray::<u8, F::Size>::default();
    v.serialize(&mut buf);
    buf.to_vec()
}

fn de<F: Serializable>(b: &[u8]) -> Result<F, String> {
    let mut buf = GenericArray::<u8, F::Size>::default();
    buf.copy_from_slice(b);
    F::deserialize(&buf).map_err(|e| e.to_string())
}

struct Tally {
    cases: u64,
    first: Option<(String, String)>,
    bad: u64,
}

fn canon<T: Serializable + PartialEq + std::fmt::Debug + U128Conversions>(t: &mut Tally, op: &str, v: &T) {
    t.cases += 1;
    let bytes = ser(v);
    let fail = match common::catch(|| de::<T>(&bytes)) {
        Ok(Ok(back)) if back == *v => {
            // equal values serialise identically: the canonical bytes are those of the value rebuilt from its integer
            let again = ser(&T::truncate_from(v.as_u128()));
            (again != bytes).then(|| format!("{op} = {v:?} is encoded as {bytes:?}, an equal value as {again:?}"))
        }
        Ok(Ok(back)) => Some(format!("{op} = {v:?} is encoded as {bytes:?}, which decodes to {back:?}")),
        Ok(Err(e)) => Some(format!("{op} = {v:?} is encoded as {bytes:?}, which the type's own decoder rejects ({e})")),
        Err(p) => Some(format!("{op} = {v:?}: decoding its encoding {bytes:?} panicked: {p}")),
    };
    if let Some(f) = fail {
        t.bad += 1;
        t.first.get_or_insert((op.split('(').next().unwrap_or(op).to_string(), f));
    }
}

fn ops<T>(name: &str, values: &[u128], with_not: bool, r: &mut Report)
where
    T: SharedValue + Serializable + PartialEq + std::fmt::Debug + U128Conversions + std::ops::Mul<Output = T>,
{
    let mut t = Tally { cases: 0, first: None, bad: 0 };
    canon(&mut t, "ZERO", &T::ZERO);
    for &a in values {
        let x = T::truncate_from(a);
        canon(&mut t, &format!("truncate_from({a})"), &x);
        canon(&mut t, &format!("neg({a})"), &(-x));
        for &b in values {
            let y = T::truncate_from(b);
            canon(&mut t, &format!("add({a},{b})"), &(x + y));
            canon(&mut t, &format!("sub({a},{b})"), &(x - y));
            canon(&mut t, &format!("mul({a},{b})"), &(x * y));
        }
    }
    let _ = with_not;
    finish(name, t, r);
}

fn finish(name: &str, t: Tally, r: &mut Report) {
    finish_as("op-encoding", name, t, r);
}

fn finish_as(prefix: &str, name: &str, t: Tally, r: &mut Report) {
    r.add("evaluations", t.cases);
    r.add("distinct_nontrivial", t.cases);
    r.add("op_result_encodings", t.cases);
    r.set("op_types", name.to_string());
    if let Some((op, what)) = t.first {
        r.violation(&format!("{prefix}:{name}:{op}"), &format!("{what} ({} failing cases)", t.bad), json!({"part":"ops","type":name,"op":op}));
    }
}

fn nots<T>(name: &str, values: &[u128], r: &mut Report)
where
    T: SharedValue + Serializable + PartialEq + std::fmt::Debug + U128Conversions + std::ops::Not<Output = T>,
{
    let mut t = Tally { cases: 0, first: None, bad: 0 };
    for &a in values {
        let x = T::truncate_from(a);
        canon(&mut t, &format!("not({a})"), &(!x));
        canon(&mut t, &format!("not(not({a}))"), &(!!x));
        canon(&mut t, &format!("add(not({a}),{a})"), &(!x + x));
    }
    finish(name, t, r);
}

fn alphabet(order: u128) -> Vec<u128> {
    if order <= 512 {
        return (0..order).collect();
    }
    let mut v = vec![0, 1, 2, 3, order - 1, order - 2, order / 2, order / 2 + 1];
    let mut k = 1u128;
    while k < order {
        v.push(k);
        v.push(k - 1);
        k <<= 1;
    }
    v.sort_unstable();
    v.dedup();
    v.retain(|x| *x < order);
    v
}

/// constructors from integers above the order must still give a canonical element
fn ctor<T>(prefix: &str, name: &str, order: u128, prime: bool, r: &mut Report)
where
    T: Serializable + PartialEq + std::fmt::Debug + U128Conversions + TryFrom<u128>,
{
    let mut t = Tally { cases: 0, first: None, bad: 0 };
    let mut ins: Vec<u128> = vec![order, order + 1, 2 * order - 1, 2 * order, 2 * order + 1, u128::MAX, u128::MAX - 1, u128::MAX / 2, u128::MAX / 2 + 1];
    for k in 0..128u32 {
        for d in [0u128, 1] {
            ins.push((1u128 << k).wrapping_sub(d));
            ins.push((1u128 << k).wrapping_add(d));
            // all-ones low part under a high bit (the case a two-round Mersenne fold does not finish)
            ins.push((1u128 << k) | (order - 1));
            ins.push((1u128 << k) | (order.wrapping_sub(2 + d)));
            ins.push(u128::MAX - ((1u128 << k) - 1) + (order - 1 - d).min((1u128 << k) - 1));
        }
    }
    for j in 0..64u128 {
        ins.push(u128::MAX - j);
        ins.push(u128::MAX - j * order);
    }
    ins.sort_unstable();
    ins.dedup();
    for v in ins {
        let x = T::truncate_from(v);
        let got = x.as_u128();
        t.cases += 1;
        let want = if prime { v % order } else { v & (order - 1) };
        if got >= order || got != want {
            t.bad += 1;
            t.first.get_or_insert(("truncate_from".to_string(), format!("truncate_from({v:#x}) holds {got:#x}, the canonical element is {want:#x} (order {order:#x})")));
        }
        canon(&mut t, &format!("truncate_from({v:#x})"), &x);
        // the checked constructor may refuse integers that do not fit, but whatever it returns is the
        // canonical element congruent to its argument, and integers below the order are accepted as is
        t.cases += 1;
        match T::try_from(v) {
            Ok(y) if y.as_u128() == want => canon(&mut t, &format!("try_from({v:#x})"), &y),
            Ok(y) => {
                t.bad += 1;
                t.first.get_or_insert(("try_from".to_string(), format!("try_from({v:#x}) returned Ok({y:?}), the canonical element is {want:#x} (order {order:#x})")));
            }
            Err(_) if v < order => {
                t.bad += 1;
                t.first.get_or_insert(("try_from".to_string(), format!("try_from({v:#x}) is rejected although it is below the order {order:#x}")));
            }
            Err(_) => {}
        }
    }
    for v in [0u128, 1, order / 2, order - 2, order - 1] {
        t.cases += 1;
        if T::try_from(v).ok().map(|y| y.as_u128()) != Some(v) {
            t.bad += 1;
            t.first.get_or_insert(("try_from".to_string(), format!("try_from({v:#x}) does not return the element {v:#x}")));
        }
    }
    finish_as(prefix, name, t, r);
}

/// C08: constructing a field element from any integer yields the canonical element
/// construction from a byte slice: every slice of 0..=ceil(bits/8)+1 bytes over the byte alphabet
/// {0x00, 0x01, 0x80, 0xff} (<= 3 bytes exhaustively over it, longer ones all-equal): the constructor
/// may refuse the slice, but what it returns is a canonical element - it survives its own encoding,
/// and equals the element rebuilt from its integer value
fn from_slice<T>(name: &str, bits: u32, r: &mut Report)
where
    T: Serializable + PartialEq + std::fmt::Debug + U128Conversions + for<'a> TryFrom<&'a [u8]>,
{
    let mut t = Tally { cases: 0, first: None, bad: 0 };
    let full = bits.div_ceil(8) as usize;
    let alphabet = [0x00u8, 0x01, 0x80, 0xff];
    let mut slices: Vec<Vec<u8>> = vec![Vec::new()];
    for len in 1..=full + 1 {
        if len <= 3 {
            let mut cur: Vec<Vec<u8>> = vec![Vec::new()];
            for _ in 0..len {
                cur = cur.into_iter().flat_map(|c| alphabet.iter().map(move |b| { let mut c = c.clone(); c.push(*b); c })).collect();
            }
            slices.extend(cur);
        } else {
            for b in alphabet {
                slices.push(vec![b; len]);
                let mut v = vec![0u8; len];
                v[len - 1] = b;
                slices.push(v);
            }
        }
    }
    for sl in slices {
        t.cases += 1;
        match common::catch(|| T::try_from(sl.as_slice()).ok()) {
            Ok(Some(x)) => {
                let v = x.as_u128();
                if bits < 128 && v >> bits != 0 {
                    t.bad += 1;
                    t.first.get_or_insert(("from-slice".to_string(), format!("try_from({sl:02x?}) returned the element {v:#x}, which has bits set beyond the {bits} bits of the type")));
                }
                if x != T::truncate_from(v) {
                    t.bad += 1;
                    t.first.get_or_insert(("from-slice".to_string(), format!("try_from({sl:02x?}) returned {x:?}, which differs from the element rebuilt from its own integer value {v:#x}")));
                }
                canon(&mut t, &format!("try_from({sl:02x?})"), &x);
            }
            Ok(None) => {}
            Err(p) => {
                t.bad += 1;
                t.first.get_or_insert(("from-slice".to_string(), format!("try_from({sl:02x?}) panicked: {p}")));
            }
        }
    }
    r.add("evaluations", t.cases);
    r.add("distinct_nontrivial", t.cases);
    r.add("from_slice_cases", t.cases);
    if let Some((op, what)) = t.first {
        r.violation(&format!("ctor-canonical:{name}:{op}"), &format!("{what} ({} failing cases)", t.bad), json!({"part":"fields","type":name,"op":"from-slice"}));
    }
}

pub fn run_field_ctors(r: &mut Report) {
    from_slice::<crate::ff::Gf2>("Gf2", 1, r);
    from_slice::<Gf3Bit>("Gf3Bit", 3, r);
    from_slice::<Gf9Bit>("Gf9Bit", 9, r);
    from_slice::<Gf20Bit>("Gf20Bit", 20, r);
    from_slice::<crate::ff::Gf8Bit>("Gf8Bit", 8, r);
    from_slice::<crate::ff::Gf32Bit>("Gf32Bit", 32, r);
    from_slice::<crate::ff::Gf40Bit>("Gf40Bit", 40, r);
    ctor::<Fp31>("ctor-canonical", "Fp31", 31, true, r);
    ctor::<Fp32BitPrime>("ctor-canonical", "Fp32BitPrime", u128::from(Fp32BitPrime::PRIME), true, r);
    ctor::<Fp61BitPrime>("ctor-canonical", "Fp61BitPrime", u128::from(Fp61BitPrime::PRIME), true, r);
    ctor::<Gf20Bit>("ctor-canonical", "Gf20Bit", 1 << 20, false, r);
    ctor::<Gf9Bit>("ctor-canonical", "Gf9Bit", 512, false, r);
    ctor::<Gf3Bit>("ctor-canonical", "Gf3Bit", 8, false, r);
    ctor::<Boolean>("ctor-canonical", "Boolean", 2, false, r);
}

pub fn run_ops(r: &mut Report) {
    ops::<BA3>("BA3", &alphabet(8), true, r);
    ops::<BA4>("BA4", &alphabet(16), true, r);
    ops::<BA5>("BA5", &alphabet(32), true, r);
    ops::<BA6>("BA6", &alphabet(64), true, r);
    ops::<BA7>("BA7", &alphabet(128), true, r);
    ops::<BA20>("BA20", &alphabet(1 << 20), true, r);
    ops::<Boolean>("Boolean", &alphabet(2), true, r);
    ops::<Gf3Bit>("Gf3Bit", &alphabet(8), false, r);
    ops::<Gf9Bit>("Gf9Bit", &alphabet(512), false, r);
    ops::<Gf20Bit>("Gf20Bit", &alphabet(1 << 20), false, r);
    ops::<Fp31>("Fp31", &alphabet(31), false, r);
    ops::<Fp32BitPrime>("Fp32BitPrime", &alphabet(u128::from(Fp32BitPrime::PRIME)), false, r);
    ops::<Fp61BitPrime>("Fp61BitPrime", &alphabet(u128::from(Fp61BitPrime::PRIME)), false, r);
    nots::<BA3>("BA3", &alphabet(8), r);
    nots::<BA4>("BA4", &alphabet(16), r);
    nots::<BA5>("BA5", &alphabet(32), r);
    nots::<BA6>("BA6", &alphabet(64), r);
    nots::<BA7>("BA7", &alphabet(128), r);
    nots::<BA20>("BA20", &alphabet(1 << 20), r);
    nots::<Boolean>("Boolean", &alphabet(2), r);
    ctor::<BA3>("op-encoding", "BA3", 8, false, r);
    ctor::<BA5>("op-encoding", "BA5", 32, false, r);
    ctor::<BA7>("op-encoding", "BA7", 128, false, r);
    ctor::<BA20>("op-encoding", "BA20", 1 << 20, false, r);
}

#[test]
fn run() {
    let mut r = Report::new("C09");
    run_ops(&mut r);
    r.sample(json!({"type":"BA3","ops":"ZERO, truncate_from, neg, add, sub, mul, not over all 8 values","oracle":"decode(encode(v)) == v and equal values have equal bytes"}));
    r.flag("exhaustive", true);
    r.finish();
}
