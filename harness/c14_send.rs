// C14 / E1: OrderingSender on a single thread — every order of polling the woken Send futures,
// the Close future and the stream consumer, with spurious re-polls (fresh waker) as deviations.
// (module path: crate::helpers::buffers::verif::c14_send; config A)

use std::{cell::RefCell, num::NonZeroUsize, rc::Rc, task::Poll};

use serde_json::json;

use super::super::OrderingSender;
use crate::{
    ff::{Fp31, U128Conversions},
    verif::{
        common::{self, Report},
        explore::{self, Choices, MiniExec},
    },
};

#[derive(Clone, Copy, Debug)]
pub struct SendCfg {
    pub n: usize,
    pub capacity: usize,
    pub read: usize,
    pub bound: u32,
}

fn run_one(c: SendCfg, cx: &mut Choices, orders: &mut std::collections::BTreeSet<String>) -> Result<(), String> {
    let sender = OrderingSender::new(
        NonZeroUsize::new(c.capacity).unwrap(),
        NonZeroUsize::new(1).unwrap(),
        NonZeroUsize::new(c.read).unwrap(),
    );
    let chunks: Rc<RefCell<Vec<Vec<u8>>>> = Rc::new(RefCell::new(Vec::new()));
    let mut ex = MiniExec::new();
    // spawn in reverse order: the highest index is (by default) polled first
    let s = &sender;
    for i in (0..c.n).rev() {
        ex.spawn(async move {
            s.send(i, Fp31::truncate_from(i as u128 + 1)).await;
        });
    }
    ex.spawn(async move {
        s.close(c.n).await;
    });
    let ch = Rc::clone(&chunks);
    ex.spawn(futures::future::poll_fn(move |task| loop {
        match s.take_next(task) {
            Poll::Ready(Some(v)) => ch.borrow_mut().push(v),
            Poll::Ready(None) => return Poll::Ready(()),
            Poll::Pending => return Poll::Pending,
        }
    }));
    let mut order = Vec::new();
    loop {
        let w = ex.woken();
        if w.is_empty() {
            if ex.all_done() {
                break;
            }
            return Err(format!("lost wake-up: tasks {:?} pending (0..n-1 = send n-1..0, n = close, n+1 = stream), none woken; poll order {order:?}", ex.unfinished()));
        }
        let idle = ex.idle();
        if !idle.is_empty() {
            let d = cx.deviate(1 + idle.len());
            if d > 0 {
                order.push(100 + idle[d - 1]);
                ex.poll(idle[d - 1]);
                continue;
            }
        }
        let pick = w[cx.choose(w.len())];
        order.push(pick);
        ex.poll(pick);
        if ex.polls > 5000 {
            return Err("livelock".into());
        }
    }
    let flat: Vec<u8> = chunks.borrow().iter().flatten().copied().collect();
    let expect: Vec<u8> = (1..=c.n as u8).collect();
    if flat != expect {
        return Err(format!("stream bytes {flat:?} != messages in index order {expect:?}"));
    }
    let lens: Vec<usize> = chunks.borrow().iter().map(Vec::len).collect();
    for (i, l) in lens.iter().enumerate() {
        if i + 1 < lens.len() && *l != c.read {
            return Err(format!("chunk sizes {lens:?}: a chunk before the last is not the read size {}", c.read));
        }
        if *l == 0 || *l > c.capacity {
            return Err(format!("chunk sizes {lens:?}"));
        }
    }
    if !sender.is_closed() {
        return Err("sender not closed".into());
    }
    orders.insert(format!("{:?}", &order[..order.len().min(6)]));
    Ok(())
}

fn cfg_json(c: SendCfg) -> serde_json::Value {
    json!({"n":c.n,"capacity":c.capacity,"read":c.read,"bound":c.bound})
}

#[test]
fn run() {
    let mut r = Report::new("C14");
    if let Some(rep) = common::replay_arg() {
        let v = &rep["config"];
        let c = SendCfg { n: v["n"].as_u64().unwrap() as usize, capacity: v["capacity"].as_u64().unwrap() as usize, read: v["read"].as_u64().unwrap() as usize, bound: 9 };
        let trace: Vec<u32> = rep["choices"].as_array().unwrap().iter().map(|x| x.as_u64().unwrap() as u32).collect();
        let mut o = Default::default();
        r.add("states", 1);
        r.add("transitions", trace.len() as u64);
        if let Err(e) = explore::replay(&trace, |cx| run_one(c, cx, &mut o)) {
            r.violation("ordering-sender-e1:replay", &e, rep.clone());
        }
        r.finish();
        return;
    }
    let thorough = common::thorough();
    let mut cfgs = Vec::new();
    let max_n = if thorough { 6 } else { 5 };
    for n in 1..=max_n {
        for (capacity, read) in [(1, 1), (2, 1), (2, 2), (3, 1), (4, 2), (4, 4)] {
            let bound = if n <= 3 { 2 } else if n <= 4 { 1 } else { 0 };
            let bound = if thorough { bound + 1 } else { bound };
            cfgs.push(SendCfg { n, capacity, read, bound });
        }
    }
    r.flag("exhaustive", true);
    let cap = if thorough { 40_000_000 } else { 4_000_000 };
    let results = common::par_map(cfgs.len(), common::ncpu(), |i| {
        let mut orders = std::collections::BTreeSet::new();
        let st = explore::explore(cfgs[i].bound, cap, |cx| run_one(cfgs[i], cx, &mut orders));
        (st, orders)
    });
    for (i, (st, orders)) in results.into_iter().enumerate() {
        let c = cfgs[i];
        r.add("states", st.executions);
        r.add("evaluations", st.executions);
        r.add("transitions", st.choice_points);
        r.max("distinct_poll_order_prefixes", orders.len() as u64);
        if c.n == 3 && c.capacity == 2 && c.read == 1 {
            r.sample(json!({"config":cfg_json(c),"executions":st.executions,"longest_choice_sequence":st.longest}));
        }
        if let Some(m) = st.machinery {
            r.machinery(&format!("{c:?}: {m}"));
        }
        if let Some((trace, e)) = st.failure {
            let kind = if e.contains("lost wake-up") { "lost-wakeup" } else if e.contains("panic") { "panic" } else { "order" };
            r.violation(&format!("ordering-sender-e1:{kind}:n{}-cap{}-read{}", c.n, c.capacity, c.read), &e, json!({"part":"sender-e1","config":cfg_json(c),"choices":trace}));
        } else if !st.complete {
            r.flag("exhaustive", false);
            r.note(format!("{c:?}: cap hit after {} executions", st.executions));
        }
    }
    r.finish();
}
