// C12 / E6+E5: noise and dummy-record law. Truncation point against an independent evaluation
// of the documented tail condition; the sampler's law by exhaustive weighted exploration of its
// coin tree (scripted RngCore); sample -> share mapping for every support point and output
// width; parameter constructors on a cross product of per-parameter alphabets.
// (module path: crate::protocol::dp::verif::c12; hook H4; config A)

use std::{cell::RefCell, collections::BTreeMap, rc::Rc};

use rand::distributions::Distribution;
use rand_core::{CryptoRng, RngCore};
use serde_json::json;

use super::super::{NoiseParams, ShiftedTruncatedDiscreteLaplace};
use crate::{
    ff::{
        U128Conversions,
        boolean_array::{BA8, BA16, BA32, BooleanArray},
    },
    helpers::Direction,
    protocol::ipa_prf::oprf_padding::{distributions::TruncatedDoubleGeometric, insecure::OPRFPaddingDp},
    secret_sharing::{SharedValue, replicated::ReplicatedSecretSharing},
    verif::{
        common::{self, Report},
        explore::{self, Choices},
    },
};

// ---- 1. truncation point ---------------------------------------------------------------------

/// documented tail mass of the `delta_big` outermost values on one side for truncation point n:
/// sum_{k=n-D+1}^{n} A r^k,  A = (1-r)/(1+r-2r^{n+1}),  r = e^{-eps}; evaluated in closed form
/// (geometric sum) in log space — independent of the code's term-by-term loop and `pow_u32`.
fn tail(n: u32, d: u32, eps: f64) -> f64 {
    let r = (-eps).exp();
    let ln_r = -eps;
    // r^{n-D+1} (1 - r^D) / (1 - r)
    let first = (f64::from(n - d + 1) * ln_r).exp();
    let geo = first * (-(f64::from(d) * ln_r).exp_m1()) / (-ln_r.exp_m1());
    let a = (1.0 - r) / (1.0 + r - 2.0 * (f64::from(n + 1) * ln_r).exp());
    a * geo
}

fn truncation(r: &mut Report) {
    let eps_grid = [0.01, 0.05, 0.1, 0.5, 1.0, 2.0, 5.0, 10.0, 20.0];
    let delta_grid = [1e-12, 1e-10, 1e-8, 1e-6, 1e-4, 1e-2];
    let sens_grid = [1u32, 2, 3, 10, 100, 1000];
    let mut cases = Vec::new();
    for &e in &eps_grid {
        for &dl in &delta_grid {
            for &s in &sens_grid {
                // keep the search short enough: n grows like ln(1/delta)/eps + sensitivity
                if (1.0f64 / dl).ln() / e + f64::from(s) < 40_000.0 {
                    cases.push((e, dl, s));
                }
            }
        }
    }
    let res = common::par_map(cases.len(), common::ncpu(), |i| {
        let (e, dl, s) = cases[i];
        let n = common::catch(|| OPRFPaddingDp::new(e, dl, s).map(|d| d.get_shift()));
        (cases[i], n)
    });
    let mut bad = Vec::new();
    let mut indeterminate = 0u64;
    let mut at_sens = 0u64;
    for ((e, dl, s), n) in res {
        r.inc("evaluations");
        let n = match n {
            Ok(Ok(n)) => n,
            other => {
                bad.push(format!("OPRFPaddingDp::new({e},{dl},{s}) failed: {other:?}"));
                continue;
            }
        };
        let band = |v: f64| (v - dl).abs() <= 1e-9 * dl;
        let t = tail(n, s, e);
        if n < s {
            bad.push(format!("eps={e} delta={dl} sensitivity={s}: n={n} is below the sensitivity"));
            continue;
        }
        if n == s {
            at_sens += 1;
        }
        if band(t) || (n > s && band(tail(n - 1, s, e))) {
            indeterminate += 1;
            continue;
        }
        if t > dl {
            bad.push(format!("eps={e} delta={dl} sensitivity={s}: n={n} has tail mass {t:e} > delta"));
        } else if n > s && tail(n - 1, s, e) <= dl {
            bad.push(format!("eps={e} delta={dl} sensitivity={s}: n={n} is not minimal, n-1 has tail mass {:e} <= delta", tail(n - 1, s, e)));
        }
    }
    r.add("distinct_nontrivial", cases.len() as u64);
    r.add("truncation_points_checked", cases.len() as u64);
    r.add("truncation_indeterminate", indeterminate);
    r.add("truncation_n_equals_sensitivity", at_sens);
    if let Some(f) = bad.first() {
        r.violation("dp:truncation-point", &format!("{f} ({} configurations)", bad.len()), json!({"part":"noise"}));
    }
}

// ---- 2. sampler law by coin-tree exploration -----------------------------------------------------

struct ScriptRng {
    cx: *mut Choices,
    /// probability of the path so far
    mass: Rc<RefCell<f64>>,
    p: f64,
    successes: u32,
    floor: f64,
    truncated: Rc<RefCell<bool>>,
}

impl RngCore for ScriptRng {
    fn next_u32(&mut self) -> u32 {
        self.next_u64() as u32
    }
    fn next_u64(&mut self) -> u64 {
        if self.successes >= 2 {
            // the sampler rejected its candidate and starts over: independent restart
            panic!("C12-RESTART");
        }
        let cx = unsafe { &mut *self.cx };
        let mut m = self.mass.borrow_mut();
        let fail = if *m * (1.0 - self.p) < self.floor {
            *self.truncated.borrow_mut() = true;
            false
        } else {
            cx.choose(2) == 1
        };
        if fail {
            *m *= 1.0 - self.p;
            u64::MAX
        } else {
            *m *= self.p;
            self.successes += 1;
            0
        }
    }
    fn fill_bytes(&mut self, dest: &mut [u8]) {
        for b in dest {
            *b = self.next_u64() as u8;
        }
    }
    fn try_fill_bytes(&mut self, dest: &mut [u8]) -> Result<(), rand_core::Error> {
        self.fill_bytes(dest);
        Ok(())
    }
}
impl CryptoRng for ScriptRng {}

fn sampler_law(eps: f64, n: u32, r: &mut Report) {
    let dist = TruncatedDoubleGeometric::new(1.0 / eps, n).unwrap();
    let p = 1.0 - (-eps).exp();
    let mut acc: BTreeMap<u32, f64> = BTreeMap::new();
    let mut rejected = 0.0f64;
    let mut residual = 0.0f64;
    let st = explore::explore(0, 50_000_000, |cx| {
        let mass = Rc::new(RefCell::new(1.0f64));
        let truncated = Rc::new(RefCell::new(false));
        let mut rng = ScriptRng { cx: cx as *mut Choices, mass: Rc::clone(&mass), p, successes: 0, floor: 1e-16, truncated: Rc::clone(&truncated) };
        let out = common::catch(|| dist.sample(&mut rng));
        let m = *mass.borrow();
        if *truncated.borrow() {
            residual += m;
            return Ok(());
        }
        match out {
            Ok(x) => *acc.entry(x).or_insert(0.0) += m,
            Err(e) if e.contains("C12-RESTART") => rejected += m,
            Err(e) => return Err(format!("sampler panicked: {e}")),
        }
        Ok(())
    });
    r.add("states", st.executions);
    r.add("evaluations", st.executions);
    r.add("transitions", st.choice_points);
    r.add("distinct_nontrivial", acc.len() as u64);
    let accepted: f64 = acc.values().sum();
    let mut bad = Vec::new();
    if let Some((_, e)) = st.failure {
        bad.push(e);
    }
    if !st.complete {
        bad.push("coin tree not exhausted".into());
    }
    if residual > 1e-10 {
        bad.push(format!("unexplored mass {residual:e}"));
    }
    let rr = (-eps).exp();
    let a = (1.0 - rr) / (1.0 + rr - 2.0 * rr.powi((n + 1) as i32));
    for x in 0..=2 * n {
        let got = acc.get(&x).copied().unwrap_or(0.0) / accepted;
        let want = a * (-eps * f64::from(x.abs_diff(n))).exp();
        if (got - want).abs() > 1e-9 {
            bad.push(format!("P[x={x}] = {got:.12} but the documented law gives {want:.12}"));
        }
    }
    if let Some(x) = acc.keys().find(|x| **x > 2 * n) {
        bad.push(format!("value {x} outside the support 0..{}", 2 * n));
    }
    r.set("sampler_configs", format!("eps={eps},n={n}:paths={}:accepted_mass={accepted:.6}:rejected_mass={rejected:.6}", st.executions));
    if let Some(f) = bad.first() {
        r.violation(&format!("dp:sampler-law:eps{eps}-n{n}"), &format!("{f} ({} deviations)", bad.len()), json!({"part":"noise"}));
    }
}

// ---- 3. sample -> share mapping ------------------------------------------------------------------

struct ForcedRng {
    script: Vec<u64>,
    pos: usize,
}
impl RngCore for ForcedRng {
    fn next_u32(&mut self) -> u32 {
        self.next_u64() as u32
    }
    fn next_u64(&mut self) -> u64 {
        let v = self.script.get(self.pos).copied().unwrap_or_else(|| panic!("C12-RESTART"));
        self.pos += 1;
        v
    }
    fn fill_bytes(&mut self, dest: &mut [u8]) {
        for b in dest {
            *b = self.next_u64() as u8;
        }
    }
    fn try_fill_bytes(&mut self, dest: &mut [u8]) -> Result<(), rand_core::Error> {
        self.fill_bytes(dest);
        Ok(())
    }
}
impl CryptoRng for ForcedRng {}

fn forced(x: u32, n: u32) -> ForcedRng {
    let a1 = x.saturating_sub(n);
    let a2 = n.saturating_sub(x);
    let mut s = vec![u64::MAX; a1 as usize];
    s.push(0);
    s.extend(vec![u64::MAX; a2 as usize]);
    s.push(0);
    ForcedRng { script: s, pos: 0 }
}

fn share_mapping<OV: BooleanArray + U128Conversions>(width: u32, r: &mut Report) {
    let mut bad = Vec::new();
    let mut n_cases = 0u64;
    for (eps, cap) in [(5.0, 1u32), (5.0, 2), (1.0, 1), (5.0, 8), (2.0, 4)] {
        let params = NoiseParams { epsilon: eps, per_user_credit_cap: cap, ..NoiseParams::default() };
        let d = match ShiftedTruncatedDiscreteLaplace::new(&params, width) {
            Ok(d) => d,
            Err(e) => {
                bad.push(format!("constructor failed for eps={eps} cap={cap}: {e:?}"));
                continue;
            }
        };
        let n = d.shift;
        for x in 0..=2 * n {
            for dir in [Direction::Left, Direction::Right] {
                n_cases += 1;
                let mut rng = forced(x, n);
                let share = match common::catch(|| d.sample_shares::<_, OV>(&mut rng, dir)) {
                    Ok(s) => s,
                    Err(p) => {
                        bad.push(format!("x={x} n={n}: {p}"));
                        continue;
                    }
                };
                let (l, rt) = (share.left(), share.right());
                let (value, zero) = if dir == Direction::Left { (rt, l) } else { (l, rt) };
                let modulus = 1u128 << width;
                let want = ((i128::from(x) - i128::from(n)).rem_euclid(modulus as i128)) as u128;
                if zero != OV::ZERO {
                    bad.push(format!("x={x} n={n} {dir:?}: the share facing the excluded helper is not zero"));
                }
                if value.as_u128() != want {
                    bad.push(format!(
                        "width {width}: sample x={x} (noise {}) with n={n} is shared as {} instead of {want} = noise mod 2^{width}",
                        i64::from(x) - i64::from(n),
                        value.as_u128()
                    ));
                }
            }
        }
    }
    r.add("evaluations", n_cases);
    r.add("distinct_nontrivial", n_cases);
    r.add(&format!("share_mapping_cases_w{width}"), n_cases);
    if let Some(f) = bad.first() {
        let key = if bad.iter().all(|b| b.contains("(noise -1)")) { format!("dp:share-mapping:w{width}:minus-one") } else { format!("dp:share-mapping:w{width}") };
        r.violation(&key, &format!("{f} ({} cases)", bad.len()), json!({"part":"noise"}));
    }
}

// ---- 4. constructors ---------------------------------------------------------------------------

fn constructors(r: &mut Report) {
    // NoiseParams::new — documented: epsilon > 0, delta > 0, 0 <= success_prob <= 1, the rest > 0
    let pos = [-1.0f64, 0.0, f64::MIN_POSITIVE, 1e-6, 1.0, 5.0, 1e9];
    let probs = [-0.1f64, 0.0, 0.5, 1.0, 1.1];
    let mut bad = Vec::new();
    let mut n = 0u64;
    for &eps in &pos {
        for &delta in &pos {
            for &sp in &probs {
                for &other in &[-1.0f64, 0.0, 1.0] {
                    for which in 0..5 {
                        n += 1;
                        let mut o = [1.0f64; 5];
                        o[which] = other;
                        let got = NoiseParams::new(eps, delta, 1, sp, o[0], o[1], o[2], o[3], o[4]).is_ok();
                        let want = eps > 0.0 && delta > 0.0 && (0.0..=1.0).contains(&sp) && o.iter().all(|v| *v > 0.0);
                        if got != want {
                            let what = if delta > 0.0 && !got && eps > 0.0 && (0.0..=1.0).contains(&sp) && o.iter().all(|v| *v > 0.0) {
                                "delta-positive-rejected"
                            } else if delta == 0.0 && got {
                                "delta-zero-accepted"
                            } else {
                                "other"
                            };
                            bad.push((what, format!("NoiseParams::new(eps={eps:e}, delta={delta:e}, success_prob={sp}, others={o:?}) accepted={got}, documented range says {want}")));
                        }
                    }
                }
            }
        }
    }
    r.add("evaluations", n);
    r.add("distinct_nontrivial", n);
    r.add("constructor_cases", n);
    let mut by: BTreeMap<&str, Vec<String>> = BTreeMap::new();
    for (k, w) in bad {
        by.entry(k).or_default().push(w);
    }
    for (k, ws) in by {
        r.violation(&format!("dp:noiseparams-new:{k}"), &format!("{} ({} cases)", ws[0], ws.len()), json!({"part":"noise"}));
    }
    // OPRFPaddingDp::new — documented: epsilon >= MIN_POSITIVE, MIN_POSITIVE <= delta < 1, sensitivity <= 1e6
    let mut bad = Vec::new();
    let mut n = 0u64;
    for &eps in &[-1.0f64, 0.0, f64::MIN_POSITIVE / 2.0, 0.5, 1.0, 10.0] {
        for &delta in &[-1.0f64, 0.0, 1e-9, 1e-3, 0.5, 1.5] {
            for &s in &[0u32, 1, 3, 1_000_000, 1_000_001, u32::MAX] {
                // skip combinations whose search for n would not terminate in reasonable time
                if eps > 0.0 && eps < 0.5 {
                    continue;
                }
                if s == 1_000_000 && eps >= f64::MIN_POSITIVE && (f64::MIN_POSITIVE..1.0).contains(&delta) {
                    continue; // valid, but the search for n from 10^6 takes minutes
                }
                n += 1;
                let want = eps >= f64::MIN_POSITIVE && (f64::MIN_POSITIVE..1.0).contains(&delta) && s <= 1_000_000;
                let got = common::catch(|| OPRFPaddingDp::new(eps, delta, s).is_ok());
                match got {
                    Ok(g) if g == want => {}
                    other => bad.push(format!("OPRFPaddingDp::new({eps},{delta},{s}) -> {other:?}, documented range says {want}")),
                }
            }
        }
    }
    r.add("evaluations", n);
    r.add("distinct_nontrivial", n);
    if let Some(f) = bad.first() {
        r.violation("dp:oprfpaddingdp-new", &format!("{f} ({} cases)", bad.len()), json!({"part":"noise"}));
    }
}

#[test]
fn run() {
    let mut r = Report::new("C12");
    truncation(&mut r);
    let grid: &[(f64, u32)] = if common::thorough() {
        &[(0.5, 1), (0.5, 2), (0.5, 3), (0.5, 10), (1.0, 1), (1.0, 2), (1.0, 3), (1.0, 10), (5.0, 1), (5.0, 2), (5.0, 3), (5.0, 10), (0.2, 5), (2.0, 25)]
    } else {
        &[(0.5, 1), (0.5, 3), (1.0, 1), (1.0, 2), (1.0, 10), (5.0, 1), (5.0, 3), (2.0, 25)]
    };
    for &(eps, n) in grid {
        sampler_law(eps, n, &mut r);
    }
    share_mapping::<BA8>(8, &mut r);
    share_mapping::<BA16>(16, &mut r);
    share_mapping::<BA32>(32, &mut r);
    constructors(&mut r);
    r.sample(json!({"sampler":"TruncatedDoubleGeometric(1/eps, n)","explored":"every sequence of Bernoulli outcomes until path mass < 1e-16","law":"A*exp(-eps*|x-n|) on 0..2n"}));
    r.sample(json!({"share_mapping":"every x in 0..=2n forced through a scripted RNG, widths 8/16/32, both directions"}));
    r.flag("exhaustive", true);
    r.finish();
}
