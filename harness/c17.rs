// C17 / E1: byte-stream parsers under every chunking of the input (and Pending / empty-chunk /
// transport-error deviations) against a reference parse of the whole buffer.
// (module path: crate::verif::c17; config A)

use std::{
    num::NonZeroUsize,
    pin::Pin,
    task::{Context, Poll, Waker},
};

use bytes::Bytes;
use futures::Stream;
use generic_array::GenericArray;
use serde_json::json;
use typenum::Unsigned;

use super::{
    common::{self, Report},
    explore::{self, Choices},
};
use crate::{
    error::BoxError,
    ff::{
        Fp31, Fp32BitPrime, Gf9Bit, Serializable,
        boolean_array::{BA8, BA20, BA64},
    },
    helpers::{BufferedBytesStream, LengthDelimitedStream, RecordsStream, SingleRecordStream},
};

struct EnvStream {
    bytes: Vec<u8>,
    pos: usize,
    cx: *mut Choices,
    /// log of what the transport delivered: chunk lengths, usize::MAX = Pending, usize::MAX-1 = Err
    log: Vec<usize>,
    errored: bool,
    max_chunk: usize,
}
unsafe impl Send for EnvStream {}

impl Stream for EnvStream {
    type Item = Result<Bytes, BoxError>;
    fn poll_next(mut self: Pin<&mut Self>, task: &mut Context<'_>) -> Poll<Option<Self::Item>> {
        let cx = unsafe { &mut *self.cx };
        let resume = RESUME.with(std::cell::Cell::get);
        if self.errored && !resume {
            return Poll::Ready(None);
        }
        // deviations are offered at every poll, also at the end of the data; in resume mode the
        // transport reports one recoverable error and then goes on delivering the remaining bytes
        match cx.deviate(if self.errored { 3 } else { 4 }) {
            1 => {
                task.waker().wake_by_ref();
                self.log.push(usize::MAX);
                return Poll::Pending;
            }
            2 => {
                self.log.push(0);
                return Poll::Ready(Some(Ok(Bytes::new())));
            }
            3 => {
                self.errored = true;
                INJECTED.with(|c| c.set(true));
                self.log.push(usize::MAX - 1);
                return Poll::Ready(Some(Err("transport failure".into())));
            }
            _ => {}
        }
        if self.pos >= self.bytes.len() {
            return Poll::Ready(None);
        }
        let remaining = (self.bytes.len() - self.pos).min(self.max_chunk);
        let len = 1 + cx.choose(remaining);
        let c = Bytes::copy_from_slice(&self.bytes[self.pos..self.pos + len]);
        self.pos += len;
        self.log.push(len);
        Poll::Ready(Some(Ok(c)))
    }
}

/// the transport as the parsers see it: the scripted environment directly, or behind the body
/// wrapper every real request body goes through
struct Src(Pin<Box<dyn Stream<Item = Result<Bytes, BoxError>> + Send>>);
impl Src {
    fn new(env: EnvStream, via_body: bool) -> Self {
        if via_body { Src(Box::pin(crate::helpers::BodyStream::from_bytes_stream(env))) } else { Src(Box::pin(env)) }
    }
}
impl Stream for Src {
    type Item = Result<Bytes, BoxError>;
    fn poll_next(mut self: Pin<&mut Self>, task: &mut Context<'_>) -> Poll<Option<Self::Item>> {
        self.0.as_mut().poll_next(task)
    }
}

/// Polls a stream to its end or to its first error item (consumers stop there; the parsers keep
/// repeating a trailing-data error when polled again, which the `Stream` contract allows); a
/// `Pending` is answered by polling again.
fn drain<S, A, E>(s: &mut S) -> Result<Vec<Result<A, E>>, String>
where
    S: Stream<Item = Result<A, E>> + Unpin,
{
    let waker = Waker::noop();
    let mut cx = Context::from_waker(&waker);
    let mut out = Vec::new();
    for _ in 0..10_000 {
        match Pin::new(&mut *s).poll_next(&mut cx) {
            Poll::Ready(Some(v)) => {
                let stop = v.is_err();
                out.push(v);
                // resume mode: a consumer that keeps reading after the first error item (stops at the second)
                if stop && (!RESUME.with(std::cell::Cell::get) || out.iter().filter(|x| x.is_err()).count() >= 2) {
                    return Ok(out);
                }
            }
            Poll::Ready(None) => return Ok(out),
            Poll::Pending => {}
        }
    }
    Err("parser did not finish within 10000 polls".into())
}

#[derive(Clone, Debug, PartialEq)]
enum Item {
    Rec(Vec<u8>),
    Err,
}

/// Reference for fixed-size records: all complete records in order; a record that does not
/// decode, or trailing partial data, is an error at that position.
fn reference_fixed<T: Serializable>(buf: &[u8]) -> Vec<Item> {
    let s = T::Size::USIZE;
    let mut out = Vec::new();
    for c in buf.chunks(s) {
        if c.len() < s {
            out.push(Item::Err);
            return out;
        }
        match T::deserialize(GenericArray::from_slice(c)) {
            Ok(_) => out.push(Item::Rec(c.to_vec())),
            Err(_) => {
                out.push(Item::Err);
                return out;
            }
        }
    }
    out
}

fn reference_ld(buf: &[u8]) -> Vec<Item> {
    let mut out = Vec::new();
    let mut p = 0;
    while p < buf.len() {
        if p + 2 > buf.len() {
            out.push(Item::Err);
            return out;
        }
        let len = u16::from_le_bytes([buf[p], buf[p + 1]]) as usize;
        p += 2;
        if p + len > buf.len() {
            out.push(Item::Err);
            return out;
        }
        let rec = &buf[p..p + len];
        p += len;
        if rec.first() == Some(&0xEE) {
            out.push(Item::Err);
            return out;
        }
        out.push(Item::Rec(rec.to_vec()));
    }
    out
}

/// The oracle. `strict_prefix`: records yielded before an error must be exactly the records before
/// the error position (Single mode, trailing data); otherwise any prefix of them is accepted
/// (Batch / length-delimited discard the batch in which a record failed to decode).
fn judge(got: &[Item], reference: &[Item], transport_err: bool, decode_err_strict: bool) -> Result<(), String> {
    if RESUME.with(std::cell::Cell::get) && transport_err {
        // the consumer read on after a recoverable transport error: whatever records come out (before
        // or after the error items) must still be the records encoded in the bytes, in order, none
        // duplicated or altered; completeness is not demanded, a panic is reported by the explorer
        // (bytes that hold an undecodable or partial record: what a consumer sees after reading past
        // that second kind of error is not specified, only the absence of a panic is checked there)
        if reference.last() == Some(&Item::Err) {
            return Ok(());
        }
        let ref_recs: Vec<&Item> = reference.iter().filter(|i| matches!(i, Item::Rec(_))).collect();
        let got_recs: Vec<&Item> = got.iter().filter(|i| matches!(i, Item::Rec(_))).collect();
        if got_recs.len() > ref_recs.len() || got_recs.iter().zip(&ref_recs).any(|(a, b)| a != b) {
            return Err(format!("reading on after a transport error: records {got:?} are not a prefix of the records encoded in the bytes {reference:?}"));
        }
        if !got.contains(&Item::Err) {
            return Err(format!("a transport error was swallowed: output {got:?} has no error item"));
        }
        return Ok(());
    }
    let ref_recs: Vec<&Item> = reference.iter().filter(|i| matches!(i, Item::Rec(_))).collect();
    let ref_err = reference.last() == Some(&Item::Err);
    let got_recs: Vec<&Item> = got.iter().take_while(|i| matches!(i, Item::Rec(_))).collect();
    let got_err = got.get(got_recs.len()) == Some(&Item::Err);
    // nothing may follow the first error except more errors (we stop reading there anyway)
    if got_recs.len() > ref_recs.len() || got_recs.iter().zip(&ref_recs).any(|(a, b)| a != b) {
        return Err(format!("records {got:?} are not a prefix of the records encoded in the bytes {reference:?}"));
    }
    if transport_err {
        if !got_err {
            return Err(format!("a transport error was swallowed: output {got:?} ends without an error"));
        }
        return Ok(());
    }
    if ref_err {
        if !got_err {
            return Err(format!("undecodable / trailing data not reported: got {got:?}, reference {reference:?}"));
        }
        if decode_err_strict && got_recs.len() != ref_recs.len() {
            return Err(format!("error reported at record {} but the bytes hold {} good records first: {got:?}", got_recs.len(), ref_recs.len()));
        }
    } else {
        if got_err {
            return Err(format!("spurious error: got {got:?}, reference {reference:?}"));
        }
        if got_recs.len() != ref_recs.len() {
            return Err(format!("records lost: got {got:?}, reference {reference:?}"));
        }
    }
    Ok(())
}

fn ser<T: Serializable>(v: &T) -> Vec<u8> {
    let mut b = GenericArray::<u8, T::Size>::default();
    v.serialize(&mut b);
    b.to_vec()
}

#[derive(Clone, Copy, Debug, PartialEq)]
pub enum Parser {
    Batch,
    Single,
    LengthDelimited,
    Buffered(usize),
}

struct Raw(Bytes);
impl TryFrom<Bytes> for Raw {
    type Error = BoxError;
    fn try_from(b: Bytes) -> Result<Self, BoxError> {
        if b.first() == Some(&0xEE) { Err("bad record".into()) } else { Ok(Raw(b)) }
    }
}

fn run_fixed<T: Serializable>(parser: Parser, buf: &[u8], cx: &mut Choices, max_chunk: usize, via_body: bool) -> Result<(), String> {
    let env = Src::new(EnvStream { bytes: buf.to_vec(), pos: 0, cx: cx as *mut Choices, log: Vec::new(), errored: false, max_chunk }, via_body);
    let reference = reference_fixed::<T>(buf);
    let (got, terr, log) = match parser {
        Parser::Batch => {
            let mut s = RecordsStream::<T, _>::new(env);
            let items = drain(&mut s)?;
            let mut got = Vec::new();
            for it in items {
                match it {
                    Ok(v) => {
                        if v.is_empty() {
                            return Err("Batch mode yielded an empty batch".into());
                        }
                        got.extend(v.iter().map(|r| Item::Rec(ser(r))));
                    }
                    Err(_) => got.push(Item::Err),
                }
            }
            (got, false, Vec::<usize>::new())
        }
        _ => {
            let mut s = SingleRecordStream::<T, _>::new(env);
            let items = drain(&mut s)?;
            let got = items.into_iter().map(|it| it.map_or(Item::Err, |r| Item::Rec(ser(&r)))).collect();
            (got, false, Vec::new())
        }
    };
    let _ = (terr, log);
    // whether a transport error was injected is visible from the choice trace: alternative 3 of a
    // deviation point. The explorer tells us through `cx.trace()` — cheaper: re-derive from output.
    let injected = cx_injected_error(cx);
    judge(&got, &reference, injected, parser == Parser::Single)
}

thread_local! {
    static RESUME: std::cell::Cell<bool> = const { std::cell::Cell::new(false) };
    static INJECTED: std::cell::Cell<bool> = const { std::cell::Cell::new(false) };
}

fn cx_injected_error(_cx: &Choices) -> bool {
    INJECTED.with(std::cell::Cell::get)
}

fn run_ld(buf: &[u8], cx: &mut Choices, max_chunk: usize, via_body: bool) -> Result<(), String> {
    let env = Src::new(EnvStream { bytes: buf.to_vec(), pos: 0, cx: cx as *mut Choices, log: Vec::new(), errored: false, max_chunk }, via_body);
    let mut s = LengthDelimitedStream::<Raw, _>::new(env);
    let items = drain(&mut s)?;
    let mut got = Vec::new();
    for it in items {
        match it {
            Ok(v) => {
                if v.is_empty() {
                    return Err("LengthDelimitedStream yielded an empty batch".into());
                }
                got.extend(v.into_iter().map(|r| Item::Rec(r.0.to_vec())));
            }
            Err(_) => got.push(Item::Err),
        }
    }
    judge(&got, &reference_ld(buf), cx_injected_error(cx), false)
}

fn run_buffered(sz: usize, buf: &[u8], cx: &mut Choices, max_chunk: usize, via_body: bool) -> Result<(), String> {
    let env = Src::new(EnvStream { bytes: buf.to_vec(), pos: 0, cx: cx as *mut Choices, log: Vec::new(), errored: false, max_chunk }, via_body);
    let mut s = BufferedBytesStream::new(env, NonZeroUsize::new(sz).unwrap());
    let items = drain(&mut s)?;
    let mut flat = Vec::new();
    let mut lens = Vec::new();
    let mut err = false;
    for it in items {
        match it {
            Ok(b) => {
                if err {
                    return Err("data after an error".into());
                }
                lens.push(b.len());
                flat.extend_from_slice(&b);
            }
            Err(_) => err = true,
        }
    }
    let injected = cx_injected_error(cx);
    if injected != err {
        return Err(format!("transport error injected={injected} but output error={err}"));
    }
    if !buf.starts_with(&flat) {
        return Err(format!("output bytes {flat:?} are not a prefix of the input {buf:?}"));
    }
    if !err && flat != buf {
        return Err(format!("bytes lost: {flat:?} vs {buf:?}"));
    }
    for (i, l) in lens.iter().enumerate() {
        let last = i + 1 == lens.len();
        if (*l != sz && !(last && !err && *l < sz)) || *l == 0 {
            return Err(format!("chunk sizes {lens:?} for buffer size {sz} (only the final chunk may be short)"));
        }
    }
    Ok(())
}

#[derive(Clone, Debug)]
pub struct Case {
    pub parser: Parser,
    pub ty: &'static str,
    pub bytes: Vec<u8>,
    pub bound: u32,
    pub max_chunk: usize,
    /// the environment sits behind `BodyStream` (as every real request body does)
    pub via_body: bool,
    /// the transport error is recoverable (the stream goes on) and the consumer keeps reading after it
    pub resume: bool,
}

pub fn run_case(c: &Case, cx: &mut Choices) -> Result<(), String> {
    INJECTED.with(|f| f.set(false));
    RESUME.with(|f| f.set(c.resume));
    match (c.parser, c.ty) {
        (Parser::LengthDelimited, _) => run_ld(&c.bytes, cx, c.max_chunk, c.via_body),
        (Parser::Buffered(sz), _) => run_buffered(sz, &c.bytes, cx, c.max_chunk, c.via_body),
        (p, "BA8") => run_fixed::<BA8>(p, &c.bytes, cx, c.max_chunk, c.via_body),
        (p, "Fp31") => run_fixed::<Fp31>(p, &c.bytes, cx, c.max_chunk, c.via_body),
        (p, "Gf9Bit") => run_fixed::<Gf9Bit>(p, &c.bytes, cx, c.max_chunk, c.via_body),
        (p, "BA20") => run_fixed::<BA20>(p, &c.bytes, cx, c.max_chunk, c.via_body),
        (p, "Fp32BitPrime") => run_fixed::<Fp32BitPrime>(p, &c.bytes, cx, c.max_chunk, c.via_body),
        (p, _) => run_fixed::<BA64>(p, &c.bytes, cx, c.max_chunk, c.via_body),
    }
}

fn fixed_streams(ty: &'static str, size: usize, bad: Option<Vec<u8>>, max_bytes: usize) -> Vec<Vec<u8>> {
    let good = |i: usize| -> Vec<u8> {
        // valid for every type used here: low values in every byte
        (0..size).map(|b| if b == 0 { (i as u8 % 13) + 1 } else { 0 }).collect()
    };
    let mut out = Vec::new();
    for k in 0..=(max_bytes / size) {
        for tail in 0..size {
            if k * size + tail > max_bytes {
                continue;
            }
            let mut v: Vec<u8> = (0..k).flat_map(good).collect();
            v.extend(std::iter::repeat(1u8).take(tail));
            out.push(v.clone());
            if let (Some(bad), true) = (&bad, tail == 0) {
                for pos in 0..k {
                    let mut w = v.clone();
                    w[pos * size..(pos + 1) * size].copy_from_slice(bad);
                    out.push(w);
                }
            }
        }
    }
    let _ = ty;
    out
}

fn ld_streams(max_bytes: usize) -> Vec<Vec<u8>> {
    // every sequence of record lengths from {0,1,2,3,5} that fits, plus every truncation of it,
    // plus a bad record at each position
    let mut out = Vec::new();
    let lens = [0usize, 1, 2, 3, 5];
    fn rec(out: &mut Vec<Vec<u8>>, cur: Vec<usize>, lens: &[usize], max: usize) {
        let total: usize = cur.iter().map(|l| l + 2).sum();
        let mut buf = Vec::new();
        for (i, l) in cur.iter().enumerate() {
            buf.extend_from_slice(&(*l as u16).to_le_bytes());
            buf.extend((0..*l).map(|b| (i * 16 + b + 1) as u8));
        }
        out.push(buf.clone());
        if let Some(last) = cur.last() {
            // truncations inside the last record (incl. inside its length prefix)
            for cut in 1..(last + 2) {
                out.push(buf[..buf.len() - cut].to_vec());
            }
            for (i, l) in cur.iter().enumerate() {
                if *l > 0 {
                    let mut w = buf.clone();
                    let off: usize = cur[..i].iter().map(|l| l + 2).sum::<usize>() + 2;
                    w[off] = 0xEE;
                    out.push(w);
                }
            }
        }
        for l in lens {
            if total + l + 2 <= max {
                let mut n = cur.clone();
                n.push(*l);
                rec(out, n, lens, max);
            }
        }
    }
    rec(&mut out, Vec::new(), &lens, max_bytes);
    out.sort();
    out.dedup();
    out
}

#[test]
fn run() {
    let mut r = Report::new("C17");
    if let Some(rep) = common::replay_arg() {
        let v = &rep["case"];
        let parser = match v["parser"].as_str().unwrap() {
            "Batch" => Parser::Batch,
            "Single" => Parser::Single,
            "LengthDelimited" => Parser::LengthDelimited,
            s => Parser::Buffered(s.trim_start_matches("Buffered").parse().unwrap_or(2)),
        };
        let ty: &'static str = match v["ty"].as_str().unwrap() {
            "BA8" => "BA8", "Fp31" => "Fp31", "Gf9Bit" => "Gf9Bit", "BA20" => "BA20", "Fp32BitPrime" => "Fp32BitPrime", _ => "BA64",
        };
        let c = Case { parser, ty, bytes: v["bytes"].as_array().unwrap().iter().map(|b| b.as_u64().unwrap() as u8).collect(), bound: 9, max_chunk: v["max_chunk"].as_u64().unwrap_or(64) as usize, via_body: v["via_body"].as_bool().unwrap_or(false), resume: v["resume"].as_bool().unwrap_or(false) };
        let trace: Vec<u32> = rep["choices"].as_array().unwrap().iter().map(|x| x.as_u64().unwrap() as u32).collect();
        r.add("states", 1);
        r.add("transitions", trace.len() as u64);
        if let Err(e) = explore::replay(&trace, |cx| run_case(&c, cx)) {
            r.violation("parser:replay", &e, rep.clone());
        }
        r.finish();
        return;
    }
    let thorough = common::thorough();
    let max_bytes = if thorough { 14 } else { 10 };
    let mut cases: Vec<Case> = Vec::new();
    let types: [(&'static str, usize, Option<Vec<u8>>); 6] = [
        ("BA8", 1, None),
        ("Fp31", 1, Some(vec![31])),
        ("Gf9Bit", 2, Some(vec![1, 2])),
        ("BA20", 3, Some(vec![1, 0, 0x10])),
        ("Fp32BitPrime", 4, Some(vec![0xFB, 0xFF, 0xFF, 0xFF])),
        ("BA64", 8, None),
    ];
    for (ty, size, bad) in &types {
        for bytes in fixed_streams(ty, *size, bad.clone(), if *size == 8 { max_bytes.max(17) } else { max_bytes }) {
            for parser in [Parser::Batch, Parser::Single] {
                let n = bytes.len();
                let bound = if n <= 6 { 2 } else if n <= 10 { 1 } else { 0 };
                let bound = if thorough { bound + u32::from(n <= 10) } else { bound };
                // long buffers: restrict chunk length so that the tree stays tractable
                let max_chunk = if n > 14 { 9 } else { 64 };
                cases.push(Case { parser, ty, bytes: bytes.clone(), bound, max_chunk, via_body: false, resume: false });
            }
        }
    }
    for bytes in ld_streams(max_bytes) {
        let n = bytes.len();
        let bound = if n <= 6 { 2 } else if n <= 10 { 1 } else { 0 };
        cases.push(Case { parser: Parser::LengthDelimited, ty: "raw", bytes, bound, max_chunk: 64, via_body: false, resume: false });
    }
    // a 300-byte record between two small ones: cuts restricted to <= 9 bytes would never skip the
    // big record, so use chunk lengths up to 310 but bound 0 and only cuts near the boundaries
    for n in 0..=max_bytes.min(12) {
        for sz in [1usize, 2, 3, 5, 8] {
            let bytes: Vec<u8> = (0..n).map(|i| i as u8 + 1).collect();
            let bound = if n <= 8 { 1 } else { 0 };
            cases.push(Case { parser: Parser::Buffered(sz), ty: "bytes", bytes, bound, max_chunk: 64, via_body: false, resume: false });
        }
    }
    // the same, behind the body wrapper every real request body goes through (short buffers)
    let behind_body: Vec<Case> = cases.iter().filter(|c| c.bytes.len() <= if thorough { 10 } else { 8 }).map(|c| Case { via_body: true, bound: c.bound.min(1), ..c.clone() }).collect();
    cases.extend(behind_body);
    // resume mode (record parsers only; `Buffered` documents "nothing after an error"): the error is one more
    // deviation, so the bound is raised by one where the tree allows it
    let resumed: Vec<Case> = cases.iter().filter(|c| !matches!(c.parser, Parser::Buffered(_)) && c.bytes.len() <= if thorough { 10 } else { 8 }).map(|c| Case { resume: true, bound: c.bound.max(1), ..c.clone() }).collect();
    cases.extend(resumed);
    r.flag("exhaustive", true);
    let cap = 20_000_000;
    let results = common::par_map(cases.len(), common::ncpu(), |i| explore::explore(cases[i].bound, cap, |cx| run_case(&cases[i], cx)));
    let mut shown = 0;
    for (i, st) in results.into_iter().enumerate() {
        let c = &cases[i];
        r.add("states", st.executions);
        r.add("evaluations", st.executions);
        r.add("transitions", st.choice_points);
        r.inc("streams");
        if c.via_body {
            r.inc("streams_behind_body_wrapper");
        }
        if c.resume {
            r.inc("streams_read_on_after_error");
        }
        r.set("parsers", format!("{:?}:{}", c.parser, c.ty).replace(|ch: char| ch.is_ascii_digit() && matches!(c.parser, Parser::Buffered(_)), "N"));
        if c.bytes.len() == 6 && c.ty == "Gf9Bit" && shown < 2 {
            shown += 1;
            r.sample(json!({"parser":format!("{:?}", c.parser),"type":c.ty,"bytes":c.bytes,"chunkings_and_deviations_executed":st.executions,"longest_choice_sequence":st.longest}));
        }
        if let Some(m) = st.machinery {
            r.machinery(&format!("{c:?}: {m}"));
        }
        if let Some((trace, e)) = st.failure {
            let kind = if e.contains("panic") { "panic" } else if e.contains("lost") || e.contains("prefix") { "records" } else { "error-reporting" };
            let p = match c.parser { Parser::Buffered(n) => format!("Buffered{n}"), p => format!("{p:?}") };
            r.violation(&format!("parser:{kind}:{p}:{}", c.ty), &e, json!({"part":"parsers","case":{"parser":p,"ty":c.ty,"bytes":c.bytes,"max_chunk":c.max_chunk,"via_body":c.via_body,"resume":c.resume},"choices":trace}));
        } else if !st.complete {
            r.flag("exhaustive", false);
            r.note(format!("{:?}/{} {} bytes: cap hit", c.parser, c.ty, c.bytes.len()));
        }
    }
    r.finish();
}
