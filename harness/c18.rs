// C18 / E4: query lifecycle — BFS over API-call histories on one real `Processor` wired to
// in-memory networks whose peers are scripted, in lock-step with a reference model.
// (module path: crate::query::processor::verif::c18; hook H5; config A)

use std::{
    future::Future,
    pin::Pin,
    sync::{Arc as StdArc, Mutex as StdMutex},
};

use futures_util::future::poll_immediate;
use serde_json::json;
use tokio::sync::{oneshot, watch};

use super::super::*;
use crate::{
    ff::{FieldType, boolean_array::BA64},
    helpers::{
        ApiError, HandlerBox, HelperIdentity, HelperResponse, InMemoryMpcNetwork, InMemoryShardNetwork,
        InMemoryTransport, RequestHandler, make_owned_handler,
        query::{CompareStatusRequest, PrepareQuery, QueryConfig, QueryType::TestMultiply},
        routing::RouteId,
    },
    query::{
        runner::QueryResult,
        state::{QueryState, RunningQuery},
    },
    verif::{
        bfs::bfs_all,
        common::{self, Report},
    },
};

#[derive(Clone, Copy, Debug, PartialEq, Eq, PartialOrd, Ord)]
pub enum View {
    /// helper 1 (query coordinator), shard 0
    CoordLeader,
    /// helper 2, shard 0
    FollowerLeader,
    /// helper 1, shard 1
    CoordShard1,
}

impl View {
    fn helper(self) -> HelperIdentity {
        match self {
            View::FollowerLeader => HelperIdentity::TWO,
            _ => HelperIdentity::ONE,
        }
    }
    fn shard(self) -> u32 {
        u32::from(self == View::CoordShard1)
    }
    fn leader(self) -> bool {
        self.shard() == 0
    }
}

#[derive(Clone, Copy, Debug, PartialEq, Eq, PartialOrd, Ord)]
pub enum Verdict {
    Ok,
    H3Rejects,
    ShardRejects,
}

#[derive(Clone, Copy, Debug, PartialEq, Eq, PartialOrd, Ord)]
pub enum Ev {
    NewStart,
    NewFinish(Verdict),
    PrepHelper(bool),
    PrepShard,
    ReceiveInputs,
    Inject,
    TaskOk,
    TaskErr,
    /// query_status on the leader; the two peer shards answer with these statuses (None: they agree)
    Status(Option<u8>, Option<u8>),
    ShardStatus(u8),
    Complete(bool),
    PollComplete,
    Kill,
    /// the task of a query that was killed while a completion request for it was parked ends
    ZombieTask(bool),
    /// the completion request parked before the kill is polled again
    PollZombie,
}

const STATUSES: [QueryStatus; 5] = [
    QueryStatus::Preparing,
    QueryStatus::AwaitingInputs,
    QueryStatus::Running,
    QueryStatus::AwaitingCompletion,
    QueryStatus::Completed,
];

#[derive(Clone, Copy, Debug, PartialEq, Eq, PartialOrd, Ord)]
pub enum St {
    Absent,
    Preparing,
    AwaitingInputs,
    Running,
    AwaitingCompletion,
    Completed(bool),
}

#[derive(Clone, Debug, PartialEq, Eq, PartialOrd, Ord)]
pub struct M {
    st: St,
    real: bool,
    sent: Option<bool>,
    has_sender: bool,
    new_pending: bool,
    complete_pending: bool,
    /// a completion request is still parked for a query that has since been killed
    zombie: bool,
    /// what the killed query's task has sent (None: still running)
    zsent: Option<bool>,
    zsender: bool,
    /// a create request is still parked at the peers for a query that has since been killed
    zcreate: bool,
}

impl M {
    fn new() -> Self {
        Self { st: St::Absent, real: false, sent: None, has_sender: false, new_pending: false, complete_pending: false, zombie: false, zsent: None, zsender: false, zcreate: false }
    }
    fn status(&self) -> Option<QueryStatus> {
        Some(match self.st {
            St::Absent => return None,
            St::Preparing => QueryStatus::Preparing,
            St::AwaitingInputs => QueryStatus::AwaitingInputs,
            St::Running => QueryStatus::Running,
            St::AwaitingCompletion => QueryStatus::AwaitingCompletion,
            St::Completed(_) => QueryStatus::Completed,
        })
    }
    /// get_status() promotes a finished task to Completed
    fn promote(&mut self) {
        if self.st == St::Running && !self.real {
            if let Some(ok) = self.sent {
                self.st = St::Completed(ok);
            }
        }
    }
    fn real_zombie_pending(&self) -> bool {
        self.zsent.is_none()
    }
    fn rank(s: QueryStatus) -> usize {
        STATUSES.iter().position(|x| *x == s).unwrap()
    }

    fn enabled(&self, view: View) -> Vec<Ev> {
        // (scope) no further create request while an abandoned one is still parked at the peers
        let mut v = if self.zcreate { vec![] } else { vec![Ev::NewStart] };
        if self.new_pending {
            v.extend([Ev::NewFinish(Verdict::Ok), Ev::NewFinish(Verdict::H3Rejects), Ev::NewFinish(Verdict::ShardRejects)]);
        }
        v.extend([Ev::PrepHelper(true), Ev::PrepHelper(false), Ev::PrepShard, Ev::ReceiveInputs]);
        if self.st == St::AwaitingInputs {
            v.push(Ev::Inject);
        }
        if self.has_sender && self.sent.is_none() {
            v.extend([Ev::TaskOk, Ev::TaskErr]);
        }
        v.push(Ev::Status(None, None));
        if view.leader() {
            for a in 0..6u8 {
                for b in 0..6u8 {
                    if a + b > 0 {
                        v.push(Ev::Status(a.checked_sub(1), b.checked_sub(1)));
                    }
                }
            }
        } else {
            for s in 0..5 {
                v.push(Ev::ShardStatus(s));
            }
        }
        if view.leader() {
            v.push(Ev::ShardStatus(2));
        }
        v.extend([Ev::Complete(true), Ev::Complete(false)]);
        if self.complete_pending {
            v.push(Ev::PollComplete);
        }
        // one parked completion per slot in the harness: no second kill-with-parked-completion while a zombie exists
        if !(self.zombie && self.complete_pending) && !self.zcreate {
            v.push(Ev::Kill);
        }
        if self.zombie {
            v.push(Ev::PollZombie);
            if self.zsender && self.zsent.is_none() {
                v.extend([Ev::ZombieTask(true), Ev::ZombieTask(false)]);
            }
        }
        v
    }

    /// The reference model: expected result class of the call, state after it.
    fn step(&mut self, view: View, ev: Ev) -> String {
        let leader = view.leader();
        match ev {
            Ev::NewStart => {
                if self.st == St::Absent && !self.new_pending {
                    self.st = St::Preparing;
                    self.new_pending = true;
                    "Pending".into()
                } else {
                    "Err:AlreadyRunning".into()
                }
            }
            Ev::NewFinish(_) if self.zcreate && self.st != St::Absent => {
                // the abandoned create request resumes: whatever it answers, the query slot (possibly
                // holding a query registered since the kill) must not change
                self.new_pending = false;
                self.zcreate = false;
                "Any".into()
            }
            Ev::NewFinish(v) => {
                // (also the abandoned create request finding the slot empty: it proceeds like a fresh one)
                self.new_pending = false;
                self.zcreate = false;
                match v {
                    Verdict::Ok => {
                        self.st = St::AwaitingInputs;
                        "Ok".into()
                    }
                    Verdict::H3Rejects => {
                        self.st = St::Absent;
                        "Err:MpcTransport".into()
                    }
                    Verdict::ShardRejects => {
                        self.st = St::Absent;
                        "Err:Shard".into()
                    }
                }
            }
            Ev::PrepHelper(shards_ok) => {
                if view.helper() == HelperIdentity::ONE {
                    "Err:WrongTarget".into()
                } else if !leader {
                    "Err:NotLeader".into()
                } else if self.st != St::Absent {
                    "Err:AlreadyRunning".into()
                } else if !shards_ok {
                    "Err:Shard".into()
                } else {
                    self.st = St::AwaitingInputs;
                    "Ok".into()
                }
            }
            Ev::PrepShard => {
                if leader {
                    "Err:Leader".into()
                } else if self.st != St::Absent {
                    "Err:AlreadyRunning".into()
                } else {
                    self.st = St::AwaitingInputs;
                    "Ok".into()
                }
            }
            Ev::ReceiveInputs => match self.st {
                St::Absent => "Err:NoSuchQuery".into(),
                St::AwaitingInputs => {
                    self.st = St::Running;
                    self.real = true;
                    self.sent = None;
                    self.has_sender = false;
                    "Ok".into()
                }
                _ => "Err:InvalidState".into(),
            },
            Ev::Inject => {
                self.st = St::Running;
                self.real = false;
                self.sent = None;
                self.has_sender = true;
                "-".into()
            }
            Ev::TaskOk | Ev::TaskErr => {
                self.sent = Some(ev == Ev::TaskOk);
                "-".into()
            }
            Ev::Status(o1, o2) => {
                if !leader {
                    return "Err:NotLeader".into();
                }
                self.promote();
                match self.status() {
                    None => "Err:NoSuchQuery".into(),
                    Some(s) => {
                        // the least advanced status among the shards
                        let mut rank = Self::rank(s);
                        for o in [o1, o2].into_iter().flatten() {
                            rank = rank.min(o as usize);
                        }
                        format!("Ok:{:?}", STATUSES[rank])
                    }
                }
            }
            Ev::ShardStatus(req) => {
                if leader {
                    return "Err:Leader".into();
                }
                self.promote();
                match self.status() {
                    None => "Err:NoSuchQuery".into(),
                    Some(s) if s == STATUSES[req as usize] => format!("Ok:{s:?}"),
                    Some(s) => format!("Err:DifferentStatus:{s:?}"),
                }
            }
            Ev::Complete(shards_ok) => match self.st {
                St::Absent => "Err:NoSuchQuery".into(),
                St::Completed(ok) => {
                    self.st = St::Absent;
                    self.has_sender = false;
                    if ok { "Ok:result".into() } else { "Err:Execution".into() }
                }
                St::Running => {
                    if leader && !shards_ok {
                        self.st = St::Absent;
                        self.has_sender = false;
                        self.sent = None;
                        "Err:Shard".into()
                    } else if let (false, Some(ok)) = (self.real, self.sent) {
                        self.st = St::Absent;
                        self.has_sender = false;
                        if ok { "Ok:result".into() } else { "Err:Execution".into() }
                    } else {
                        self.st = St::AwaitingCompletion;
                        self.complete_pending = true;
                        "Pending".into()
                    }
                }
                _ => "Err:InvalidState".into(),
            },
            Ev::PollComplete => match (self.real, self.sent) {
                (false, Some(ok)) => {
                    self.complete_pending = false;
                    self.st = St::Absent;
                    self.has_sender = false;
                    if ok { "Ok:result".into() } else { "Err:Execution".into() }
                }
                _ => "Pending".into(),
            },
            Ev::ZombieTask(ok) => {
                self.zsent = Some(ok);
                self.zsender = false;
                "-".into()
            }
            Ev::PollZombie => {
                // Whatever the abandoned request is answered with, it concerns a query that no longer
                // exists: the query slot (possibly holding a new query by now) must not change.
                if !self.real_zombie_pending() {
                    self.zombie = false;
                    "Any".into()
                } else {
                    "Pending".into()
                }
            }
            Ev::Kill => {
                if self.st == St::Absent {
                    "Err:NoSuchQuery".into()
                } else {
                    if self.new_pending {
                        // the create request parked at the peers outlives the kill
                        self.zcreate = true;
                    }
                    if self.complete_pending {
                        // the parked completion request outlives the kill; its query is gone
                        self.zombie = true;
                        self.zsent = self.sent;
                        self.zsender = self.has_sender && self.sent.is_none();
                    }
                    self.st = St::Absent;
                    self.has_sender = false;
                    self.sent = None;
                    self.complete_pending = false;
                    "Ok".into()
                }
            }
        }
    }
}

#[derive(Default)]
struct Script {
    h3_rejects: bool,
    shard_prepare_ok: bool,
    /// answers of shards 1 and 2 to a status comparison (None: agree)
    shard_status: [Option<QueryStatus>; 2],
    shard_complete_ok: bool,
}

type BoxFut<T> = Pin<Box<dyn Future<Output = T>>>;

struct Sys {
    // field order = drop order: parked futures first, then the processor they borrow
    new_fut: Option<BoxFut<Result<PrepareQuery, NewQueryError>>>,
    extra_new_fut: Option<BoxFut<Result<PrepareQuery, NewQueryError>>>,
    complete_fut: Option<BoxFut<Result<Box<dyn ProtocolResult>, QueryCompletionError>>>,
    zombie_fut: Option<BoxFut<Result<Box<dyn ProtocolResult>, QueryCompletionError>>>,
    sender: Option<oneshot::Sender<QueryResult>>,
    zsender: Option<oneshot::Sender<QueryResult>>,
    processor: Box<Processor>,
    mpc: InMemoryTransport<HelperIdentity>,
    shard: InMemoryTransport<crate::sharding::ShardIndex>,
    script: StdArc<StdMutex<Script>>,
    gate: watch::Sender<bool>,
    _mpc_net: InMemoryMpcNetwork,
    _shard_net: InMemoryShardNetwork,
    _handlers: Vec<StdArc<dyn RequestHandler<HelperIdentity>>>,
    _shard_handlers: Vec<StdArc<dyn RequestHandler<crate::sharding::ShardIndex>>>,
}

fn config() -> QueryConfig {
    QueryConfig::new(TestMultiply, FieldType::Fp31, 1).unwrap()
}

async fn settle<T>(fut: &mut BoxFut<T>) -> Option<T> {
    for _ in 0..64 {
        if let Some(v) = poll_immediate(&mut *fut).await {
            return Some(v);
        }
        tokio::task::yield_now().await;
    }
    None
}

impl Sys {
    fn new(view: View) -> Self {
        let script = StdArc::new(StdMutex::new(Script { shard_prepare_ok: true, shard_complete_ok: true, ..Script::default() }));
        let (gate, gate_rx) = watch::channel(true);
        let mk = |id: HelperIdentity| -> StdArc<dyn RequestHandler<HelperIdentity>> {
            let script = StdArc::clone(&script);
            let gate_rx = gate_rx.clone();
            make_owned_handler(move |addr, _| {
                let script = StdArc::clone(&script);
                let mut gate_rx = gate_rx.clone();
                async move {
                    if addr.route == RouteId::PrepareQuery {
                        while !*gate_rx.borrow() {
                            if gate_rx.changed().await.is_err() {
                                break;
                            }
                        }
                        if id == HelperIdentity::THREE && script.lock().unwrap().h3_rejects {
                            return Err(ApiError::QueryPrepare(PrepareQueryError::WrongTarget));
                        }
                    }
                    Ok(HelperResponse::ok())
                }
            })
        };
        let handlers: Vec<_> = HelperIdentity::make_three().into_iter().map(mk).collect();
        let mpc_net = InMemoryMpcNetwork::new([
            Some(HandlerBox::owning_ref(&handlers[0])),
            Some(HandlerBox::owning_ref(&handlers[1])),
            Some(HandlerBox::owning_ref(&handlers[2])),
        ]);
        let sscript = StdArc::clone(&script);
        let (shard_net, shard_handlers) = InMemoryShardNetwork::with_shards_and_handlers(3u32, move |si| {
            let script = StdArc::clone(&sscript);
            let peer = (usize::from(si)).saturating_sub(1).min(1);
            make_owned_handler(move |addr, _| {
                let script = StdArc::clone(&script);
                async move {
                    let s = script.lock().unwrap();
                    match addr.route {
                        RouteId::PrepareQuery if !s.shard_prepare_ok => Err(ApiError::QueryPrepare(PrepareQueryError::AlreadyRunning)),
                        RouteId::QueryStatus => match s.shard_status[peer] {
                            Some(st) => Err(ApiError::QueryStatus(QueryStatusError::DifferentStatus {
                                query_id: QueryId,
                                my_status: st,
                                other_status: st,
                            })),
                            None => Ok(HelperResponse::ok()),
                        },
                        RouteId::CompleteQuery if !s.shard_complete_ok => Err(ApiError::QueryCompletion(QueryCompletionError::NoSuchQuery(QueryId))),
                        _ => Ok(HelperResponse::ok()),
                    }
                }
            })
        });
        let mpc = mpc_net.transport(view.helper());
        let shard = shard_net.transport(view.helper(), view.shard());
        Self {
            new_fut: None,
            extra_new_fut: None,
            complete_fut: None,
            zombie_fut: None,
            sender: None,
            zsender: None,
            processor: Box::new(Processor::default()),
            mpc,
            shard,
            script,
            gate,
            _mpc_net: mpc_net,
            _shard_net: shard_net,
            _handlers: handlers,
            _shard_handlers: shard_handlers,
        }
    }

    fn p(&self) -> &'static Processor {
        // the parked futures borrow the processor; `Sys` drops them before it (field order)
        unsafe { &*(&*self.processor as *const Processor) }
    }

    fn raw_status(&self) -> Option<QueryStatus> {
        self.processor.queries.inner.lock().unwrap().get(&QueryId).map(QueryStatus::from)
    }

    async fn apply(&mut self, ev: Ev) -> String {
        let p = self.p();
        match ev {
            Ev::NewStart => {
                let _ = self.gate.send(false);
                let mut fut: BoxFut<_> = Box::pin(p.new_query(self.mpc.clone_ref(), self.shard.clone_ref(), config()));
                match settle(&mut fut).await {
                    Some(r) => class_new(&r),
                    None => {
                        if self.new_fut.is_none() {
                            self.new_fut = Some(fut);
                        } else {
                            self.extra_new_fut = Some(fut);
                        }
                        "Pending".into()
                    }
                }
            }
            Ev::NewFinish(v) => {
                {
                    let mut s = self.script.lock().unwrap();
                    s.h3_rejects = v == Verdict::H3Rejects;
                    s.shard_prepare_ok = v != Verdict::ShardRejects;
                }
                let _ = self.gate.send(true);
                let mut fut = self.new_fut.take().expect("model enables NewFinish only with a parked create");
                let r = settle(&mut fut).await;
                {
                    let mut s = self.script.lock().unwrap();
                    s.h3_rejects = false;
                    s.shard_prepare_ok = true;
                }
                r.map_or_else(|| "Pending".to_string(), |r| class_new(&r))
            }
            Ev::PrepHelper(shards_ok) => {
                self.script.lock().unwrap().shard_prepare_ok = shards_ok;
                let req = PrepareQuery { query_id: QueryId, config: config(), roles: RoleAssignment::new(HelperIdentity::make_three()) };
                let mut fut: BoxFut<_> = Box::pin(p.prepare_helper(self.mpc.clone_ref(), self.shard.clone_ref(), req));
                let r = settle(&mut fut).await;
                self.script.lock().unwrap().shard_prepare_ok = true;
                match r {
                    None => "Pending".into(),
                    Some(Ok(())) => "Ok".into(),
                    Some(Err(e)) => class_prepare(&e),
                }
            }
            Ev::PrepShard => {
                let req = PrepareQuery { query_id: QueryId, config: config(), roles: RoleAssignment::new(HelperIdentity::make_three()) };
                match p.prepare_shard(&self.shard, req) {
                    Ok(()) => "Ok".into(),
                    Err(e) => class_prepare(&e),
                }
            }
            Ev::ReceiveInputs => match p.receive_inputs(self.mpc.clone_ref(), self.shard.clone_ref(), QueryId, BodyStream::empty()) {
                Ok(()) => "Ok".into(),
                Err(QueryInputError::NoSuchQuery(_)) => "Err:NoSuchQuery".into(),
                Err(QueryInputError::StateError { .. }) => "Err:InvalidState".into(),
            },
            Ev::Inject => {
                let (tx, rx) = oneshot::channel();
                // exactly what the repository's own unit tests do to obtain a controllable task
                let mut q = self.processor.queries.inner.lock().unwrap();
                q.insert(QueryId, QueryState::Running(RunningQuery { result: rx, join_handle: IpaRuntime::current().spawn(async {}) }));
                self.sender = Some(tx);
                "-".into()
            }
            Ev::TaskOk => {
                let _ = self.sender.take().unwrap().send(Ok(Box::new(Vec::<BA64>::new())));
                "-".into()
            }
            Ev::TaskErr => {
                let _ = self.sender.take().unwrap().send(Err(ProtocolError::Internal));
                "-".into()
            }
            Ev::Status(o1, o2) => {
                self.script.lock().unwrap().shard_status = [o1.map(|o| STATUSES[o as usize]), o2.map(|o| STATUSES[o as usize])];
                let mut fut: BoxFut<_> = Box::pin(p.query_status(self.shard.clone_ref(), QueryId));
                let r = settle(&mut fut).await;
                self.script.lock().unwrap().shard_status = [None, None];
                match r {
                    None => "Pending".into(),
                    Some(Ok(s)) => format!("Ok:{s:?}"),
                    Some(Err(e)) => class_status(&e),
                }
            }
            Ev::ShardStatus(req) => {
                match p.shard_status(&self.shard, &CompareStatusRequest { query_id: QueryId, status: STATUSES[req as usize] }) {
                    Ok(s) => format!("Ok:{s:?}"),
                    Err(e) => class_status(&e),
                }
            }
            Ev::Complete(shards_ok) => {
                self.script.lock().unwrap().shard_complete_ok = shards_ok;
                let mut fut: BoxFut<_> = Box::pin(p.complete(QueryId, self.shard.clone_ref()));
                let r = settle(&mut fut).await;
                self.script.lock().unwrap().shard_complete_ok = true;
                match r {
                    None => {
                        self.complete_fut = Some(fut);
                        "Pending".into()
                    }
                    Some(r) => class_complete(&r),
                }
            }
            Ev::PollComplete => {
                let mut fut = self.complete_fut.take().expect("model enables PollComplete only with a parked request");
                match settle(&mut fut).await {
                    None => {
                        self.complete_fut = Some(fut);
                        "Pending".into()
                    }
                    Some(r) => class_complete(&r),
                }
            }
            Ev::Kill => {
                let r = match p.kill(QueryId) {
                    Ok(_) => "Ok".to_string(),
                    Err(QueryKillStatus::NoSuchQuery(_)) => "Err:NoSuchQuery".to_string(),
                    // any other refusal (a later version may refuse to kill in some states)
                    #[allow(unreachable_patterns)]
                    Err(_) => "Err:Refused".to_string(),
                };
                if r == "Ok" {
                    if let Some(f) = self.complete_fut.take() {
                        // the request parked before the kill stays parked, and the task it waits for keeps running
                        self.zombie_fut = Some(f);
                        self.zsender = self.sender.take();
                    }
                    self.sender = None;
                }
                r
            }
            Ev::ZombieTask(ok) => {
                let tx = self.zsender.take().expect("model enables ZombieTask only while the killed query's task runs");
                let _ = if ok { tx.send(Ok(Box::new(Vec::<BA64>::new()))) } else { tx.send(Err(ProtocolError::Internal)) };
                "-".into()
            }
            Ev::PollZombie => {
                let mut fut = self.zombie_fut.take().expect("model enables PollZombie only with an abandoned request");
                match settle(&mut fut).await {
                    None => {
                        self.zombie_fut = Some(fut);
                        "Pending".into()
                    }
                    Some(_) => "Any".into(),
                }
            }
        }
    }
}

fn class_new(r: &Result<PrepareQuery, NewQueryError>) -> String {
    match r {
        Ok(_) => "Ok".into(),
        Err(NewQueryError::State(StateError::AlreadyRunning)) => "Err:AlreadyRunning".into(),
        Err(NewQueryError::State(_)) => "Err:InvalidState".into(),
        Err(NewQueryError::MpcTransport(_)) => "Err:MpcTransport".into(),
        Err(NewQueryError::ShardBroadcastError(_)) => "Err:Shard".into(),
    }
}

fn class_prepare(e: &PrepareQueryError) -> String {
    match e {
        PrepareQueryError::WrongTarget => "Err:WrongTarget".into(),
        PrepareQueryError::NotLeader(_) => "Err:NotLeader".into(),
        PrepareQueryError::Leader => "Err:Leader".into(),
        PrepareQueryError::AlreadyRunning => "Err:AlreadyRunning".into(),
        PrepareQueryError::StateError { .. } => "Err:AlreadyRunning".into(),
        PrepareQueryError::ShardBroadcastError(_) => "Err:Shard".into(),
    }
}

fn class_status(e: &QueryStatusError) -> String {
    match e {
        QueryStatusError::NoSuchQuery(_) => "Err:NoSuchQuery".into(),
        QueryStatusError::ShardBroadcastError(_) => "Err:Shard".into(),
        QueryStatusError::NotLeader(_) => "Err:NotLeader".into(),
        QueryStatusError::Leader => "Err:Leader".into(),
        QueryStatusError::DifferentStatus { my_status, .. } => format!("Err:DifferentStatus:{my_status:?}"),
    }
}

fn class_complete(r: &Result<Box<dyn ProtocolResult>, QueryCompletionError>) -> String {
    match r {
        Ok(_) => "Ok:result".into(),
        Err(QueryCompletionError::NoSuchQuery(_)) => "Err:NoSuchQuery".into(),
        Err(QueryCompletionError::StateError { .. }) => "Err:InvalidState".into(),
        Err(QueryCompletionError::ExecutionError(_)) => "Err:Execution".into(),
        Err(QueryCompletionError::ShardError(_)) => "Err:Shard".into(),
    }
}

/// Replays a history on a fresh system, comparing every call's result class and the stored
/// status with the model. Returns the model state (canonical key) and the enabled events.
pub fn run_hist(view: View, hist: &[Ev]) -> Result<(M, Vec<Ev>), String> {
    let rt = tokio::runtime::Builder::new_current_thread().enable_time().build().unwrap();
    let res = rt.block_on(async {
        let mut sys = Sys::new(view);
        let mut m = M::new();
        for (i, ev) in hist.iter().enumerate() {
            let was_zcreate = m.zcreate && m.st != St::Absent;
            let before = m.clone();
            let mut expect = m.step(view, *ev);
            let got = sys.apply(*ev).await;
            if matches!(ev, Ev::Kill) && got == "Err:Refused" && before.st != St::Absent {
                // a kill request may be refused as invalid in the current state: then nothing changes
                m = before;
                expect = got.clone();
            }
            let got = if expect == "Any" && got != "Pending" { "Any".to_string() } else { got };
            // The property asks for *an* error on an invalid request, not for a particular variant: error
            // classes are compared as "an error", except the status a shard reports back in a mismatch
            // (the leader computes the combined status from it).
            let coarse_class = |x: &str| -> String { if x.starts_with("Err:") && !x.starts_with("Err:DifferentStatus") { "Err".to_string() } else { x.to_string() } };
            if coarse_class(&got) != coarse_class(&expect) {
                return Err(format!("step {} {ev:?}: the helper answered {got}, the lifecycle model says {expect} (model state after: {m:?})", i + 1));
            }
            // stored status: equal to the model's up to the lazy Running -> Completed promotion
            let raw = sys.raw_status();
            let coarse = |s: Option<QueryStatus>| s.map(|s| if s == QueryStatus::Completed { QueryStatus::Running } else { s });
            if coarse(raw) != coarse(m.status()) && was_zcreate && matches!(ev, Ev::NewFinish(_)) {
                return Err(format!("zombie create: step {} {ev:?}: a create request that was parked at the peers before its query was killed has now finished and the helper stores status {raw:?}; the query registered since then was in {:?} and must not be touched", i + 1, m.status()));
            }
            if coarse(raw) != coarse(m.status()) && matches!(ev, Ev::PollZombie) {
                return Err(format!("zombie completion: step {} {ev:?}: a completion request that was parked before its query was killed has now finished and the helper stores status {raw:?}; the query registered since then was in {:?} and must not be touched", i + 1, m.status()));
            }
            if coarse(raw) != coarse(m.status()) {
                return Err(format!("step {} {ev:?} (answer {got}): the helper now stores status {raw:?}, the lifecycle model says {:?}", i + 1, m.status()));
            }
        }
        let en = m.enabled(view);
        Ok((m, en))
    });
    drop(rt);
    res
}

fn ev_json(h: &[Ev]) -> Vec<String> {
    h.iter().map(|e| format!("{e:?}")).collect()
}

fn parse_ev(s: &str) -> Ev {
    let all = {
        let mut v = vec![Ev::NewStart, Ev::PrepShard, Ev::ReceiveInputs, Ev::Inject, Ev::TaskOk, Ev::TaskErr, Ev::PollComplete, Ev::Kill, Ev::PollZombie, Ev::ZombieTask(true), Ev::ZombieTask(false)];
        for b in [true, false] {
            v.extend([Ev::PrepHelper(b), Ev::Complete(b)]);
        }
        for x in [Verdict::Ok, Verdict::H3Rejects, Verdict::ShardRejects] {
            v.push(Ev::NewFinish(x));
        }
        for a in 0..6u8 {
            for b in 0..6u8 {
                v.push(Ev::Status(a.checked_sub(1), b.checked_sub(1)));
            }
        }
        for i in 0..5 {
            v.push(Ev::ShardStatus(i));
        }
        v
    };
    all.into_iter().find(|e| format!("{e:?}") == s).unwrap_or_else(|| panic!("unknown event {s}"))
}

#[test]
fn min_status_is_meet() {
    // exhaustive: min_status on all 25 pairs is the meet of the total order
    let mut r = Report::new("C18");
    for (i, a) in STATUSES.iter().enumerate() {
        for (j, b) in STATUSES.iter().enumerate() {
            r.inc("evaluations");
            if crate::query::min_status(*a, *b) != STATUSES[i.min(j)] {
                r.violation("min-status", &format!("min_status({a:?},{b:?})"), json!({"part":"lifecycle"}));
            }
        }
    }
    r.add("states", 5);
    r.add("transitions", 25);
    r.sample(json!({"min_status":"all 25 ordered pairs"}));
    r.finish();
}

#[test]
fn run() {
    let mut r = Report::new("C18");
    if let Some(rep) = common::replay_arg() {
        let view = match rep["view"].as_str().unwrap() {
            "CoordLeader" => View::CoordLeader,
            "FollowerLeader" => View::FollowerLeader,
            _ => View::CoordShard1,
        };
        let hist: Vec<Ev> = rep["history"].as_array().unwrap().iter().map(|v| parse_ev(v.as_str().unwrap())).collect();
        r.add("states", 1);
        r.add("transitions", hist.len() as u64);
        match common::catch(|| run_hist(view, &hist)) {
            Ok(Ok(_)) => {}
            Ok(Err(e)) => r.violation("lifecycle:replay", &e, rep.clone()),
            Err(p) => r.violation("lifecycle:replay", &format!("panic: {p}"), rep.clone()),
        }
        r.finish();
        return;
    }
    let depth = if common::thorough() { 12 } else { 9 };
    let views = [View::CoordLeader, View::FollowerLeader, View::CoordShard1];
    r.flag("exhaustive", true);
    let results = common::par_map(views.len(), 3, |i| {
        let view = views[i];
        bfs_all(|h| common::catch(|| run_hist(view, h)).unwrap_or_else(|p| Err(format!("panic: {p}"))), depth, 2_000_000, 40)
    });
    for (i, st) in results.into_iter().enumerate() {
        let view = views[i];
        r.add("states", st.states);
        r.add("transitions", st.transitions);
        r.add("evaluations", st.transitions);
        r.add(&format!("states_{view:?}"), st.states);
        r.max("depth", st.max_depth as u64);
        if !st.closed {
            r.note(format!("{view:?}: depth bound {depth} reached with enabled events left (expected: the model has cycles; all distinct model states within the bound were expanded)"));
        }
        r.sample(json!({"view":format!("{view:?}"),"states":st.states,"transitions":st.transitions,"deepest_history":ev_json(&st.deepest)}));
        r.add("failing_transitions", st.failing_transitions);
        for (h, e) in st.failures {
            let kind = if e.contains("panic") { "panic" } else if e.starts_with("zombie completion") { "zombie-completion" } else if e.starts_with("zombie create") { "zombie-create" } else if e.contains("stores status") { "state" } else { "answer" };
            let last = h.last().map(|e| format!("{e:?}")).unwrap_or_default();
            r.violation(&format!("lifecycle:{kind}:{view:?}:{last}"), &e, json!({"part":"lifecycle","view":format!("{view:?}"),"history":ev_json(&h)}));
        }
    }
    // min_status (exhaustive)
    for (i, a) in STATUSES.iter().enumerate() {
        for (j, b) in STATUSES.iter().enumerate() {
            r.inc("evaluations");
            if crate::query::min_status(*a, *b) != STATUSES[i.min(j)] {
                r.violation("min-status", &format!("min_status({a:?},{b:?}) is not the less advanced status"), json!({"part":"lifecycle"}));
            }
        }
    }
    r.finish();
}
