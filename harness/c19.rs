// C19 / E5 + E3: resharding on every shard of a sharded TestWorld (tokio): every small input size
// x shard count x picker; input-stream errors at every position; over-long streams; a corrupted
// record on every shard-to-shard stream. The schedule quantifier is explored in c19_sched.rs
// (config B). (module path: crate::verif::c19; config A)

use std::{
    sync::{
        Arc, Mutex,
        atomic::{AtomicU64, Ordering},
    },
    time::Duration,
};

use futures::stream;
use serde_json::json;

use super::{
    common::{self, Report},
    fault::{self, BoxFut, Out},
};
use crate::{
    ff::{Fp32BitPrime, U128Conversions},
    helpers::in_memory_config::{DynStreamInterceptor, InspectContext, passthrough},
    protocol::context::{reshard_iter, reshard_try_stream},
    sharding::ShardIndex,
    test_fixture::{TestWorld, TestWorldConfig, WithShards},
};

#[derive(Clone, Copy, Debug, PartialEq)]
pub enum Picker {
    AllTo(usize),
    ByIndex,
    ByValue,
    Reverse,
    Stay,
}

impl Picker {
    fn pick(self, shards: usize, my: usize, idx: usize, value: u128) -> usize {
        match self {
            Picker::AllTo(j) => j % shards,
            Picker::ByIndex => idx % shards,
            Picker::ByValue => (value % shards as u128) as usize,
            Picker::Reverse => shards - 1 - (idx % shards),
            Picker::Stay => my,
        }
    }
}

#[derive(Clone, Debug)]
pub struct Case19 {
    pub shards: usize,
    /// per shard: record values (unique over the whole input)
    pub input: Vec<Vec<u128>>,
    pub picker: Picker,
    /// (shard, position): the input stream of that shard yields Err at that position
    pub err_at: Option<(usize, usize)>,
    /// (shard, extra): the stream of that shard yields `extra` more items than its size hint
    pub overlong: Option<(usize, usize)>,
    /// the size hint of the over-long stream counts down as items are consumed
    pub countdown: bool,
    /// every shard's input answers Pending before these item positions (honest arm)
    pub pending_before: Vec<usize>,
    pub seed: u64,
}

type Outputs = Vec<Vec<Out<Vec<u128>>>>;

/// An input stream with a scripted environment: the upper size hint is `hint` (constant) or counts
/// down with every item handed out (`countdown`), and the stream answers Pending (waking itself)
/// before the items whose position is in `pending_before`.
struct Lying<S> {
    inner: S,
    hint: usize,
    countdown: bool,
    pending_before: Vec<usize>,
    handed_out: usize,
    pended: bool,
}
impl<S: futures::Stream + Unpin> futures::Stream for Lying<S> {
    type Item = S::Item;
    fn poll_next(mut self: std::pin::Pin<&mut Self>, cx: &mut std::task::Context<'_>) -> std::task::Poll<Option<S::Item>> {
        if !self.pended && self.pending_before.contains(&self.handed_out) {
            self.pended = true;
            cx.waker().wake_by_ref();
            return std::task::Poll::Pending;
        }
        let r = std::pin::Pin::new(&mut self.inner).poll_next(cx);
        if let std::task::Poll::Ready(Some(_)) = &r {
            self.handed_out += 1;
            self.pended = false;
        }
        r
    }
    fn size_hint(&self) -> (usize, Option<usize>) {
        (0, Some(if self.countdown { self.hint.saturating_sub(self.handed_out) } else { self.hint }))
    }
}

async fn world_run<const S: usize>(c: &Case19, interceptor: DynStreamInterceptor, overall: Duration, grace: Duration) -> Outputs {
    let mut config = TestWorldConfig::default();
    config.seed = c.seed;
    config.stream_interceptor = interceptor;
    config.timeout = None;
    let world: TestWorld<WithShards<S>> = TestWorld::with_shards(&config);
    let mut futs: Vec<BoxFut<'_, Vec<u128>>> = Vec::new();
    for per_shard in world.contexts() {
        for (s, ctx) in per_shard.into_iter().enumerate() {
            let input: Vec<Fp32BitPrime> = c.input[s].iter().map(|v| Fp32BitPrime::truncate_from(*v)).collect();
            let picker = c.picker;
            let shards = c.shards;
            let err_at = c.err_at.and_then(|(es, p)| (es == s).then_some(p));
            let overlong = c.overlong.and_then(|(os, e)| (os == s).then_some(e));
            futs.push(Box::pin(async move {
                let pick = move |_ctx, rid: crate::protocol::RecordId, v: &Fp32BitPrime| ShardIndex::from(picker.pick(shards, s, usize::from(rid), v.as_u128()) as u32);
                let (countdown, pending_before) = (c.countdown, c.pending_before.clone());
                let res = if err_at.is_some() || overlong.is_some() || !pending_before.is_empty() {
                    let n = input.len();
                    let mut items: Vec<Result<Fp32BitPrime, crate::error::Error>> = input.into_iter().map(Ok).collect();
                    if let Some(p) = err_at {
                        items.insert(p.min(items.len()), Err(crate::error::Error::Internal));
                    }
                    if let Some(extra) = overlong {
                        for k in 0..extra {
                            items.push(Ok(Fp32BitPrime::truncate_from(900_000 + k as u128)));
                        }
                    }
                    let hint = if overlong.is_some() { n } else { items.len() };
                    reshard_try_stream(ctx, Lying { inner: stream::iter(items), hint, countdown, pending_before, handed_out: 0, pended: false }, pick).await
                } else {
                    reshard_iter(ctx, input, pick).await
                };
                res.map(|v| v.iter().map(U128Conversions::as_u128).collect()).map_err(|e| format!("{e:?}"))
            }));
        }
    }
    let flat = fault::run_all(futs, overall, grace).await;
    let mut it = flat.into_iter();
    let out = (0..3).map(|_| (0..S).map(|_| it.next().unwrap()).collect()).collect();
    drop(world);
    out
}

async fn dispatch(c: &Case19, i: DynStreamInterceptor, overall: Duration, grace: Duration) -> Outputs {
    match c.shards {
        1 => world_run::<1>(c, i, overall, grace).await,
        2 => world_run::<2>(c, i, overall, grace).await,
        3 => world_run::<3>(c, i, overall, grace).await,
        _ => world_run::<5>(c, i, overall, grace).await,
    }
}

pub fn reference(c: &Case19) -> Vec<Vec<u128>> {
    let mut out = vec![Vec::new(); c.shards];
    for src in 0..c.shards {
        for (idx, v) in c.input[src].iter().enumerate() {
            out[c.picker.pick(c.shards, src, idx, *v)].push(*v);
        }
    }
    out
}

fn case_json(c: &Case19) -> serde_json::Value {
    json!({"shards":c.shards,"input":c.input.iter().map(|v| v.iter().map(|x| *x as u64).collect::<Vec<_>>()).collect::<Vec<_>>(),"picker":format!("{:?}", c.picker),"err_at":c.err_at.map(|x| vec![x.0,x.1]),"overlong":c.overlong.map(|x| vec![x.0,x.1]),"hint_counts_down":c.countdown,"pending_before":c.pending_before,"seed":c.seed})
}

fn inputs(n: usize, shards: usize, layout: usize) -> Vec<Vec<u128>> {
    let mut v = vec![Vec::new(); shards];
    for i in 0..n {
        let s = match layout {
            0 => i % shards,
            1 => 0,
            _ => (i * 2 + i / 3) % shards,
        };
        v[s].push(1000 + 7 * i as u128);
    }
    v
}

#[test]
fn run() {
    let mut r = Report::new("C19");
    let thorough = common::thorough();
    let rt = fault::runtime(8);
    let seed = common::seed();
    // ---- honest grid ----------------------------------------------------------------------------
    let mut cases = Vec::new();
    let max_n = if thorough { 12 } else { 7 };
    for shards in [1usize, 2, 3, 5] {
        for n in 0..=max_n {
            for layout in 0..3 {
                if shards == 1 && layout > 0 {
                    continue;
                }
                let mut pickers = vec![Picker::ByIndex, Picker::ByValue, Picker::Reverse, Picker::Stay];
                for j in 0..shards {
                    pickers.push(Picker::AllTo(j));
                }
                for picker in pickers {
                    if !thorough && shards == 5 && n > 4 {
                        continue;
                    }
                    cases.push(Case19 { shards, input: inputs(n, shards, layout), picker, err_at: None, overlong: None, countdown: false, pending_before: Vec::new(), seed: seed + 60 });
                }
            }
        }
    }
    // the input streams are not ready at every poll: Pending before one position, before every position
    for shards in [2usize, 3] {
        let n = 6;
        let per = inputs(n, shards, 0).iter().map(Vec::len).max().unwrap();
        let mut scripts: Vec<Vec<usize>> = (0..=per).map(|p| vec![p]).collect();
        scripts.push((0..=per).collect());
        for pending_before in scripts {
            for (picker, countdown) in [(Picker::ByValue, false), (Picker::AllTo(0), true)] {
                cases.push(Case19 { shards, input: inputs(n, shards, 0), picker, err_at: None, overlong: None, countdown, pending_before: pending_before.clone(), seed: seed + 65 });
            }
        }
    }
    let results: Vec<Outputs> = rt.block_on(async {
        let mut out = Vec::new();
        for chunk in cases.chunks(24) {
            out.extend(futures::future::join_all(chunk.iter().map(|c| dispatch(c, passthrough(), Duration::from_secs(30), Duration::from_secs(3)))).await);
        }
        out
    });
    for (c, o) in cases.iter().zip(&results) {
        r.inc("evaluations");
        r.inc("honest_runs");
        r.inc("states");
        r.add("transitions", 3 * c.input.iter().map(Vec::len).sum::<usize>() as u64);
        let want = reference(c);
        if c.input.iter().map(Vec::len).sum::<usize>() >= 2 && c.shards > 1 {
            r.inc("distinct_nontrivial");
        }
        if !c.pending_before.is_empty() {
            r.inc("runs_with_pending_input");
        }
        let mut bad = None;
        for h in 0..3 {
            for s in 0..c.shards {
                match &o[h][s] {
                    Out::Ok(v) if *v == want[s] => {}
                    Out::Ok(v) => bad = Some(format!("helper {h} shard {s} holds {v:?} after resharding, expected {:?} (records grouped by source shard, each group in its original order)", want[s])),
                    x => bad = Some(format!("helper {h} shard {s}: {x:?}")),
                }
            }
        }
        if let Some(b) = bad {
            r.violation(&format!("reshard:order:S{}:{:?}", c.shards, c.picker), &b, json!({"part":"grid","case":case_json(c)}));
        }
    }
    // ---- error injection ---------------------------------------------------------------------------
    let mut ecases = Vec::new();
    for shards in [2usize, 3] {
        let n = 6;
        for es in 0..shards {
            let len = inputs(n, shards, 0)[es].len();
            for p in 0..=len {
                ecases.push(Case19 { shards, input: inputs(n, shards, 0), picker: Picker::ByValue, err_at: Some((es, p)), overlong: None, countdown: false, pending_before: Vec::new(), seed: seed + 61 });
            }
            for extra in [1usize, 2] {
                for countdown in [false, true] {
                    ecases.push(Case19 { shards, input: inputs(n, shards, 0), picker: Picker::ByIndex, err_at: None, overlong: Some((es, extra)), countdown, pending_before: Vec::new(), seed: seed + 62 });
                }
            }
        }
    }
    let eres: Vec<Outputs> = rt.block_on(async { futures::future::join_all(ecases.iter().map(|c| dispatch(c, passthrough(), Duration::from_secs(10), Duration::from_millis(1200)))).await });
    for (c, o) in ecases.iter().zip(&eres) {
        r.inc("evaluations");
        r.inc("distinct_nontrivial");
        r.inc("error_runs");
        r.inc("states");
        r.add("transitions", 3 * c.input.iter().map(Vec::len).sum::<usize>() as u64);
        let bad_shard = c.err_at.map(|x| x.0).or(c.overlong.map(|x| x.0)).unwrap();
        for h in 0..3 {
            match &o[h][bad_shard] {
                Out::Ok(v) => r.violation(
                    &format!("reshard:error-swallowed:{}", if c.err_at.is_some() { "input-error" } else { "overlong-stream" }),
                    &format!("helper {h} shard {bad_shard} returned Ok({v:?}) although its input stream {}", if c.err_at.is_some() { "yielded an error item" } else { "produced more records than its size hint" }),
                    json!({"part":"grid","case":case_json(c)}),
                ),
                Out::Err(e) if c.overlong.is_some() && !e.contains("RecordIdOutOfRange") => r.note(format!("overlong stream failed with {e}")),
                _ => {}
            }
        }
    }
    // ---- transport faults on shard-to-shard streams ------------------------------------------------------
    let tcase = Case19 { shards: 3, input: inputs(9, 3, 0), picker: Picker::ByValue, err_at: None, overlong: None, countdown: false, pending_before: Vec::new(), seed: seed + 63 };
    let tcase2 = Case19 { shards: 2, input: inputs(4, 2, 1), picker: Picker::AllTo(1), err_at: None, overlong: None, countdown: false, pending_before: Vec::new(), seed: seed + 64 };
    for tc in [&tcase, &tcase2] {
        // census of shard messages
        let seen: Arc<Mutex<Vec<(usize, u32, u32, String, usize)>>> = Arc::new(Mutex::new(Vec::new()));
        let s2 = Arc::clone(&seen);
        let census: DynStreamInterceptor = Arc::new(move |ctx: &InspectContext, data: &mut Vec<u8>| {
            if let InspectContext::ShardMessage { helper, source, dest, gate } = ctx {
                let h = crate::helpers::HelperIdentity::make_three().iter().position(|x| x == helper).unwrap();
                s2.lock().unwrap().push((h, u32::from(*source), u32::from(*dest), gate.as_ref().to_string(), data.len()));
            }
        });
        let _ = rt.block_on(dispatch(tc, census, Duration::from_secs(30), Duration::from_secs(3)));
        let chans: Vec<(usize, u32, u32, String, usize)> = seen.lock().unwrap().iter().filter(|x| x.4 >= 4).cloned().collect();
        r.add("shard_channels_in_census", chans.len() as u64);
        let want = reference(tc);
        let runs: Vec<(usize, u32, u32, usize, Outputs, u64)> = rt.block_on(async {
            futures::future::join_all(chans.iter().enumerate().flat_map(|(ci, (h, src, dst, gate, len))| {
                // make the record at each 4-byte slot undecodable (>= the prime)
                (0..len / 4).map(move |slot| (ci, *h, *src, *dst, gate.clone(), slot))
            }).map(|(_ci, h, src, dst, gate, slot)| {
                let fired = Arc::new(AtomicU64::new(0));
                let f2 = Arc::clone(&fired);
                let icp: DynStreamInterceptor = Arc::new(move |ctx: &InspectContext, data: &mut Vec<u8>| {
                    if let InspectContext::ShardMessage { helper, source, dest, gate: g } = ctx {
                        let hh = crate::helpers::HelperIdentity::make_three().iter().position(|x| x == helper).unwrap();
                        if hh == h && u32::from(*source) == src && u32::from(*dest) == dst && g.as_ref() == gate && data.len() >= 4 * (slot + 1) && f2.load(Ordering::SeqCst) == 0 {
                            data[4 * slot..4 * slot + 4].copy_from_slice(&[0xff; 4]);
                            f2.fetch_add(1, Ordering::SeqCst);
                        }
                    }
                });
                async move {
                    let o = dispatch(tc, icp, Duration::from_secs(10), Duration::from_millis(1200)).await;
                    (h, src, dst, slot, o, fired.load(Ordering::SeqCst))
                }
            }))
            .await
        });
        for (h, src, dst, slot, o, fired) in runs {
            r.inc("evaluations");
            if fired == 0 {
                continue;
            }
            r.inc("distinct_nontrivial");
            r.inc("transport_faults");
            r.inc("states");
            r.add("transitions", 3 * tc.input.iter().map(Vec::len).sum::<usize>() as u64);
            match &o[h][dst as usize] {
                Out::Ok(v) => {
                    let what = if *v == want[dst as usize] { "the complete vector".to_string() } else { format!("{v:?} instead of {:?} — a record was dropped", want[dst as usize]) };
                    r.violation(
                        "reshard:transport-error-swallowed",
                        &format!("helper {h}: record slot {slot} of the stream from shard {src} to shard {dst} was made undecodable; shard {dst} returned Ok with {what}"),
                        json!({"part":"grid","case":case_json(tc),"fault":{"helper":h,"source":src,"dest":dst,"slot":slot}}),
                    );
                }
                _ => r.inc("transport_faults_failed_loudly"),
            }
        }
    }
    r.sample(json!({"case":case_json(&cases[cases.len() / 2]),"reference":reference(&cases[cases.len() / 2]).iter().map(|v| v.iter().map(|x| *x as u64).collect::<Vec<_>>()).collect::<Vec<_>>()}));
    r.flag("exhaustive", true);
    r.finish();
}
