// C04 (MAC relation): every linear operation on MAC-protected shares keeps the relation "second
// component = r * first component" (otherwise an honest execution fails its own validation), and the
// MAC key r of one validation batch is unrelated to the key of the next (validating a batch opens its
// key; a key shared with a later batch lets the helper that learnt it forge that batch).
// (module path: crate::verif::c04m; config A)

use futures::future::try_join_all;
use serde_json::json;

use super::common::{self, Report};
use crate::{
    error::Error,
    ff::{Field, Fp31, Fp32BitPrime, U128Conversions},
    protocol::{
        RecordId,
        context::{Context, UpgradableContext, UpgradedContext, Validator, upgrade::Upgradable},
    },
    secret_sharing::replicated::{
        ReplicatedSecretSharing,
        malicious::{AdditiveShare as MacShare, ExtendableField, ThisCodeIsAuthorizedToDowngradeFromMalicious},
        semi_honest::AdditiveShare,
    },
    test_fixture::{Runner, TestWorld, TestWorldConfig},
};

fn world(seed: u64, active: usize) -> TestWorld {
    let mut config = TestWorldConfig::default();
    config.seed = seed;
    config.gateway_config.active = active.try_into().unwrap();
    TestWorld::new_with(&config)
}

const OPS: [&str; 12] = ["a+b", "a+&b", "&a+b", "a-b", "a-&b", "&a-&b", "-a", "a+=b", "a+=&b", "a-=b", "a-=&b", "a*c"];

macro_rules! relation_arm {
    ($fname:ident, $F:ty) => {
        /// per helper: for every (pair, op): (x left, x right, rx left, rx right) and the r share
        async fn $fname(pairs: Vec<($F, $F)>, c: $F, seed: u64) -> [Result<(Vec<Vec<(u128, u128, u128, u128)>>, Vec<(u128, u128)>), Error>; 3] {
            let n = pairs.len();
            let w = world(seed, 32);
            w.malicious(pairs.into_iter(), move |ctx, shares: Vec<(AdditiveShare<$F>, AdditiveShare<$F>)>| async move {
                let v = ctx.set_total_records(n).validator::<$F>();
                let m_ctx = v.context();
                // the key of the batch every record belongs to
                let r_shares: Vec<(u128, u128)> = (0..n).map(|i| { let s = m_ctx.clone().r(RecordId::from(i)); (s.left().as_u128(), s.right().as_u128()) }).collect();
                let per = try_join_all(shares.into_iter().enumerate().map(|(i, (a, b))| {
                    let m_ctx = m_ctx.clone();
                    async move {
                        let rid = RecordId::from(i);
                        let (a, b): (MacShare<$F>, MacShare<$F>) = (a, b).upgrade(m_ctx.clone(), rid).await?;
                        m_ctx.validate_record(rid).await?;
                        let mut outs: Vec<MacShare<$F>> = Vec::new();
                        outs.push(a.clone() + b.clone());
                        outs.push(a.clone() + &b);
                        outs.push(&a + b.clone());
                        outs.push(a.clone() - b.clone());
                        outs.push(a.clone() - &b);
                        outs.push(&a - &b);
                        outs.push(-a.clone());
                        let mut t = a.clone();
                        t += b.clone();
                        outs.push(t);
                        let mut t = a.clone();
                        t += &b;
                        outs.push(t);
                        let mut t = a.clone();
                        t -= b.clone();
                        outs.push(t);
                        let mut t = a.clone();
                        t -= &b;
                        outs.push(t);
                        outs.push(a.clone() * c);
                        Ok::<_, Error>(outs.iter().map(|m| {
                            let x = m.x().access_without_downgrade();
                            (x.left().as_u128(), x.right().as_u128(), m.rx().left().as_u128(), m.rx().right().as_u128())
                        }).collect::<Vec<_>>())
                    }
                }))
                .await?;
                Ok((per, r_shares))
            })
            .await
        }
    };
}
relation_arm!(relation_fp31, Fp31);
relation_arm!(relation_fp32, Fp32BitPrime);

fn check_relation(r: &mut Report, name: &str, p: u128, ext_p: u128, pairs: &[(u128, u128)], c: u128, out: [Result<(Vec<Vec<(u128, u128, u128, u128)>>, Vec<(u128, u128)>), Error>; 3]) {
    let [Ok(a), Ok(b), Ok(cc)] = out else {
        r.violation(&format!("mac:linear-op:{name}:failed"), "the honest run failed", json!({"part":"relation"}));
        return;
    };
    for (i, (x, y)) in pairs.iter().enumerate() {
        let rr = (a.1[i].0 + b.1[i].0 + cc.1[i].0) % ext_p;
        for (oi, op) in OPS.iter().enumerate() {
            r.inc("evaluations");
            r.inc("distinct_nontrivial");
            r.inc("mac_relation_cases");
            let xs = (a.0[i][oi].0 + b.0[i][oi].0 + cc.0[i][oi].0) % p;
            let rx = (a.0[i][oi].2 + b.0[i][oi].2 + cc.0[i][oi].2) % ext_p;
            let want_x = match *op {
                "a+b" | "a+&b" | "&a+b" | "a+=b" | "a+=&b" => (x + y) % p,
                "a-b" | "a-&b" | "&a-&b" | "a-=b" | "a-=&b" => (x + p - y) % p,
                "-a" => (p - x) % p,
                _ => (x * c) % p,
            };
            // consistency of the replicated copies
            let ok_copies = a.0[i][oi].1 == b.0[i][oi].0 && b.0[i][oi].1 == cc.0[i][oi].0 && cc.0[i][oi].1 == a.0[i][oi].0 && a.0[i][oi].3 == b.0[i][oi].2 && b.0[i][oi].3 == cc.0[i][oi].2 && cc.0[i][oi].3 == a.0[i][oi].2;
            if xs != want_x || rx != (rr * (want_x % ext_p)) % ext_p || !ok_copies {
                r.violation(
                    &format!("mac:linear-op:{name}:{op}"),
                    &format!("a = {x}, b = {y}, c = {c}: {op} holds value {xs} (expected {want_x}) with MAC {rx}, r * value = {} (r = {rr}); copies consistent: {ok_copies}", (rr * (want_x % ext_p)) % ext_p),
                    json!({"part":"relation","field":name,"op":op,"a":x.to_string(),"b":y.to_string()}),
                );
                return;
            }
        }
    }
}

/// the MAC keys of consecutive validation batches (window of 4 records, 12 records = 3 batches)
async fn batch_keys(seed: u64) -> [Result<Vec<(u128, u128)>, Error>; 3] {
    let w = world(seed, 4);
    let inputs: Vec<Fp32BitPrime> = (0..12u128).map(Fp32BitPrime::truncate_from).collect();
    w.malicious(inputs.into_iter(), |ctx, shares: Vec<AdditiveShare<Fp32BitPrime>>| async move {
        let v = ctx.set_total_records(12).validator::<Fp32BitPrime>();
        let m_ctx = v.context();
        let keys: Vec<(u128, u128)> = (0..12usize).map(|i| { let s = m_ctx.clone().r(RecordId::from(i)); (s.left().as_u128(), s.right().as_u128()) }).collect();
        // use every record so that the validator is in a clean state when it is dropped
        try_join_all(shares.into_iter().enumerate().map(|(i, s)| {
            let m_ctx = m_ctx.clone();
            async move {
                let rid = RecordId::from(i);
                let _m = s.upgrade(m_ctx.clone(), rid).await?;
                m_ctx.validate_record(rid).await
            }
        }))
        .await?;
        Ok(keys)
    })
    .await
}

#[test]
fn run() {
    let mut r = Report::new("C04");
    let rt = tokio::runtime::Builder::new_multi_thread().worker_threads(4).enable_time().build().unwrap();
    let seed = common::seed() + 440;
    // Fp31: all pairs of a 9-value alphabet; Fp32BitPrime: boundary alphabet
    let al31: Vec<u128> = vec![0, 1, 2, 15, 16, 29, 30, 7, 23];
    let pairs31: Vec<(u128, u128)> = al31.iter().flat_map(|a| al31.iter().map(move |b| (*a, *b))).collect();
    let out = rt.block_on(relation_fp31(pairs31.iter().map(|(a, b)| (Fp31::truncate_from(*a), Fp31::truncate_from(*b))).collect(), Fp31::truncate_from(17u128), seed));
    let ext31 = u128::from(<<Fp31 as ExtendableField>::ExtendedField as crate::ff::PrimeField>::PRIME);
    check_relation(&mut r, "Fp31", 31, ext31, &pairs31, 17, out);
    let p32 = u128::from(<Fp32BitPrime as crate::ff::PrimeField>::PRIME);
    let al32: Vec<u128> = vec![0, 1, p32 - 1, p32 / 2, 65_537, 0xdead_beef % p32];
    let pairs32: Vec<(u128, u128)> = al32.iter().flat_map(|a| al32.iter().map(move |b| (*a, *b))).collect();
    let out = rt.block_on(relation_fp32(pairs32.iter().map(|(a, b)| (Fp32BitPrime::truncate_from(*a), Fp32BitPrime::truncate_from(*b))).collect(), Fp32BitPrime::truncate_from(p32 - 2), seed + 1));
    check_relation(&mut r, "Fp32BitPrime", p32, p32, &pairs32, p32 - 2, out);
    // batch keys
    for s in 0..3u64 {
        r.inc("evaluations");
        match rt.block_on(batch_keys(seed + 10 + s)) {
            [Ok(a), Ok(b), Ok(c)] => {
                let keys: Vec<u128> = (0..12).map(|i| (a[i].0 + b[i].0 + c[i].0) % p32).collect();
                r.inc("batch_key_runs");
                for i in 0..12 {
                    for j in 0..i {
                        let same_batch = i / 4 == j / 4;
                        if same_batch && keys[i] != keys[j] {
                            r.violation("mac:batch-key:differs-inside-batch", &format!("records {j} and {i} of one batch are protected by different keys"), json!({"part":"relation","seed":seed + 10 + s}));
                        }
                        if !same_batch && keys[i] == keys[j] {
                            r.violation("mac:batch-key:shared-between-batches", &format!("records {j} (batch {}) and {i} (batch {}) are protected by the same MAC key: validating the earlier batch opens the key of the later one", j / 4, i / 4), json!({"part":"relation","seed":seed + 10 + s}));
                        }
                    }
                }
                r.add("distinct_nontrivial", 66);
            }
            _ => r.violation("mac:batch-key:failed", "the honest run failed", json!({"part":"relation"})),
        }
    }
    r.sample(json!({"ops":OPS,"oracle":"MAC component == r * value after every linear operation; keys of different batches differ"}));
    r.flag("exhaustive", true);
    r.finish();
}
