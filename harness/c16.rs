// C16 / E1: Batcher — every arrival order of validate_record calls, every order of batch
// completion, every verdict vector, against a reference model; plus misuse histories.
// (module path: crate::protocol::context::verif::c16; config A)

use std::{
    future::Future,
    pin::Pin,
    sync::{Arc, Mutex as StdMutex},
    task::{Context, Poll, Waker},
};

use serde_json::json;

use super::super::batcher::Batcher;
use crate::{
    error::Error,
    protocol::RecordId,
    verif::{
        common::{self, Report},
        explore::{self, Choices, MiniExec},
    },
};

#[derive(Default)]
struct Sh {
    /// verdict of batch b once fired
    fired: Vec<Option<bool>>,
    wakers: Vec<Option<Waker>>,
    /// (batch index, contents) per closure invocation
    calls: Vec<(usize, Vec<usize>)>,
    /// which record's call ran the closure for batch b
    waiting: Vec<bool>,
}

struct BatchGate {
    b: usize,
    sh: Arc<StdMutex<Sh>>,
}

impl Future for BatchGate {
    type Output = Result<(), Error>;
    fn poll(self: Pin<&mut Self>, cx: &mut Context<'_>) -> Poll<Self::Output> {
        let mut s = self.sh.lock().unwrap();
        match s.fired[self.b] {
            Some(true) => Poll::Ready(Ok(())),
            Some(false) => Poll::Ready(Err(Error::DZKPValidationFailed)),
            None => {
                s.waiting[self.b] = true;
                s.wakers[self.b] = Some(cx.waker().clone());
                Poll::Pending
            }
        }
    }
}

#[derive(Clone, Copy, Debug)]
pub struct Cfg16 {
    pub rpb: usize,
    pub total: usize,
    /// records are pushed into the batch (get_batch) at call time
    pub push: bool,
    /// woken waits are polled to quiescence (in task order) after every event instead of being
    /// interleaved freely; sound because polls of distinct waits commute (each reads only its own
    /// watch receiver / gate) — the free-interleaving mode is explored for the small configurations
    pub eager: bool,
}

#[derive(Default)]
pub struct Obs16 {
    pub arrival_orders: std::collections::BTreeSet<String>,
    pub fire_orders: std::collections::BTreeSet<String>,
    pub out_of_order_batches: u64,
}

fn nbatches(c: Cfg16) -> usize {
    c.total.div_ceil(c.rpb)
}

pub fn run_one(c: Cfg16, cx: &mut Choices, obs: &mut Obs16) -> Result<(), String> {
    let nb = nbatches(c);
    let sh = Arc::new(StdMutex::new(Sh {
        fired: vec![None; nb + 2],
        wakers: (0..nb + 2).map(|_| None).collect(),
        calls: Vec::new(),
        waiting: vec![false; nb + 2],
    }));
    let batcher = Batcher::new(c.rpb, c.total, Box::new(|_| Vec::<usize>::new()));
    let results: Arc<StdMutex<Vec<Option<Result<(), String>>>>> = Arc::new(StdMutex::new(vec![None; c.total]));
    let mut ex = MiniExec::new();
    let mut arrived = vec![false; c.total];
    let mut task_of: Vec<Option<usize>> = vec![None; c.total];
    let mut arrival = Vec::new();
    let mut fire_order = Vec::new();
    let mut checked_done = vec![false; c.total];
    loop {
        if c.eager {
            while let Some(t) = ex.woken().first().copied() {
                ex.poll(t);
            }
        }
        let woken = if c.eager { Vec::new() } else { ex.woken() };
        let to_arrive: Vec<usize> = (0..c.total).filter(|i| !arrived[*i]).collect();
        let fireable: Vec<usize> = {
            let s = sh.lock().unwrap();
            (0..nb).filter(|b| s.waiting[*b] && s.fired[*b].is_none()).collect()
        };
        let options = woken.len() + to_arrive.len() + fireable.len();
        if options == 0 {
            break;
        }
        let mut pick = cx.choose(options);
        if pick < woken.len() {
            ex.poll(woken[pick]);
        } else if {
            pick -= woken.len();
            pick < to_arrive.len()
        } {
            let i = to_arrive[pick];
            arrived[i] = true;
            arrival.push(i);
            let sh2 = Arc::clone(&sh);
            let fut = {
                let mut b = batcher.lock().unwrap();
                if c.push {
                    b.get_batch(RecordId::from(i)).batch.push(i);
                }
                b.validate_record(RecordId::from(i), move |bi, batch: Vec<usize>| {
                    sh2.lock().unwrap().calls.push((bi, batch));
                    BatchGate { b: bi, sh: sh2 }
                })
            };
            let res = Arc::clone(&results);
            task_of[i] = Some(ex.spawn(async move {
                let r = fut.await;
                res.lock().unwrap()[i] = Some(r.map_err(|e| format!("{e:?}")));
            }));
        } else {
            pick -= to_arrive.len();
            let b = fireable[pick];
            let verdict = cx.choose(2) == 0;
            fire_order.push(b);
            let w = {
                let mut s = sh.lock().unwrap();
                s.fired[b] = Some(verdict);
                s.wakers[b].take()
            };
            if let Some(w) = w {
                w.wake();
            }
        }
        // safety: a completed wait implies its whole batch arrived and the batch check ran
        let res = results.lock().unwrap();
        let s = sh.lock().unwrap();
        for i in 0..c.total {
            if let (Some(r), false) = (&res[i], checked_done[i]) {
                checked_done[i] = true;
                let b = i / c.rpb;
                let members: Vec<usize> = (b * c.rpb..((b + 1) * c.rpb).min(c.total)).collect();
                if !members.iter().all(|m| arrived[*m]) {
                    return Err(format!("record {i} was released ({r:?}) before all of batch {b} {members:?} requested validation; arrived {arrival:?}"));
                }
                let Some(verdict) = s.fired[b] else {
                    return Err(format!("record {i} was released ({r:?}) before the check of batch {b} completed"));
                };
                if r.is_ok() != verdict {
                    return Err(format!("record {i} of batch {b} got {r:?} but the batch verdict was {verdict}"));
                }
            }
        }
        if ex.polls > 5000 {
            return Err("livelock".into());
        }
    }
    // liveness + exactly-once
    let res = results.lock().unwrap();
    for i in 0..c.total {
        if res[i].is_none() {
            return Err(format!("record {i} never released although every record arrived and every batch was checked (arrival {arrival:?}, fired {fire_order:?})"));
        }
    }
    let s = sh.lock().unwrap();
    for b in 0..nb {
        let calls: Vec<&(usize, Vec<usize>)> = s.calls.iter().filter(|(bi, _)| *bi == b).collect();
        if calls.len() != 1 {
            return Err(format!("batch {b} was checked {} times (arrival {arrival:?})", calls.len()));
        }
        if c.push {
            let mut got = calls[0].1.clone();
            got.sort_unstable();
            let members: Vec<usize> = (b * c.rpb..((b + 1) * c.rpb).min(c.total)).collect();
            if got != members {
                return Err(format!("the check of batch {b} ran on contents {got:?}, expected {members:?} (arrival {arrival:?})"));
            }
        }
        // (which error value each record of a failed batch receives is not part of the property: every one
        // of them must fail, which the per-record check above already established)
    }
    if s.calls.len() != nb {
        return Err(format!("{} batch checks ran for {nb} batches", s.calls.len()));
    }
    if !batcher.lock().unwrap().is_empty() {
        return Err("batcher not empty after every batch was validated".into());
    }
    obs.arrival_orders.insert(format!("{arrival:?}"));
    obs.fire_orders.insert(format!("{fire_order:?}"));
    if fire_order.windows(2).any(|w| w[0] > w[1]) {
        obs.out_of_order_batches += 1;
    }
    Ok(())
}

/// Cancellation: every record of `total` arrives (any order), the waits are polled to quiescence, and
/// then the future that is running the check of batch `victim` is dropped before the check has a
/// verdict. The other records of that batch must never be released with success (the check did not
/// succeed): a panic, an error or a wait that stays pending are all loud enough. The other batches
/// are then checked with either verdict and must be released exactly as usual.
pub fn run_cancel(c: Cfg16, victim: usize, cx: &mut Choices) -> Result<(), String> {
    let nb = nbatches(c);
    let sh = Arc::new(StdMutex::new(Sh { fired: vec![None; nb + 2], wakers: (0..nb + 2).map(|_| None).collect(), calls: Vec::new(), waiting: vec![false; nb + 2] }));
    let runner: Arc<StdMutex<Vec<Option<usize>>>> = Arc::new(StdMutex::new(vec![None; nb + 2]));
    let batcher = Batcher::new(c.rpb, c.total, Box::new(|_| Vec::<usize>::new()));
    let results: Arc<StdMutex<Vec<Option<Result<(), String>>>>> = Arc::new(StdMutex::new(vec![None; c.total]));
    let mut ex = MiniExec::new();
    let mut task_of = vec![usize::MAX; c.total];
    let mut left: Vec<usize> = (0..c.total).collect();
    let mut arrival = Vec::new();
    let poll_all = |ex: &mut MiniExec, results: &Arc<StdMutex<Vec<Option<Result<(), String>>>>>, task_of: &Vec<usize>| {
        while let Some(t) = ex.woken().first().copied() {
            // a wait may panic when the check it depends on is gone: that is a loud outcome
            if let Err(p) = common::catch(std::panic::AssertUnwindSafe(|| ex.poll(t))) {
                if let Some(i) = task_of.iter().position(|x| *x == t) {
                    results.lock().unwrap()[i] = Some(Err(format!("panic: {p}")));
                }
                ex.cancel(t);
            }
        }
    };
    while !left.is_empty() {
        let i = left.remove(cx.choose(left.len()));
        arrival.push(i);
        let (sh2, run2) = (Arc::clone(&sh), Arc::clone(&runner));
        let fut = {
            let mut b = batcher.lock().unwrap();
            b.get_batch(RecordId::from(i)).batch.push(i);
            b.validate_record(RecordId::from(i), move |bi, batch: Vec<usize>| {
                sh2.lock().unwrap().calls.push((bi, batch));
                run2.lock().unwrap()[bi] = Some(i);
                BatchGate { b: bi, sh: sh2 }
            })
        };
        let res = Arc::clone(&results);
        task_of[i] = ex.spawn(async move {
            let r = fut.await;
            res.lock().unwrap()[i] = Some(r.map_err(|e| format!("{e:?}")));
        });
        poll_all(&mut ex, &results, &task_of);
    }
    let Some(rv) = runner.lock().unwrap()[victim] else {
        return Err(format!("no record ran the check of batch {victim} although all of its records arrived ({arrival:?})"));
    };
    if results.lock().unwrap()[rv].is_some() {
        return Err(format!("record {rv} was released before the check of batch {victim} had a verdict"));
    }
    ex.cancel(task_of[rv]);
    poll_all(&mut ex, &results, &task_of);
    // the remaining batches get their verdicts in any order
    let mut verdicts = vec![None; nb];
    loop {
        let fireable: Vec<usize> = {
            let s = sh.lock().unwrap();
            (0..nb).filter(|b| *b != victim && s.waiting[*b] && s.fired[*b].is_none()).collect()
        };
        if fireable.is_empty() {
            break;
        }
        let b = fireable[cx.choose(fireable.len())];
        let verdict = cx.choose(2) == 0;
        verdicts[b] = Some(verdict);
        let w = {
            let mut s = sh.lock().unwrap();
            s.fired[b] = Some(verdict);
            s.wakers[b].take()
        };
        if let Some(w) = w {
            w.wake();
        }
        poll_all(&mut ex, &results, &task_of);
    }
    let res = results.lock().unwrap();
    for i in 0..c.total {
        let b = i / c.rpb;
        if b == victim {
            if i != rv && matches!(res[i], Some(Ok(()))) {
                return Err(format!(
                    "record {i} of batch {b} was released with success although the check of its batch never produced a verdict (the future of record {rv}, which was running it, was dropped); arrival {arrival:?}"
                ));
            }
        } else {
            match (&res[i], verdicts[b]) {
                (Some(r), Some(v)) if r.is_ok() == v => {}
                (r, v) => return Err(format!("record {i} of batch {b} got {r:?}, its batch verdict was {v:?}, after the check of batch {victim} was cancelled (arrival {arrival:?})")),
            }
        }
    }
    Ok(())
}

/// Misuse histories: after records `0..k` arrived in order (batches checked successfully as they
/// complete), the extra call `validate_record(x)` must be loud: a panic, or a future resolving to
/// an error — never Ok and never a wait that can not complete.
fn misuse(c: Cfg16, k: usize, x: usize) -> Result<&'static str, String> {
    let batcher = Batcher::new(c.rpb, c.total, Box::new(|_| Vec::<usize>::new()));
    let mut ex = MiniExec::new();
    for i in 0..k {
        let fut = batcher.lock().unwrap().validate_record(RecordId::from(i), |_, _| async { Ok(()) });
        ex.spawn(async move {
            let _ = fut.await;
        });
        while let Some(t) = ex.woken().first().copied() {
            ex.poll(t);
        }
    }
    let legit = x < c.total && x >= k;
    let r = common::catch(|| {
        let fut = batcher.lock().unwrap_or_else(|e| e.into_inner()).validate_record(RecordId::from(x), |_, _| async { Ok(()) });
        let out: Arc<StdMutex<Option<Result<(), Error>>>> = Arc::new(StdMutex::new(None));
        let o2 = Arc::clone(&out);
        let mut ex2 = MiniExec::new();
        let id = ex2.spawn(async move {
            *o2.lock().unwrap() = Some(fut.await);
        });
        let mut n = 0;
        while !ex2.is_done(id) && !ex2.woken().is_empty() && n < 100 {
            ex2.poll(id);
            n += 1;
        }
        let v = out.lock().unwrap().take();
        v.map(|r| r.map_err(|e| format!("{e:?}")))
    });
    match (legit, r) {
        (true, Ok(_)) => Ok("legit"),
        (true, Err(p)) => Err(format!("a valid first request for record {x} after records 0..{k} panicked: {p}")),
        (false, Err(_)) => Ok("panic"),
        (false, Ok(Some(Err(_)))) => Ok("error"),
        (false, Ok(Some(Ok(())))) => Err(format!("misuse accepted: validate_record({x}) after records 0..{k} (total {}) returned Ok", c.total)),
        (false, Ok(None)) => Err(format!("misuse silently accepted: validate_record({x}) after records 0..{k} (total {}, {} per batch) neither failed nor panicked — it waits forever", c.total, c.rpb)),
    }
}

fn cfg_json(c: Cfg16) -> serde_json::Value {
    json!({"rpb":c.rpb,"total":c.total,"push":c.push,"eager":c.eager})
}

#[test]
fn run() {
    let mut r = Report::new("C16");
    if let Some(rep) = common::replay_arg() {
        let v = &rep["config"];
        let c = Cfg16 { rpb: v["rpb"].as_u64().unwrap() as usize, total: v["total"].as_u64().unwrap() as usize, push: v["push"].as_bool().unwrap_or(true), eager: v["eager"].as_bool().unwrap_or(false) };
        r.add("states", 1);
        r.add("transitions", 1);
        if let Some(m) = rep.get("misuse").and_then(|m| m.as_array()) {
            if let Err(e) = misuse(c, m[0].as_u64().unwrap() as usize, m[1].as_u64().unwrap() as usize) {
                r.violation("batcher:replay", &e, rep.clone());
            }
        } else if let Some(victim) = rep.get("cancel_victim").and_then(|v| v.as_u64()) {
            let trace: Vec<u32> = rep["choices"].as_array().unwrap().iter().map(|x| x.as_u64().unwrap() as u32).collect();
            if let Err(e) = explore::replay(&trace, |cx| run_cancel(c, victim as usize, cx)) {
                r.violation("batcher:replay", &e, rep.clone());
            }
        } else {
            let trace: Vec<u32> = rep["choices"].as_array().unwrap().iter().map(|x| x.as_u64().unwrap() as u32).collect();
            let mut obs = Obs16::default();
            if let Err(e) = explore::replay(&trace, |cx| run_one(c, cx, &mut obs)) {
                r.violation("batcher:replay", &e, rep.clone());
            }
        }
        r.finish();
        return;
    }
    let thorough = common::thorough();
    let max_total = if thorough { 7 } else { 6 };
    let mut cfgs = Vec::new();
    for rpb in 1..=4usize {
        for total in 1..=max_total {
            // keep the tree tractable: arrival permutations x interleaved polls
            let free_max = if thorough { if rpb == 1 { 4 } else { 5 } } else if rpb == 1 { 3 } else { 4 };
            if rpb == 1 && total > 5 && !thorough {
                continue;
            }
            cfgs.push(Cfg16 { rpb, total, push: true, eager: true });
            if total <= free_max {
                cfgs.push(Cfg16 { rpb, total, push: true, eager: false });
            }
        }
    }
    r.flag("exhaustive", true);
    let cap = if thorough { 60_000_000 } else { 6_000_000 };
    let results = common::par_map(cfgs.len(), common::ncpu(), |i| {
        let mut obs = Obs16::default();
        let st = explore::explore(0, cap, |cx| run_one(cfgs[i], cx, &mut obs));
        (st, obs)
    });
    for (i, (st, obs)) in results.into_iter().enumerate() {
        let c = cfgs[i];
        r.add("states", st.executions);
        r.add("evaluations", st.executions);
        r.add("transitions", st.choice_points);
        r.add("out_of_order_batch_completions", obs.out_of_order_batches);
        r.max("distinct_arrival_orders", obs.arrival_orders.len() as u64);
        r.max("distinct_fire_orders", obs.fire_orders.len() as u64);
        if c.rpb == 2 && c.total == 5 && c.eager {
            r.sample(json!({"config":cfg_json(c),"executions":st.executions,"arrival_orders":obs.arrival_orders.len(),"longest_choice_sequence":st.longest}));
        }
        if let Some(m) = st.machinery {
            r.machinery(&format!("{c:?}: {m}"));
        }
        if let Some((trace, e)) = st.failure {
            let kind = if e.contains("before") { "early-release" } else if e.contains("never released") { "stuck" } else if e.contains("checked") || e.contains("contents") { "exactly-once" } else if e.contains("panic") { "panic" } else { "verdict" };
            r.violation(&format!("batcher:{kind}:rpb{}-total{}", c.rpb, c.total), &e, json!({"part":"batcher","config":cfg_json(c),"choices":trace}));
        } else if !st.complete {
            r.flag("exhaustive", false);
            r.note(format!("{c:?}: cap hit after {} executions; arrival orders seen {}", st.executions, obs.arrival_orders.len()));
        }
    }
    // cancellation of the record that runs a batch's check
    for rpb in 2..=3usize {
        for total in [rpb, 2 * rpb, 2 * rpb + 1] {
            let c = Cfg16 { rpb, total, push: true, eager: true };
            for victim in 0..total / rpb {
                let st = explore::explore(0, cap, |cx| run_cancel(c, victim, cx));
                r.add("states", st.executions);
                r.add("evaluations", st.executions);
                r.add("transitions", st.choice_points);
                r.add("cancellation_executions", st.executions);
                if let Some(m) = st.machinery {
                    r.machinery(&format!("cancel {c:?}: {m}"));
                }
                if let Some((trace, e)) = st.failure {
                    r.violation(&format!("batcher:cancelled-check:rpb{rpb}-total{total}"), &e, json!({"part":"batcher","config":cfg_json(c),"cancel_victim":victim,"choices":trace}));
                }
            }
        }
    }
    // misuse histories
    let mut kinds = std::collections::BTreeMap::new();
    for rpb in 1..=4usize {
        for total in 1..=9usize {
            let c = Cfg16 { rpb, total, push: false, eager: true };
            for k in 0..=total {
                for x in 0..=(total + 2 * rpb + 1) {
                    r.inc("misuse_histories");
                    r.inc("evaluations");
                    match misuse(c, k, x) {
                        Ok(kind) => *kinds.entry(kind).or_insert(0u64) += 1,
                        Err(e) => {
                            let what = if x >= total { "beyond-total" } else { "repeat" };
                            r.violation(&format!("batcher:misuse-{what}:rpb{rpb}-total{total}"), &e, json!({"part":"batcher","config":cfg_json(c),"misuse":[k,x]}));
                        }
                    }
                }
            }
        }
    }
    for (k, v) in kinds {
        r.add(&format!("misuse_outcome_{k}"), v);
    }
    r.finish();
}
