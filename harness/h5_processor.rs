// Hook H5 (ipa-core/src/query/processor.rs): `Processor.queries` is private; the harness injects
// a `QueryState::Running` whose completion it controls, exactly as the module's own unit tests do.

#[cfg(all(not(feature = "shuttle"), feature = "descriptive-gate"))]
mod c18 {
    include!(concat!(env!("IPA_VERIF_DIR"), "/c18.rs"));
}
