// Hook H8 (ipa-core/src/net/mod.rs): `http_serde`, `server` and `test` are private modules of `net`.

#[cfg(all(not(feature = "shuttle"), feature = "descriptive-gate"))]
pub(crate) mod c09q {
    include!(concat!(env!("IPA_VERIF_DIR"), "/c09q.rs"));
}
