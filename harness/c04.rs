// C04 / E3: MAC-protected arithmetic. Driver D1: upgrade, multiply, validate_record and open over
// Fp31 / Fp32BitPrime (scalar); driver D2: the vectorised pseudonym evaluation eval_dy_prf over
// Fp25519 (16 lanes). Census of every helper-to-helper channel x corrupt helper x additive
// faults on every element (and cross-lane cancelling pairs for the vectorised driver).
// (module path: crate::verif::c04; config A)

use std::{collections::BTreeMap, sync::atomic::Ordering, time::Duration};

use rand::{SeedableRng, rngs::StdRng};
use serde_json::json;

use super::{
    common::{self, Report},
    fault::{self, BoxFut, Census, Fault, FaultKind, Out},
};
use crate::helpers::in_memory_config::StreamInterceptor;
use crate::{
    ff::{Field, Fp31, Fp32BitPrime, PrimeField, Serializable, U128Conversions, ec_prime_field::Fp25519},
    helpers::in_memory_config::{DynStreamInterceptor, InspectContext},
    protocol::{
        RecordId,
        basics::{SecureMul, reveal},
        context::{Context, UpgradableContext, UpgradedContext, Validator, upgrade::Upgradable},
        ipa_prf::prf_eval::eval_dy_prf,
    },
    secret_sharing::{
        IntoShares, SharedValue, StdArray,
        replicated::{ReplicatedSecretSharing, malicious::ExtendableField, semi_honest::AdditiveShare},
    },
    test_fixture::{TestWorld, TestWorldConfig},
};

#[derive(Clone, Debug)]
pub struct Case4 {
    /// "fp31" | "fp32" | "prf1" | "prf16"
    pub driver: &'static str,
    pub records: usize,
    pub seed: u64,
}

/// per helper: opened values (u128 for the scalar drivers, pseudonyms for the PRF drivers)
type Outputs = Vec<Out<Vec<u128>>>;

/// per-record outcome markers of the scalar drivers (never field values: the fields are <= 32 bits)
const FAILED: u128 = u128::MAX;
const UNFINISHED: u128 = u128::MAX - 1;
/// the record's validation returned an error
const FAILED_VALIDATION: u128 = u128::MAX - 2;
/// the record's validation returned Ok, its opening did not finish
const VALIDATED_ONLY: u128 = u128::MAX - 3;
/// the record failed before it asked for validation (upgrade / multiplication)
const FAILED_EARLY: u128 = u128::MAX - 4;
const MARKERS: u128 = u128::MAX - 4;

fn marker_name(x: u128) -> String {
    match x {
        FAILED => "opening failed".to_string(),
        UNFINISHED => "unfinished".to_string(),
        FAILED_VALIDATION => "validation failed".to_string(),
        VALIDATED_ONLY => "validated, opening unfinished".to_string(),
        FAILED_EARLY => "failed before validation".to_string(),
        v => v.to_string(),
    }
}

fn inputs(c: &Case4) -> Vec<(u128, u128)> {
    (0..c.records).map(|i| (3 + 5 * i as u128, 7 + 11 * i as u128)).collect()
}

async fn scalar_world<F>(c: &Case4, interceptor: DynStreamInterceptor, overall: Duration, grace: Duration) -> Outputs
where
    F: ExtendableField + U128Conversions + IntoShares<AdditiveShare<F>>,
    AdditiveShare<F>: for<'a> Upgradable<crate::protocol::context::UpgradedMaliciousContext<'a, F>, Output = crate::secret_sharing::replicated::malicious::AdditiveShare<F>>,
{
    let mut config = TestWorldConfig::default();
    config.seed = c.seed;
    config.stream_interceptor = interceptor;
    config.timeout = None;
    let world = TestWorld::new_with(&config);
    let mut rng = StdRng::seed_from_u64(c.seed ^ 0xc04);
    let mut per_helper: [Vec<(AdditiveShare<F>, AdditiveShare<F>)>; 3] = std::array::from_fn(|_| Vec::new());
    for (a, b) in inputs(c) {
        let sa: [AdditiveShare<F>; 3] = F::truncate_from(a).share_with(&mut rng);
        let sb: [AdditiveShare<F>; 3] = F::truncate_from(b).share_with(&mut rng);
        for h in 0..3 {
            per_helper[h].push((sa[h].clone(), sb[h].clone()));
        }
    }
    let n = c.records;
    let mut futs: Vec<BoxFut<'_, Vec<u128>>> = Vec::new();
    for (ctx, inp) in world.malicious_contexts().into_iter().zip(per_helper) {
        futs.push(Box::pin(async move {
            let v = ctx.set_total_records(n).validator::<F>();
            let m_ctx = v.context();
            // every record runs to its own end: a record that fails (validation or opening) is
            // reported as FAILED, one that is still waiting 1.5 s after the first failure as UNFINISHED;
            // what the other records of the same run opened stays visible to the oracle
            use futures::StreamExt;
            let validated = std::sync::Arc::new(std::sync::Mutex::new(vec![false; n]));
            let mut pending: futures::stream::FuturesUnordered<_> = inp
                .into_iter()
                .enumerate()
                .map(|(i, (a, b))| {
                    let m_ctx = m_ctx.clone();
                    let v2 = std::sync::Arc::clone(&validated);
                    async move {
                        let rid = RecordId::from(i);
                        let stage = std::sync::atomic::AtomicU8::new(0);
                        let r = async {
                            let (am, bm) = (a, b).upgrade(m_ctx.clone(), rid).await?;
                            let prod = am.multiply(&bm, m_ctx.clone(), rid).await?;
                            stage.store(1, Ordering::SeqCst);
                            m_ctx.validate_record(rid).await?;
                            stage.store(2, Ordering::SeqCst);
                            v2.lock().unwrap()[i] = true;
                            let opened = reveal(m_ctx.narrow("verif-open"), rid, &prod).await?;
                            Ok::<_, crate::error::Error>(F::from_array(&opened).as_u128())
                        }
                        .await;
                        // which step failed
                        let r = r.map_err(|e| (stage.load(Ordering::SeqCst), e));
                        (i, r)
                    }
                })
                .collect();
            let mut res = vec![UNFINISHED; n];
            let mut deadline: Option<tokio::time::Instant> = None;
            loop {
                let next = match deadline {
                    Some(d) => match tokio::time::timeout_at(d, pending.next()).await {
                        Ok(x) => x,
                        Err(_) => break,
                    },
                    None => pending.next().await,
                };
                match next {
                    Some((i, Ok(v))) => res[i] = v,
                    Some((i, Err((stage, _)))) => {
                        res[i] = match stage { 0 => FAILED_EARLY, 1 => FAILED_VALIDATION, _ => FAILED };
                        deadline.get_or_insert(tokio::time::Instant::now() + Duration::from_millis(1500));
                    }
                    None => break,
                }
            }
            // abandoned waits may panic in their destructors
            let _ = std::panic::catch_unwind(std::panic::AssertUnwindSafe(move || drop(pending)));
            // a record that passed validation but whose opening did not finish
            for (i, v) in validated.lock().unwrap().iter().enumerate() {
                if *v && res[i] == UNFINISHED {
                    res[i] = VALIDATED_ONLY;
                }
            }
            Ok(res)
        }));
    }
    let out = fault::run_all(futs, overall, grace).await;
    drop(world);
    out
}

macro_rules! prf_world {
    ($name:ident, $N:literal) => {
        async fn $name(c: &Case4, interceptor: DynStreamInterceptor, overall: Duration, grace: Duration) -> Outputs {
    let mut config = TestWorldConfig::default();
    config.seed = c.seed;
    config.stream_interceptor = interceptor;
    config.timeout = None;
    let world = TestWorld::new_with(&config);
    let mut rng = StdRng::seed_from_u64(c.seed ^ 0xc04);
    let key: [AdditiveShare<Fp25519>; 3] = Fp25519::from(3_216_412_445u64).share_with(&mut rng);
    let mut per_helper: [Vec<AdditiveShare<Fp25519, $N>>; 3] = std::array::from_fn(|_| Vec::new());
    for rec in 0..c.records {
        let lanes: Vec<[AdditiveShare<Fp25519>; 3]> = (0..$N).map(|l| Fp25519::from((1000 + 17 * rec + l) as u64).share_with(&mut rng)).collect();
        for h in 0..3 {
            let l: StdArray<Fp25519, $N> = lanes.iter().map(|s| s[h].left()).collect();
            let r: StdArray<Fp25519, $N> = lanes.iter().map(|s| s[h].right()).collect();
            per_helper[h].push(AdditiveShare::new_arr(l, r));
        }
    }
    let n = c.records;
    let mut futs: Vec<BoxFut<'_, Vec<u128>>> = Vec::new();
    for ((ctx, inp), key) in world.malicious_contexts().into_iter().zip(per_helper).zip(key) {
        futs.push(Box::pin(async move {
            let v = ctx.set_total_records(n).validator::<Fp25519>();
            let m_ctx = v.context();
            let res = futures::future::try_join_all(inp.into_iter().enumerate().map(|(i, x)| eval_dy_prf::<_, $N>(m_ctx.clone(), RecordId::from(i), &key, x)))
                .await
                .map_err(|e| format!("{e:?}"))?;
            Ok(res.into_iter().flatten().map(u128::from).collect())
        }));
    }
    let out = fault::run_all(futs, overall, grace).await;
    drop(world);
    out
}
    };
}
prf_world!(prf_world_1, 1);
prf_world!(prf_world_16, 16);

async fn dispatch(c: &Case4, i: DynStreamInterceptor, overall: Duration, grace: Duration) -> Outputs {
    match c.driver {
        "fp31" => scalar_world::<Fp31>(c, i, overall, grace).await,
        "fp32" => scalar_world::<Fp32BitPrime>(c, i, overall, grace).await,
        "prf1" => prf_world_1(c, i, overall, grace).await,
        _ => prf_world_16(c, i, overall, grace).await,
    }
}

// ---- Fp25519-aware additive faults: composed with the generic interceptor through a wrapper ---------

type U256 = [u64; 4];
const ELL: U256 = [0x5812_631a_5cf5_d3ed, 0x14de_f9de_a2f7_9cd6, 0, 0x1000_0000_0000_0000];

fn u256_from(b: &[u8]) -> U256 {
    std::array::from_fn(|i| u64::from_le_bytes(b[i * 8..i * 8 + 8].try_into().unwrap()))
}
fn u256_to(a: U256, out: &mut [u8]) {
    for i in 0..4 {
        out[i * 8..i * 8 + 8].copy_from_slice(&a[i].to_le_bytes());
    }
}
fn ge(a: U256, b: U256) -> bool {
    for i in (0..4).rev() {
        if a[i] != b[i] {
            return a[i] > b[i];
        }
    }
    true
}
fn add(a: U256, b: U256) -> U256 {
    let mut r = [0u64; 4];
    let mut c = 0u128;
    for i in 0..4 {
        let s = u128::from(a[i]) + u128::from(b[i]) + c;
        r[i] = s as u64;
        c = s >> 64;
    }
    r
}
fn sub(a: U256, b: U256) -> U256 {
    let mut r = [0u64; 4];
    let mut borrow = 0i128;
    for i in 0..4 {
        let s = i128::from(a[i]) - i128::from(b[i]) - borrow;
        if s < 0 {
            r[i] = (s + (1i128 << 64)) as u64;
            borrow = 1;
        } else {
            r[i] = s as u64;
            borrow = 0;
        }
    }
    r
}
/// (v + e) mod l or (v - e) mod l for canonical v, small e
fn ell_shift(v: U256, e: u64, negate: bool) -> U256 {
    let ev = [e, 0, 0, 0];
    if negate {
        if ge(v, ev) { sub(v, ev) } else { sub(add(v, ELL), ev) }
    } else {
        let s = add(v, ev);
        if ge(s, ELL) { sub(s, ELL) } else { s }
    }
}

#[derive(Clone, Debug)]
pub struct LaneFault {
    pub base: Fault,
    /// (lane element index, negate)
    pub lanes: Vec<(usize, bool)>,
    pub e: u64,
}

fn lane_interceptor(f: LaneFault) -> (DynStreamInterceptor, std::sync::Arc<std::sync::atomic::AtomicU64>) {
    let changed = std::sync::Arc::new(std::sync::atomic::AtomicU64::new(0));
    let ch = std::sync::Arc::clone(&changed);
    let seen = std::sync::Arc::new(std::sync::atomic::AtomicU64::new(0));
    let (probe, _) = fault::census_interceptor();
    let _ = probe;
    let target = f.base.channel.clone();
    let ic = move |ctx: &InspectContext, data: &mut Vec<u8>| {
        let InspectContext::MpcMessage { shard, source, dest, gate } = ctx else { return };
        let ids = crate::helpers::HelperIdentity::make_three();
        let idx = |h: &crate::helpers::HelperIdentity| ids.iter().position(|x| x == h).unwrap();
        if shard.map(u32::from) != target.shard || idx(source) != target.source || idx(dest) != target.dest || gate.as_ref() != target.gate {
            return;
        }
        let k = seen.fetch_add(1, Ordering::SeqCst) as usize;
        if k != f.base.chunk {
            return;
        }
        for (lane, neg) in &f.lanes {
            let off = lane * 32;
            if off + 32 <= data.len() {
                let v = u256_from(&data[off..off + 32]);
                let nv = ell_shift(v, f.e, *neg);
                u256_to(nv, &mut data[off..off + 32]);
                ch.fetch_add(1, Ordering::SeqCst);
            }
        }
    };
    (std::sync::Arc::new(ic), changed)
}

#[derive(Clone, Debug)]
enum AnyFault {
    Plain(Fault),
    Lane(LaneFault),
    /// a two-message strategy: the same lane deltas on a multiplication message and on the
    /// corrupt helper's opening message to the other peer
    Multi(Vec<LaneFault>),
}

impl AnyFault {
    fn json(&self) -> serde_json::Value {
        match self {
            AnyFault::Plain(f) => f.to_json(),
            AnyFault::Lane(l) => {
                let mut v = l.base.to_json();
                v["kind"] = json!(format!("Fp25519 lanes {:?} e={}", l.lanes, l.e));
                v
            }
            AnyFault::Multi(ls) => {
                let mut v = ls[0].base.to_json();
                v["kind"] = json!(ls.iter().map(|l| format!("{} -> helper {}: Fp25519 lanes {:?} e={}", l.base.channel.gate, l.base.channel.dest, l.lanes, l.e)).collect::<Vec<_>>().join(" AND "));
                v
            }
        }
    }
    fn channel(&self) -> &fault::ChannelId {
        match self {
            AnyFault::Plain(f) => &f.channel,
            AnyFault::Lane(l) => &l.base.channel,
            AnyFault::Multi(ls) => &ls[0].base.channel,
        }
    }
    fn interceptor(&self) -> (DynStreamInterceptor, std::sync::Arc<std::sync::atomic::AtomicU64>) {
        match self {
            AnyFault::Plain(f) => fault::fault_interceptor(f.clone()),
            AnyFault::Lane(l) => lane_interceptor(l.clone()),
            AnyFault::Multi(ls) => {
                let parts: Vec<_> = ls.iter().map(|l| lane_interceptor(l.clone())).collect();
                let total = std::sync::Arc::new(std::sync::atomic::AtomicU64::new(0));
                let t2 = std::sync::Arc::clone(&total);
                let ic = move |ctx: &InspectContext, data: &mut Vec<u8>| {
                    let mut fired = 0;
                    for (p, ch) in &parts {
                        p.peek(ctx, data);
                        fired += u64::from(ch.load(Ordering::SeqCst) > 0);
                    }
                    // the later parts are only reached if the earlier deviation was not detected
                    t2.store(fired, Ordering::SeqCst);
                };
                (std::sync::Arc::new(ic), total)
            }
        }
    }
}

fn cases(seed: u64, thorough: bool) -> Vec<Case4> {
    let mut v = vec![
        Case4 { driver: "fp31", records: 1, seed: seed + 1 },
        Case4 { driver: "fp31", records: 3, seed: seed + 2 },
        Case4 { driver: "fp32", records: 2, seed: seed + 3 },
        Case4 { driver: "prf16", records: 1, seed: seed + 4 },
        Case4 { driver: "prf1", records: 2, seed: seed + 5 },
    ];
    if thorough {
        v.push(Case4 { driver: "fp31", records: 5, seed: seed + 6 });
        v.push(Case4 { driver: "fp32", records: 3, seed: seed + 7 });
        v.push(Case4 { driver: "prf16", records: 2, seed: seed + 8 });
        v.push(Case4 { driver: "fp31", records: 3, seed: seed + 9 });
        v.push(Case4 { driver: "prf16", records: 1, seed: seed + 10 });
    }
    v
}

fn faults_for(rt: &tokio::runtime::Runtime, c: &Case4, thorough: bool) -> Option<(Census, Outputs, Vec<AnyFault>)> {
    let census = |c: &Case4| -> (Census, Outputs) {
        let (i, cen) = fault::census_interceptor();
        let out = rt.block_on(dispatch(c, i, Duration::from_secs(60), Duration::from_secs(5)));
        let cc = cen.lock().unwrap().clone();
        (cc, out)
    };
    let (c1, o1) = census(c);
    let (c2, _) = census(c);
    if c1.channels != c2.channels {
        return None;
    }
    let mut faults = Vec::new();
    for (id, chunks) in &c1.channels {
        for (ci, (len, _)) in chunks.iter().enumerate() {
            let base = |kind: FaultKind| Fault { channel: id.clone(), chunk: ci, kind };
            match c.driver {
                "fp31" => {
                    // extended-field messages are 4 bytes wide (Fp32BitPrime); base-field ones 1 byte:
                    // enumerate both interpretations where the length allows
                    for elem in 0..*len {
                        let es: Vec<u128> = if thorough { (1..31).collect() } else { vec![1, 2, 15, 30] };
                        for e in es {
                            faults.push(AnyFault::Plain(base(FaultKind::Add { elem, width: 1, e, modulus: 31 })));
                        }
                    }
                    if len % 4 == 0 {
                        let p = u128::from(Fp32BitPrime::PRIME);
                        for elem in 0..len / 4 {
                            for e in [1, 2, p - 1, (p + 1) / 2] {
                                faults.push(AnyFault::Plain(base(FaultKind::Add { elem, width: 4, e, modulus: p })));
                            }
                        }
                    }
                }
                "fp32" => {
                    let p = u128::from(Fp32BitPrime::PRIME);
                    if len % 4 == 0 {
                        for elem in 0..len / 4 {
                            for e in [1, 2, p - 1, (p + 1) / 2] {
                                faults.push(AnyFault::Plain(base(FaultKind::Add { elem, width: 4, e, modulus: p })));
                            }
                        }
                    }
                }
                _ => {
                    if len % 32 == 0 {
                        let lanes = len / 32;
                        let pick: Vec<usize> = if thorough || lanes <= 4 { (0..lanes).collect() } else { vec![0, 1, lanes / 2, lanes - 1] };
                        for &l in &pick {
                            for e in [1u64, 2, 0xffff_ffff] {
                                faults.push(AnyFault::Lane(LaneFault { base: base(FaultKind::Zero), lanes: vec![(l, false)], e }));
                            }
                            faults.push(AnyFault::Lane(LaneFault { base: base(FaultKind::Zero), lanes: vec![(l, true)], e: 1 }));
                        }
                        // cross-lane cancelling pairs: +e in lane i, -e in lane j
                        if lanes >= 2 {
                            for (i, j) in [(0usize, 1usize), (1, 2 % lanes), (0, lanes - 1), (lanes / 2, lanes - 1)] {
                                if i != j {
                                    for e in [1u64, 12345] {
                                        faults.push(AnyFault::Lane(LaneFault { base: base(FaultKind::Zero), lanes: vec![(i, false), (j, true)], e }));
                                    }
                                }
                            }
                        }
                    } else {
                        for b in [0usize, len / 2, len - 1] {
                            faults.push(AnyFault::Plain(base(FaultKind::Xor { byte: b, mask: 1 })));
                        }
                    }
                }
            }
        }
    }
    // two-message strategies for the vectorised driver
    if c.driver == "prf16" {
        for corrupt in 0..3usize {
            let mult = c1.channels.keys().find(|k| k.source == corrupt && k.gate.ends_with("mult_mask_with_p_r_f_input"));
            let Some(mult) = mult else { continue };
            for open in c1.channels.keys().filter(|k| k.source == corrupt && k.gate.ends_with("revealz") && k.dest != mult.dest) {
                for (i, j) in [(1usize, 2usize), (0, 15), (7, 8)] {
                    for e in [1u64, 98765] {
                        for flip in [false, true] {
                            let a = LaneFault { base: Fault { channel: mult.clone(), chunk: 0, kind: FaultKind::Zero }, lanes: vec![(i, false), (j, true)], e };
                            let b = LaneFault { base: Fault { channel: open.clone(), chunk: 0, kind: FaultKind::Zero }, lanes: vec![(i, flip), (j, !flip)], e };
                            faults.push(AnyFault::Multi(vec![a, b]));
                        }
                    }
                }
            }
        }
    }
    Some((c1, o1, faults))
}

fn judge(c: &Case4, f: &AnyFault, honest: &Outputs, out: &Outputs, changed: u64) -> serde_json::Value {
    if changed == 0 {
        return json!({"class":"no-op"});
    }
    let corrupt = f.channel().source;
    let hs = [(corrupt + 1) % 3, (corrupt + 2) % 3];
    // record level (scalar drivers): whatever else failed, a value an honest helper did open must be the
    // untampered one
    // one verdict per validation batch (all records of these drivers are in one batch): if the validation
    // of some record failed on an honest helper, no record may have passed it there
    for h in hs {
        if let Out::Ok(got) = &out[h] {
            if got.contains(&FAILED_VALIDATION) {
                if let Some(i) = got.iter().position(|x| *x < MARKERS || *x == VALIDATED_ONLY || *x == FAILED) {
                    return json!({"class":"VIOLATION:validated-in-failed-batch","what":format!(
                        "driver {} ({} records): helper {corrupt} applied {} ; on honest helper {h} the MAC check of the batch failed, yet the validation of record {i} returned Ok (per record: {:?})",
                        c.driver, c.records, f.json()["kind"], got.iter().map(|x| marker_name(*x)).collect::<Vec<_>>())});
                }
            }
        }
    }
    // (not in the 31-element field: with probability 1/31 - for some seeds - the MAC key is 0, every
    // validation passes, and the statement only promises that *some* honest helper fails, which the
    // opening then does)
    if let (Some(want), true) = (honest[0].ok(), c.driver != "fp31") {
        for h in hs {
            if let Out::Ok(got) = &out[h] {
                for (i, g) in got.iter().enumerate() {
                    if *g < MARKERS && want.get(i) != Some(g) {
                        return json!({"class":"VIOLATION:deviation-accepted","what":format!(
                            "driver {} ({} records): helper {corrupt} applied {} ; honest helper {h} validated and opened {g} for record {i} instead of {:?} (other records of the run failed: {:?})",
                            c.driver, c.records, f.json()["kind"], want.get(i), got.iter().map(|x| marker_name(*x)).collect::<Vec<_>>())});
                    }
                }
            }
        }
    }
    if hs.iter().any(|h| !matches!(&out[*h], Out::Ok(v) if v.iter().all(|x| *x < MARKERS))) {
        let timeout_only = hs.iter().all(|h| matches!(&out[*h], Out::Timeout) || matches!(&out[*h], Out::Ok(v) if !v.contains(&FAILED) && !v.contains(&FAILED_VALIDATION) && !v.contains(&FAILED_EARLY)));
        return json!({"class": if timeout_only { "never-produces-output" } else { "rejected" }});
    }
    // both honest helpers opened values: they must be the untampered ones
    let want = honest[0].ok().cloned().unwrap_or_default();
    for h in hs {
        let got = out[h].ok().unwrap();
        if *got != want {
            return json!({"class":"VIOLATION:deviation-accepted","what":format!(
                "driver {} ({} records): helper {corrupt} applied {} ; honest helper {h} validated and opened {:?} instead of {:?}",
                c.driver, c.records, f.json()["kind"], got, want)});
        }
    }
    json!({"class":"harmless"})
}

fn child_main(rt: &tokio::runtime::Runtime, seed: u64, thorough: bool) {
    for (ci, c) in cases(seed, thorough).iter().enumerate() {
        let Some((lo, hi)) = fault::child_range(&format!("mac{ci}")) else { return };
        if lo == hi {
            continue;
        }
        let Some((_, honest, faults)) = faults_for(rt, c, thorough) else { return };
        let idxs: Vec<usize> = (lo..hi.min(faults.len())).collect();
        rt.block_on(async {
            for chunk in idxs.chunks(16) {
                futures::future::join_all(chunk.iter().map(|i| {
                    let f = faults[*i].clone();
                    let honest = &honest;
                    async move {
                        let (icp, changed) = f.interceptor();
                        let o = dispatch(c, icp, Duration::from_secs(10), Duration::from_millis(1200)).await;
                        fault::child_emit(*i, &judge(c, &f, honest, &o, changed.load(Ordering::SeqCst)));
                    }
                }))
                .await;
            }
        });
    }
}

#[test]
fn run() {
    let thorough = common::thorough();
    let rt = fault::runtime(4);
    let seed = common::seed();
    if fault::is_child() {
        child_main(&rt, seed, thorough);
        return;
    }
    let mut r = Report::new("C04");
    for (ci, c) in cases(seed, thorough).iter().enumerate() {
        let Some((census, honest, faults)) = faults_for(&rt, c, thorough) else {
            r.machinery(&format!("{c:?}: census not reproducible"));
            continue;
        };
        // honest executions always validate and open x*y
        r.inc("evaluations");
        r.inc("honest_runs");
        let expect: Vec<u128> = match c.driver {
            "fp31" => inputs(c).iter().map(|(a, b)| a * b % 31).collect(),
            "fp32" => inputs(c).iter().map(|(a, b)| a * b % u128::from(Fp32BitPrime::PRIME)).collect(),
            _ => Vec::new(),
        };
        for h in 0..3 {
            match &honest[h] {
                Out::Ok(v) => {
                    if !expect.is_empty() && *v != expect {
                        r.violation(&format!("mac:honest-wrong:{}", c.driver), &format!("helper {h} opened {v:?}, expected {expect:?}"), json!({"part":"mac","driver":c.driver,"records":c.records}));
                    }
                    if Some(v) != honest[0].ok() {
                        r.violation(&format!("mac:honest-disagree:{}", c.driver), &format!("helpers opened different values: {:?} vs {:?}", v, honest[0].ok()), json!({"part":"mac","driver":c.driver}));
                    }
                }
                o => r.violation(&format!("mac:honest-rejected:{}", c.driver), &format!("honest execution failed on helper {h}: {o:?}"), json!({"part":"mac","driver":c.driver,"records":c.records})),
            }
        }
        r.add("channels_in_census", census.channels.len() as u64);
        if std::env::var("VERIF_DEBUG").is_ok() {
            for (id, ch) in &census.channels {
                eprintln!("CENSUS {} {}->{} {} chunks={:?}", c.driver, id.source, id.dest, id.gate, ch.iter().map(|x| x.0).collect::<Vec<_>>());
            }
        }
        for id in census.channels.keys() {
            r.set("gates", id.gate.rsplit('/').next().unwrap_or("").to_string());
        }
        let res = fault::run_isolated("verif::c04::run", &format!("mac{ci}"), faults.len(), 32, Duration::from_secs(40), Duration::from_secs(12), common::ncpu().min(12));
        let mut hist: BTreeMap<String, u64> = BTreeMap::new();
        for (f, v) in faults.iter().zip(res) {
            r.inc("evaluations");
            let (class, what) = match &v {
                Some(v) => (v["class"].as_str().unwrap_or("?").to_string(), v["what"].as_str().unwrap_or("").to_string()),
                None => ("never-produces-output-killed".to_string(), String::new()),
            };
            if class != "no-op" {
                r.inc("distinct_nontrivial");
                if matches!(f, AnyFault::Multi(_)) {
                    r.inc("two_message_strategies");
                }
            }
            if let Some(kind) = class.strip_prefix("VIOLATION:") {
                let gate = f.channel().gate.rsplit('/').take(2).collect::<Vec<_>>().join("<");
                r.violation(&format!("mac:{kind}:{}:{gate}", c.driver), &what, json!({"part":"mac","driver":c.driver,"records":c.records,"seed":c.seed,"fault":f.json()}));
            } else {
                if class == "harmless" && c.driver != "fp31" {
                    // Unnoticed deviations are the 1/|F| event: with the 31-element test field (whose
                    // MAC key r is 0 for some seeds, which makes every error on w vanish) they occur, in
                    // the 32-bit and 255-bit fields they must not
                    let gate = f.channel().gate.rsplit('/').take(2).collect::<Vec<_>>().join("<");
                    r.violation(
                        &format!("mac:deviation-unnoticed:{}:{gate}", c.driver),
                        &format!("driver {} ({} records): helper {} applied {} and both honest helpers validated and opened the untampered values", c.driver, c.records, f.channel().source, f.json()["kind"]),
                        json!({"part":"mac","driver":c.driver,"records":c.records,"seed":c.seed,"fault":f.json()}),
                    );
                    continue;
                }
                if class == "harmless" {
                    r.set("harmless_deviations", format!("{}:{}:{}", c.driver, f.channel().gate.rsplit('/').take(2).collect::<Vec<_>>().join("<"), f.json()["kind"]));
                    if std::env::var("VERIF_VERBOSE").is_ok() {
                        eprintln!("harmless: {} {}", c.driver, f.json());
                    }
                }
                *hist.entry(class).or_default() += 1;
            }
        }
        for (k, v) in hist {
            r.add(&format!("tamper_{k}"), v);
        }
        if let Some(f) = faults.first() {
            r.sample(json!({"driver":c.driver,"records":c.records,"faults":faults.len(),"first_fault":f.json()}));
        }
    }
    r.flag("exhaustive", true);
    r.finish();
}

