// C09 (proof batches on the wire): a ProofBatch of every legal depth - the first proof plus 0 ..
// MAX_PROOF_RECURSION-1 compressed proofs - is sent to the left neighbour and received from the right
// one through the real channel type; what arrives must be the right neighbour's batch. A non-canonical
// field element (>= the prime) placed into any used slot of the message must make the receiver fail.
// (module path: crate::protocol::ipa_prf::verif::c09p; hook H7; config A)

use std::sync::{Arc, atomic::{AtomicU64, Ordering}};

use serde_json::json;

use super::super::{CompressedProofGenerator, FirstProofGenerator, validation_protocol::proof_generation::ProofBatch};
use crate::{
    ff::{Fp61BitPrime, PrimeField, U128Conversions},
    helpers::{Role, in_memory_config::{DynStreamInterceptor, InspectContext, passthrough}},
    protocol::{RecordId, context::{Context, dzkp_validator::MAX_PROOF_RECURSION}},
    test_fixture::{Runner, TestWorld, TestWorldConfig},
    verif::common::{self, Report},
};

fn batch(role: Role, compressed: usize) -> ProofBatch {
    let base = match role {
        Role::H1 => 1_000u128,
        Role::H2 => 2_000_000,
        Role::H3 => 3_000_000_000,
    };
    let p = u128::from(Fp61BitPrime::PRIME);
    let mut k = 0u128;
    let mut next = || {
        k += 1;
        // includes the largest canonical value
        Fp61BitPrime::truncate_from(if k % 7 == 0 { p - 1 } else { base * k + k })
    };
    ProofBatch { first_proof: std::array::from_fn(|_| next()), proofs: (0..compressed).map(|_| std::array::from_fn(|_| next())).collect() }
}

fn flat(b: &ProofBatch) -> Vec<u128> {
    b.first_proof.iter().chain(b.proofs.iter().flatten()).map(U128Conversions::as_u128).collect()
}

async fn exchange(compressed: usize, interceptor: DynStreamInterceptor) -> [Result<Vec<u128>, String>; 3] {
    let mut config = TestWorldConfig::default();
    config.seed = 909;
    config.stream_interceptor = interceptor;
    let world = TestWorld::new_with(&config);
    world
        .semi_honest((), |ctx, ()| async move {
            let mine = batch(ctx.role(), compressed);
            let len = mine.len();
            let c = ctx.narrow("proof-batch");
            let (s, r) = futures::future::join(mine.send_to_left(&c, RecordId::FIRST), ProofBatch::receive_from_right(&c, RecordId::FIRST, len)).await;
            s.map_err(|e| format!("send: {e:?}"))?;
            r.map(|b| flat(&b)).map_err(|e| format!("receive: {e:?}"))
        })
        .await
}

#[test]
fn run() {
    let mut r = Report::new("C09");
    let rt = tokio::runtime::Builder::new_multi_thread().worker_threads(4).enable_time().build().unwrap();
    let max_compressed = MAX_PROOF_RECURSION - 1;
    for compressed in 0..=max_compressed {
        r.inc("evaluations");
        r.inc("distinct_nontrivial");
        r.inc("proof_batch_depths");
        let key = format!("encoding:proof-batch:depth{}", compressed + 1);
        let res = common::catch(|| rt.block_on(exchange(compressed, passthrough())));
        match res {
            Err(p) => r.violation(&key, &format!("a proof batch of {} proofs ({} field elements) could not be exchanged: {p}", compressed + 1, FirstProofGenerator::PROOF_LENGTH + compressed * CompressedProofGenerator::PROOF_LENGTH), json!({"part":"proofs","compressed":compressed})),
            Ok(out) => {
                for (h, role) in Role::all().iter().enumerate() {
                    let right = Role::all()[(h + 1) % 3];
                    match &out[h] {
                        Ok(v) if *v == flat(&batch(right, compressed)) => {}
                        other => r.violation(&key, &format!("{role:?} received {:?} instead of the batch of {right:?}", other.as_ref().map(|v| v.len())), json!({"part":"proofs","compressed":compressed})),
                    }
                }
            }
        }
    }
    // non-canonical element in a used slot of the message
    let p = u128::from(Fp61BitPrime::PRIME);
    for compressed in [0usize, 1, max_compressed] {
        let used = FirstProofGenerator::PROOF_LENGTH + compressed * CompressedProofGenerator::PROOF_LENGTH;
        for slot in [0usize, used / 2, used - 1] {
            for bad in [p, p + 2, u128::from(u64::MAX)] {
                r.inc("evaluations");
                r.inc("distinct_nontrivial");
                r.inc("proof_batch_noncanonical");
                let fired = Arc::new(AtomicU64::new(0));
                let f2 = Arc::clone(&fired);
                let icp: DynStreamInterceptor = Arc::new(move |ctx: &InspectContext, data: &mut Vec<u8>| {
                    if let InspectContext::MpcMessage { source, gate, .. } = ctx {
                        if gate.as_ref().contains("proof-batch") && *source == crate::helpers::HelperIdentity::ONE && data.len() >= 8 * (slot + 1) && f2.load(Ordering::SeqCst) == 0 {
                            data[8 * slot..8 * slot + 8].copy_from_slice(&(bad as u64).to_le_bytes());
                            f2.fetch_add(1, Ordering::SeqCst);
                        }
                    }
                });
                let res = common::catch(|| rt.block_on(exchange(compressed, icp)));
                if fired.load(Ordering::SeqCst) == 0 {
                    continue;
                }
                // helper 1 sends to its left neighbour, helper 3
                let accepted = matches!(&res, Ok(out) if out[2].is_ok());
                if accepted {
                    r.violation("encoding:proof-batch:noncanonical-accepted", &format!("slot {slot} of a {}-proof batch was replaced by the non-canonical value {bad:#x}; the receiver accepted the message", compressed + 1), json!({"part":"proofs","compressed":compressed,"slot":slot}));
                }
            }
        }
    }
    r.sample(json!({"depths":format!("1..={}", max_compressed + 1),"oracle":"received == right neighbour's batch; non-canonical slot => receive fails"}));
    r.flag("exhaustive", true);
    r.finish();
}
