// Engine E1: stateless choice-tree explorer (DFS by re-execution, deviation bounded) and a
// single-threaded executor whose wakers are tracked, so that a future is polled only when it was
// woken — a lost wake-up shows up as "unfinished tasks, nothing woken, no environment event".

use std::{
    future::Future,
    pin::Pin,
    sync::{
        Arc,
        atomic::{AtomicBool, AtomicU64, Ordering},
    },
    task::{Context, Poll, Wake, Waker},
};

#[derive(Clone, Debug)]
struct Entry {
    chosen: u32,
    n: u32,
    costs: bool,
}

pub struct Choices {
    path: Vec<Entry>,
    pos: usize,
    deviations: u32,
    bound: u32,
    pub divergence: Option<String>,
}

impl Choices {
    fn pick(&mut self, n: usize, costs: bool) -> usize {
        assert!(n > 0, "choose(0)");
        if self.pos < self.path.len() {
            let e = &self.path[self.pos];
            // n == 0 in a forced (replay) entry means "unknown"
            if e.n != 0 && (e.costs != costs || (e.n != n as u32 && !(costs && e.n == 1))) {
                self.divergence = Some(format!("choice point {} had {} alternatives, now {}", self.pos, e.n, n));
            }
            let c = (e.chosen as usize).min(n - 1);
            if costs && c != 0 {
                self.deviations += 1;
            }
            self.pos += 1;
            return c;
        }
        let eff = if costs && self.deviations >= self.bound { 1 } else { n as u32 };
        self.path.push(Entry { chosen: 0, n: eff, costs });
        self.pos += 1;
        0
    }

    /// A free choice among `n` alternatives (all explored).
    pub fn choose(&mut self, n: usize) -> usize {
        self.pick(n, false)
    }

    /// A choice where alternative 0 is the default environment answer and any other alternative
    /// costs one deviation.
    pub fn deviate(&mut self, n: usize) -> usize {
        self.pick(n, true)
    }

    pub fn trace(&self) -> Vec<u32> {
        self.path.iter().take(self.pos).map(|e| e.chosen).collect()
    }
}

#[derive(Debug, Default, Clone)]
pub struct Stats {
    pub executions: u64,
    pub choice_points: u64,
    pub max_depth: usize,
    pub complete: bool,
    pub failure: Option<(Vec<u32>, String)>,
    pub machinery: Option<String>,
    pub longest: Vec<u32>,
}

/// Runs `f` for every choice sequence within the deviation bound. Stops at the first `Err`.
pub fn explore(bound: u32, max_exec: u64, mut f: impl FnMut(&mut Choices) -> Result<(), String>) -> Stats {
    let mut st = Stats::default();
    let mut path: Vec<Entry> = Vec::new();
    loop {
        let mut cx = Choices { path: std::mem::take(&mut path), pos: 0, deviations: 0, bound, divergence: None };
        let res = super::common::catch(|| f(&mut cx));
        st.executions += 1;
        st.choice_points += cx.pos as u64;
        if cx.pos > st.max_depth {
            st.max_depth = cx.pos;
            st.longest = cx.trace();
        }
        if let Some(d) = cx.divergence.take() {
            st.machinery = Some(format!("nondeterministic replay: {d}"));
            return st;
        }
        match res {
            Ok(Ok(())) => {}
            Ok(Err(e)) => {
                st.failure = Some((cx.trace(), e));
                return st;
            }
            Err(p) => {
                st.failure = Some((cx.trace(), format!("panic: {p}")));
                return st;
            }
        }
        path = cx.path;
        path.truncate(cx.pos);
        // backtrack
        while let Some(top) = path.last() {
            if top.chosen + 1 >= top.n {
                path.pop();
            } else {
                break;
            }
        }
        match path.last_mut() {
            None => {
                st.complete = true;
                return st;
            }
            Some(top) => top.chosen += 1,
        }
        if st.executions >= max_exec {
            return st;
        }
    }
}

/// Re-executes exactly one choice sequence (replay of a recorded violation).
pub fn replay(trace: &[u32], mut f: impl FnMut(&mut Choices) -> Result<(), String>) -> Result<(), String> {
    let path = trace.iter().map(|c| Entry { chosen: *c, n: 0, costs: false }).collect();
    let mut cx = Choices { path, pos: 0, deviations: 0, bound: u32::MAX, divergence: None };
    match super::common::catch(|| f(&mut cx)) {
        Ok(r) => r,
        Err(p) => Err(format!("panic: {p}")),
    }
}

struct Flag(AtomicBool, AtomicU64);

impl Wake for Flag {
    fn wake(self: Arc<Self>) {
        self.0.store(true, Ordering::SeqCst);
        self.1.fetch_add(1, Ordering::SeqCst);
    }
    fn wake_by_ref(self: &Arc<Self>) {
        self.0.store(true, Ordering::SeqCst);
        self.1.fetch_add(1, Ordering::SeqCst);
    }
}

pub struct MiniExec<'a> {
    tasks: Vec<Option<Pin<Box<dyn Future<Output = ()> + 'a>>>>,
    flags: Vec<Arc<Flag>>,
    pub polls: u64,
}

impl<'a> MiniExec<'a> {
    pub fn new() -> Self {
        Self { tasks: Vec::new(), flags: Vec::new(), polls: 0 }
    }

    /// Adds a task; it counts as woken until its first poll.
    pub fn spawn(&mut self, fut: impl Future<Output = ()> + 'a) -> usize {
        self.tasks.push(Some(Box::pin(fut)));
        self.flags.push(Arc::new(Flag(AtomicBool::new(true), AtomicU64::new(0))));
        self.tasks.len() - 1
    }

    pub fn woken(&self) -> Vec<usize> {
        (0..self.tasks.len())
            .filter(|i| self.tasks[*i].is_some() && self.flags[*i].0.load(Ordering::SeqCst))
            .collect()
    }

    pub fn unfinished(&self) -> Vec<usize> {
        (0..self.tasks.len()).filter(|i| self.tasks[*i].is_some()).collect()
    }

    pub fn is_done(&self, id: usize) -> bool {
        self.tasks[id].is_none()
    }

    pub fn all_done(&self) -> bool {
        self.tasks.iter().all(Option::is_none)
    }

    pub fn wake_count(&self, id: usize) -> u64 {
        self.flags[id].1.load(Ordering::SeqCst)
    }

    /// Polls task `id` once with a FRESH waker: by the `Future` contract only the waker of the most
    /// recent poll has to be woken, so wake-ups delivered to an older waker of this task are ignored
    /// from here on (a component that keeps a stale waker loses the wake-up).
    pub fn poll(&mut self, id: usize) -> bool {
        let Some(fut) = self.tasks[id].as_mut() else { return true };
        self.flags[id] = Arc::new(Flag(AtomicBool::new(false), AtomicU64::new(0)));
        let waker = Waker::from(Arc::clone(&self.flags[id]));
        let mut cx = Context::from_waker(&waker);
        self.polls += 1;
        match fut.as_mut().poll(&mut cx) {
            Poll::Ready(()) => {
                self.tasks[id] = None;
                true
            }
            Poll::Pending => false,
        }
    }

    /// Unfinished tasks that are not woken (candidates for a spurious poll).
    pub fn idle(&self) -> Vec<usize> {
        (0..self.tasks.len())
            .filter(|i| self.tasks[*i].is_some() && !self.flags[*i].0.load(Ordering::SeqCst))
            .collect()
    }

    /// Drops a task without completing it.
    pub fn cancel(&mut self, id: usize) {
        self.tasks[id] = None;
    }
}
