// C09 (query configurations): every QueryType x FieldType x size alphabet x hybrid-parameter
// alphabet through the URL query-string encoding used by the HTTP layer and through JSON.

use axum::extract::FromRequestParts;
use serde_json::json;

use crate::verif::common::{self, Report};
use crate::{
    ff::FieldType,
    helpers::query::{HybridQueryParams, PrepareQuery, QueryConfig, QuerySize, QueryType},
    net::http_serde::query::QueryConfigQueryParams,
};

fn block_on<F: std::future::Future>(f: F) -> F::Output {
    let mut f = std::pin::pin!(f);
    let w = std::task::Waker::noop();
    let mut cx = std::task::Context::from_waker(&w);
    for _ in 0..1000 {
        if let std::task::Poll::Ready(v) = f.as_mut().poll(&mut cx) {
            return v;
        }
    }
    panic!("extractor did not complete");
}

pub fn run_query_configs(r: &mut Report) {
    let sizes: Vec<u32> = vec![1, 2, 255, 256, 65_535, 65_536, 999_999_999, QuerySize::MAX];
    let mut types = vec![QueryType::TestMultiply, QueryType::TestAddInPrimeField, QueryType::TestShardedShuffle];
    for max_breakdown_key in [0u32, 1, 5, 32, 256, u32::MAX] {
        for with_dp in [0u32, 1, 2, u32::MAX] {
            for epsilon in [5.0f64, 0.1, 1e-9, 1.0 / 3.0, 123456.789, f64::MAX, f64::MIN_POSITIVE] {
                for plaintext_match_keys in [false, true] {
                    types.push(QueryType::MaliciousHybrid(HybridQueryParams { max_breakdown_key, with_dp, epsilon, plaintext_match_keys }));
                }
            }
        }
    }
    let mut bad_url = 0u64;
    let mut bad_json = 0u64;
    let mut first = None;
    let mut n = 0u64;
    for qt in &types {
        for ft in [FieldType::Fp31, FieldType::Fp32BitPrime] {
            for &s in &sizes {
                let cfg = QueryConfig { size: QuerySize::try_from(s).unwrap(), field_type: ft, query_type: *qt };
                n += 1;
                // URL query string, decoded by the same extractor the server uses
                let qs = QueryConfigQueryParams(cfg).to_string();
                let req = hyper::Request::builder().uri(format!("http://h/query?{qs}")).body(()).unwrap();
                let (mut parts, ()) = req.into_parts();
                let back = common::catch(|| block_on(QueryConfigQueryParams::from_request_parts(&mut parts, &())));
                match back {
                    Ok(Ok(b)) if b.0 == cfg => {}
                    Ok(Ok(b)) => {
                        bad_url += 1;
                        first.get_or_insert_with(|| format!("{cfg:?} encodes as `{qs}` which decodes to {:?}", b.0));
                    }
                    Ok(Err(e)) => {
                        bad_url += 1;
                        first.get_or_insert_with(|| format!("{cfg:?} encodes as `{qs}` which is rejected: {e}"));
                    }
                    Err(p) => {
                        bad_url += 1;
                        first.get_or_insert_with(|| format!("{cfg:?}: panic {p}"));
                    }
                }
                // JSON (PrepareQuery bodies, in-memory routing)
                let js = serde_json::to_string(&cfg).unwrap();
                match serde_json::from_str::<QueryConfig>(&js) {
                    Ok(b) if b == cfg => {}
                    other => {
                        bad_json += 1;
                        first.get_or_insert_with(|| format!("{cfg:?} JSON `{js}` decodes to {other:?}"));
                    }
                }
            }
        }
    }
    // out-of-range sizes are rejected by both decoders
    for s in ["0", "1000000001", "4294967295", "-1", "18446744073709551616"] {
        n += 1;
        let req = hyper::Request::builder().uri(format!("http://h/query?query_type=test-multiply&field_type=Fp31&size={s}")).body(()).unwrap();
        let (mut parts, ()) = req.into_parts();
        if let Ok(Ok(b)) = common::catch(|| block_on(QueryConfigQueryParams::from_request_parts(&mut parts, &()))) {
            bad_url += 1;
            first.get_or_insert_with(|| format!("size={s} accepted as {:?}", b.0));
        }
        if let Ok(b) = serde_json::from_str::<QuerySize>(s) {
            bad_json += 1;
            first.get_or_insert_with(|| format!("JSON size {s} accepted as {b:?}"));
        }
    }
    r.add("evaluations", 2 * n);
    r.add("distinct_nontrivial", n);
    r.set("slotwise_types", format!("QueryConfig:url+json:{n} configurations"));
    if bad_url > 0 {
        r.violation("encoding:QueryConfig:url", &format!("{} ({bad_url} configurations)", first.clone().unwrap()), json!({"part":"encodings"}));
    }
    if bad_json > 0 {
        r.violation("encoding:QueryConfig:json", &format!("{} ({bad_json} configurations)", first.unwrap()), json!({"part":"encodings"}));
    }
}
