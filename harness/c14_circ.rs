// C14 / E4: CircularBuf against a VecDeque reference model, explored to closure for every
// (capacity, write size, read size) with capacity <= 6 units.
// (module path: crate::helpers::buffers::verif::c14_circ; config A)

use std::collections::VecDeque;

use serde_json::json;

use super::super::circular::CircularBuf;
use crate::verif::{
    bfs::bfs,
    common::{self, Report},
};

#[derive(Clone, Copy, Debug, PartialEq, Eq)]
pub enum Op {
    Write,
    Take,
    Close,
}

const TAGS: u64 = 7;

struct Model {
    q: VecDeque<u8>,
    closed: bool,
    cap: usize,
    ws: usize,
    rs: usize,
}

impl Model {
    fn can_read(&self) -> bool {
        (self.closed && !self.q.is_empty()) || self.q.len() >= self.rs
    }
    fn can_write(&self) -> bool {
        !self.closed && self.cap - self.q.len() >= self.ws
    }
    fn take(&mut self) -> Vec<u8> {
        if !self.can_read() {
            return Vec::new();
        }
        let n = self.rs.min(self.q.len());
        self.q.drain(..n).collect()
    }
}

type Key = (usize, usize, bool, u64);

/// Replays `hist` on a fresh real buffer and the model in lock-step.
pub fn run_hist(cap_u: usize, ws: usize, read_u: usize, hist: &[Op]) -> Result<(Key, Vec<Op>), String> {
    let (cap, rs) = (cap_u * ws, read_u * ws);
    let mut real = CircularBuf::new(cap, ws, rs);
    let mut m = Model { q: VecDeque::new(), closed: false, cap, ws, rs };
    let mut written = 0u64;
    let mut taken = 0u64;
    let check = |real: &CircularBuf, m: &Model, step: usize| -> Result<(), String> {
        if real.len() != m.q.len() {
            return Err(format!("step {step}: len() = {} but {} bytes are queued", real.len(), m.q.len()));
        }
        if real.can_read() != m.can_read() {
            return Err(format!("step {step}: can_read() = {} expected {}", real.can_read(), m.can_read()));
        }
        if real.can_write() != m.can_write() {
            return Err(format!("step {step}: can_write() = {} expected {}", real.can_write(), m.can_write()));
        }
        if real.is_closed() != m.closed {
            return Err(format!("step {step}: is_closed() = {}", real.is_closed()));
        }
        if real.capacity() != m.cap {
            return Err(format!("step {step}: capacity() = {}", real.capacity()));
        }
        Ok(())
    };
    check(&real, &m, 0)?;
    for (i, op) in hist.iter().enumerate() {
        match op {
            Op::Write => {
                let tag = (written % TAGS) as u8 + 1;
                let msg: Vec<u8> = (0..ws).map(|b| tag * 16 + b as u8).collect();
                real.next().write(msg.as_slice());
                m.q.extend(msg);
                written += 1;
            }
            Op::Take => {
                let got = real.take();
                let exp = m.take();
                if got != exp {
                    return Err(format!("step {}: take() returned {got:?}, the queue holds {exp:?}", i + 1));
                }
                taken += got.len() as u64;
            }
            Op::Close => {
                real.close();
                m.closed = true;
            }
        }
        check(&real, &m, i + 1)?;
    }
    let mut en = Vec::new();
    if m.can_write() {
        en.push(Op::Write);
    }
    en.push(Op::Take);
    if !m.closed {
        en.push(Op::Close);
    }
    // after close with an empty queue nothing can change any more
    if m.closed && m.q.is_empty() {
        en.clear();
    }
    let two = 2 * cap as u64;
    let key = (((written * ws as u64) % two) as usize, (taken % two) as usize, m.closed, written % TAGS);
    Ok((key, en))
}

#[test]
fn run() {
    let mut r = Report::new("C14");
    if let Some(rep) = common::replay_arg() {
        let c = &rep["config"];
        let hist: Vec<Op> = rep["history"].as_array().unwrap().iter().map(|v| match v.as_str().unwrap() {
            "Write" => Op::Write,
            "Take" => Op::Take,
            _ => Op::Close,
        }).collect();
        let res = common::catch(|| run_hist(c[0].as_u64().unwrap() as usize, c[1].as_u64().unwrap() as usize, c[2].as_u64().unwrap() as usize, &hist));
        r.add("states", 1);
        r.add("transitions", hist.len() as u64);
        match res {
            Ok(Ok(_)) => {}
            Ok(Err(e)) | Err(e) => r.violation("circular-buf:replay", &e, rep.clone()),
        }
        r.finish();
        return;
    }
    let max_cap = if common::thorough() { 8 } else { 6 };
    let mut configs = Vec::new();
    for cap_u in 1..=max_cap {
        for ws in 1..=3usize {
            for read_u in 1..=cap_u {
                configs.push((cap_u, ws, read_u));
            }
        }
    }
    r.flag("exhaustive", true);
    let results = common::par_map(configs.len(), common::ncpu(), |i| {
        let (c, w, m) = configs[i];
        let st = bfs(|h| common::catch(|| run_hist(c, w, m, h)).unwrap_or_else(|p| Err(format!("panic: {p}"))), 100_000, 5_000_000);
        (configs[i], st)
    });
    for ((c, w, m), st) in results {
        r.add("states", st.states);
        r.add("transitions", st.transitions);
        r.add("evaluations", st.transitions);
        r.max("depth", st.max_depth as u64);
        r.inc("configs");
        if !st.closed {
            r.flag("exhaustive", false);
            r.note(format!("circular cap={c} ws={w} read={m}: not explored to closure"));
        }
        if let Some((h, e)) = st.failure {
            let hs: Vec<String> = h.iter().map(|o| format!("{o:?}")).collect();
            r.violation(&format!("circular-buf:cap{c}-ws{w}-read{m}"), &e, json!({"part":"circular","config":[c,w,m],"history":hs}));
        }
        if (c, w, m) == (3, 2, 2) {
            let hs: Vec<String> = st.deepest.iter().map(|o| format!("{o:?}")).collect();
            r.sample(json!({"config":{"capacity_units":c,"write_size":w,"read_units":m},"states":st.states,"transitions":st.transitions,"deepest_history":hs}));
        }
    }
    r.finish();
}
