// Hook H7 (ipa-core/src/protocol/ipa_prf/mod.rs): `malicious_security` is a private module; this
// re-exports its public items to the harness root.
pub(crate) use super::malicious_security::{lagrange, prover, verifier};

// proof / diff array types (private aliases in validation_protocol) for the C09 encoding check
pub(crate) type ProofDiffAlias = [crate::ff::Fp61BitPrime; crate::protocol::context::dzkp_validator::MAX_PROOF_RECURSION + 1];


#[cfg(all(not(feature = "shuttle"), feature = "descriptive-gate"))]
mod c03p {
    include!(concat!(env!("IPA_VERIF_DIR"), "/c03p.rs"));
}

#[cfg(all(not(feature = "shuttle"), feature = "descriptive-gate"))]
mod c09p {
    include!(concat!(env!("IPA_VERIF_DIR"), "/c09p.rs"));
}
