// Hook H7 (ipa-core/src/protocol/ipa_prf/mod.rs): `malicious_security` is a private module; this
// re-exports its public items to the harness root.
pub(crate) use super::malicious_security::{lagrange, prover, verifier};
