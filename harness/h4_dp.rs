// Hook H4 (ipa-core/src/protocol/dp/mod.rs): ShiftedTruncatedDiscreteLaplace is private.

#[cfg(not(feature = "shuttle"))]
mod c12 {
    include!(concat!(env!("IPA_VERIF_DIR"), "/c12.rs"));
}
