// Hook H4 (ipa-core/src/protocol/dp/mod.rs): ShiftedTruncatedDiscreteLaplace is private.

#[cfg(all(not(feature = "shuttle"), feature = "descriptive-gate"))]
mod c12 {
    include!(concat!(env!("IPA_VERIF_DIR"), "/c12.rs"));
}

#[cfg(all(not(feature = "shuttle"), feature = "descriptive-gate"))]
mod c12n {
    include!(concat!(env!("IPA_VERIF_DIR"), "/c12n.rs"));
}
