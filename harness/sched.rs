// Engine E2: preemption-bounded exhaustive DFS scheduler plugged into shuttle::Runner.
//
// Compiled only in the crate's `shuttle` configuration (config B). At every scheduling point the
// alternatives are ordered [current task if still runnable, then ascending task id]; taking an
// alternative != 0 while the current task is runnable (and is not yielding) costs one preemption;
// all alternatives whose accumulated cost is <= the bound are explored, depth first, by
// re-execution. Replays check that the runnable set at each step equals the recorded one.
//
// Partitioning over worker processes: a bounded-preemption tree is a comb (a long default spine with
// sub-trees hanging off every level), so the units of work are the sub-trees entered by the
// `split`-th deviation (choice != 0) of a path, wherever it happens. Units are numbered in DFS
// order - the numbering only depends on the part of the tree every worker walks - and worker i
// takes the numbers congruent to i; paths with fewer than `split` deviations are executed by every
// worker and counted by worker 0.

use std::{
    collections::hash_map::DefaultHasher,
    hash::{Hash, Hasher},
    sync::{
        Arc, Mutex,
        atomic::{AtomicBool, Ordering},
    },
    time::{Duration, Instant},
};

use shuttle::scheduler::{Schedule, Scheduler, TaskId};

use super::common;

static WINDOW_OPEN: AtomicBool = AtomicBool::new(true);

/// Called by a driver (inside the shuttle execution) when the warm-up phase is over.
pub fn open_window() {
    WINDOW_OPEN.store(true, Ordering::SeqCst);
}

/// Called by a driver when the part of the execution whose schedules matter is over (teardown is
/// run under the deterministic warm-up policy again).
pub fn close_window() {
    WINDOW_OPEN.store(false, Ordering::SeqCst);
}

/// Wall-clock budget of one check part: every (driver, bound) exploration gets an equal share of what
/// is left, so that a thorough tier ends within its budget whatever the size of the individual
/// trees; a share that runs out is reported as a cap hit for that driver (never as a verdict).
pub struct Budget {
    deadline: Instant,
    per_item_max: u64,
}

impl Budget {
    pub fn new(total_s: u64, per_item_max: u64) -> Self {
        let total = std::env::var("VERIF_BUDGET_S").ok().and_then(|s| s.parse().ok()).unwrap_or(total_s);
        Self { deadline: Instant::now() + Duration::from_secs(total), per_item_max }
    }
    /// seconds granted to the next exploration when `remaining` explorations (including it) are left
    pub fn share(&self, remaining: usize) -> u64 {
        let left = self.deadline.saturating_duration_since(Instant::now()).as_secs();
        (left / remaining.max(1) as u64).clamp(5, self.per_item_max)
    }
}

#[derive(Clone, Debug)]
struct Level {
    chosen: u32,
    allowed: u32,
    sig: u64,
    costs: bool,
    split: bool,
}

#[derive(Clone, Debug)]
pub struct Cfg {
    pub bound: u32,
    pub max_exec: u64,
    pub max_wall: Duration,
    /// the deviation (1-based) whose sub-trees are the units distributed over the workers
    pub split: usize,
    pub worker: (usize, usize),
    pub forced: Option<Vec<u32>>,
    pub use_window: bool,
    pub max_steps: usize,
    /// an execution that ends in a panic whose message contains this text is counted and the
    /// exploration goes on with the next schedule (a panic that is part of the code's documented
    /// behaviour under the scheduler, e.g. the cancellation handler of abandoned tasks)
    pub tolerate: Option<&'static str>,
}

impl Cfg {
    pub fn new(bound: u32) -> Self {
        Self {
            bound,
            max_exec: u64::MAX,
            max_wall: Duration::from_secs(3600),
            split: 1,
            worker: common::worker(),
            forced: None,
            use_window: false,
            max_steps: 50_000,
            tolerate: None,
        }
    }
}

#[derive(Default, Debug)]
struct Shared {
    stack: Vec<Level>,
    depth: usize,
    preempt: u32,
    executions: u64,
    counted: u64,
    steps: u64,
    max_depth: usize,
    max_preempt: u32,
    started: bool,
    done: bool,
    cap_hit: bool,
    nondeterminism: Option<String>,
    subtree: u64,
    devs: usize,
}

pub struct BoundedDfs {
    cfg: Cfg,
    sh: Arc<Mutex<Shared>>,
    start: Instant,
}

impl BoundedDfs {
    fn mine(&self, id: u64) -> bool {
        (id as usize) % self.cfg.worker.1 == self.cfg.worker.0
    }
}

impl Scheduler for BoundedDfs {
    fn new_execution(&mut self) -> Option<Schedule> {
        let mut s = self.sh.lock().unwrap();
        if s.nondeterminism.is_some() {
            return None;
        }
        if s.started {
            // account for the finished execution
            let counted = if self.cfg.worker.1 > 1 && s.devs < self.cfg.split { self.cfg.worker.0 == 0 } else { true };
            if counted {
                s.counted += 1;
            }
            // backtrack
            loop {
                while let Some(top) = s.stack.last() {
                    if top.chosen + 1 >= top.allowed {
                        s.stack.pop();
                    } else {
                        break;
                    }
                }
                let Some(top) = s.stack.last_mut() else {
                    s.done = true;
                    return None;
                };
                top.chosen += 1;
                if top.split {
                    s.subtree += 1;
                    let id = s.subtree;
                    if !self.mine(id) {
                        continue;
                    }
                }
                break;
            }
        }
        if s.executions >= self.cfg.max_exec || self.start.elapsed() > self.cfg.max_wall {
            s.cap_hit = true;
            return None;
        }
        s.started = true;
        s.depth = 0;
        s.preempt = 0;
        s.devs = 0;
        s.executions += 1;
        WINDOW_OPEN.store(!self.cfg.use_window, Ordering::SeqCst);
        Some(Schedule::new(0))
    }

    fn next_task(&mut self, runnable: &[TaskId], current: Option<TaskId>, is_yielding: bool) -> Option<TaskId> {
        if !WINDOW_OPEN.load(Ordering::SeqCst) {
            // warm-up: newest task first, nothing recorded
            return runnable.iter().copied().max();
        }
        let mut s = self.sh.lock().unwrap();
        let cur_runnable = current.is_some_and(|c| runnable.contains(&c));
        let mut alts: Vec<TaskId> = Vec::with_capacity(runnable.len());
        let mut others: Vec<TaskId> = runnable.iter().copied().filter(|t| Some(*t) != current).collect();
        others.sort();
        let costs;
        if cur_runnable && !is_yielding {
            alts.push(current.unwrap());
            alts.extend(others);
            costs = true;
        } else if cur_runnable {
            alts.extend(others);
            alts.push(current.unwrap());
            costs = false;
        } else {
            alts.extend(others);
            costs = false;
        }
        let mut h = DefaultHasher::new();
        alts.hash(&mut h);
        current.hash(&mut h);
        is_yielding.hash(&mut h);
        let sig = h.finish() | 1;
        let d = s.depth;
        if d >= self.cfg.max_steps {
            s.nondeterminism = Some(format!("step cap {} reached (livelock?)", self.cfg.max_steps));
            return None;
        }
        let choice;
        if d < s.stack.len() {
            let lvl = s.stack[d].clone();
            if lvl.sig != 0 && lvl.sig != sig {
                s.nondeterminism = Some(format!("replay divergence at step {d}: runnable set differs from the recorded one"));
                return None;
            }
            if lvl.chosen as usize >= alts.len() {
                s.nondeterminism = Some(format!("replay divergence at step {d}: choice {} of {}", lvl.chosen, alts.len()));
                return None;
            }
            choice = lvl.chosen;
        } else {
            let allowed = if costs && s.preempt + 1 > self.cfg.bound { 1 } else { alts.len() as u32 };
            let split = allowed > 1 && self.cfg.worker.1 > 1 && s.devs + 1 == self.cfg.split;
            s.stack.push(Level { chosen: 0, allowed, sig, costs, split });
            choice = 0;
        }
        if choice != 0 {
            s.devs += 1;
        }
        if choice != 0 && s.stack[d].costs {
            s.preempt += 1;
            s.max_preempt = s.max_preempt.max(s.preempt);
        }
        s.depth += 1;
        s.steps += 1;
        s.max_depth = s.max_depth.max(s.depth);
        Some(alts[choice as usize])
    }

    fn next_u64(&mut self) -> u64 {
        0x5EED
    }
}

#[derive(Debug, Clone)]
pub struct Outcome {
    pub executions: u64,
    pub counted: u64,
    pub steps: u64,
    pub max_depth: usize,
    pub max_preempt: u32,
    pub complete: bool,
    pub cap_hit: bool,
    /// (choice list of the failing schedule, panic message)
    pub failure: Option<(Vec<u32>, String)>,
    /// executions ended by a tolerated panic
    pub tolerated: u64,
    pub machinery: Option<String>,
    pub wall: f64,
}

/// Explore every schedule of `body` within the preemption bound. Stops at the first failing
/// execution (panic / deadlock), returning its choice list.
pub fn explore<F>(cfg: Cfg, body: F) -> Outcome
where
    F: Fn() + Send + Sync + 'static,
{
    let sh = Arc::new(Mutex::new(Shared::default()));
    if let Some(path) = &cfg.forced {
        let mut s = sh.lock().unwrap();
        for c in path {
            s.stack.push(Level { chosen: *c, allowed: *c + 1, sig: 0, costs: true, split: false });
        }
    }
    let forced = cfg.forced.is_some();
    let mut cfg = cfg;
    if forced {
        cfg.max_exec = 1;
    }
    let start = Instant::now();
    let body = Arc::new(body);
    let mut tolerated = 0u64;
    let res = loop {
        let sched = BoundedDfs { cfg: cfg.clone(), sh: Arc::clone(&sh), start };
        let mut config = shuttle::Config::new();
        config.stack_size = 0x40_0000;
        config.max_steps = shuttle::MaxSteps::FailAfter(cfg.max_steps * 4);
        config.failure_persistence = shuttle::FailurePersistence::None;
        config.silence_warnings = true;
        let b2 = Arc::clone(&body);
        let res = common::catch(move || {
            let runner = shuttle::Runner::new(sched, config);
            runner.run(move || b2())
        });
        match (&res, cfg.tolerate) {
            // the failed execution stays on the DFS stack: the next runner continues behind it
            (Err(msg), Some(t)) if !forced && msg.contains(t) && tolerated < 5_000_000 => tolerated += 1,
            _ => break res,
        }
    };
    let s = sh.lock().unwrap_or_else(|e| e.into_inner());
    let failure = match res {
        Ok(_) => None,
        Err(msg) => {
            let path: Vec<u32> = s.stack.iter().take(s.depth.max(1)).map(|l| l.chosen).collect();
            Some((path, msg))
        }
    };
    Outcome {
        executions: s.executions,
        counted: s.counted,
        steps: s.steps,
        max_depth: s.max_depth,
        max_preempt: s.max_preempt,
        complete: s.done && failure.is_none() && s.nondeterminism.is_none(),
        cap_hit: s.cap_hit,
        failure,
        machinery: s.nondeterminism.clone(),
        wall: start.elapsed().as_secs_f64(),
        tolerated,
    }
}
