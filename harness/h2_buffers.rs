// Hook H2 (ipa-core/src/helpers/buffers/mod.rs): access to CircularBuf, OrderingSender,
// UnorderedReceiver internals.

#[cfg(feature = "shuttle")]
mod c14_sched {
    include!(concat!(env!("IPA_VERIF_DIR"), "/c14_sched.rs"));
}

#[cfg(all(not(feature = "shuttle"), feature = "descriptive-gate"))]
mod c14_circ {
    include!(concat!(env!("IPA_VERIF_DIR"), "/c14_circ.rs"));
}

#[cfg(all(not(feature = "shuttle"), feature = "descriptive-gate"))]
mod c14_recv {
    include!(concat!(env!("IPA_VERIF_DIR"), "/c14_recv.rs"));
}

#[cfg(all(not(feature = "shuttle"), feature = "descriptive-gate"))]
mod c14_send {
    include!(concat!(env!("IPA_VERIF_DIR"), "/c14_send.rs"));
}
