// Hook H2 (ipa-core/src/helpers/buffers/mod.rs): access to CircularBuf, OrderingSender,
// UnorderedReceiver internals.
