// C19 (reshard_aad): the variant that keeps the values on their shard and reshards only their tags.
// Every shard of all three helpers: the values come back complete and in input order; the tags a
// shard ends up with are the reference sequence (grouped by source shard, original order); an error
// item at any input position fails the call. (module path: crate::query::runner::verif::c19a; hook
// H10; config A)

use std::time::Duration;

use futures::stream;
use serde_json::json;

use super::super::reshard_tag::reshard_aad;
use crate::{
    ff::{Fp32BitPrime, U128Conversions},
    sharding::ShardIndex,
    test_fixture::{TestWorld, TestWorldConfig, WithShards},
    verif::{
        common::{self, Report},
        fault::{self, BoxFut, Out},
    },
};

#[derive(Clone, Debug)]
struct CaseA {
    shards: usize,
    /// per shard: values (tags are value + 500_000)
    input: Vec<Vec<u128>>,
    /// 0: tag mod S, 1..: all to shard (p-1)
    picker: usize,
    err_at: Option<(usize, usize)>,
    pending_before: Vec<usize>,
}

type Outs = Vec<Vec<Out<(Vec<u128>, Vec<u128>)>>>;

/// Input with a fixed size hint; answers Pending (waking itself) before the item positions in
/// `pending_before`.
struct Sized<S> {
    inner: S,
    hint: usize,
    pending_before: Vec<usize>,
    handed_out: usize,
    pended: bool,
}
impl<S: futures::Stream + Unpin> futures::Stream for Sized<S> {
    type Item = S::Item;
    fn poll_next(mut self: std::pin::Pin<&mut Self>, cx: &mut std::task::Context<'_>) -> std::task::Poll<Option<S::Item>> {
        if !self.pended && self.pending_before.contains(&self.handed_out) {
            self.pended = true;
            cx.waker().wake_by_ref();
            return std::task::Poll::Pending;
        }
        let r = std::pin::Pin::new(&mut self.inner).poll_next(cx);
        if let std::task::Poll::Ready(Some(_)) = &r {
            self.handed_out += 1;
            self.pended = false;
        }
        r
    }
    fn size_hint(&self) -> (usize, Option<usize>) {
        (0, Some(self.hint))
    }
}

async fn world_run<const S: usize>(c: &CaseA) -> Outs {
    let mut config = TestWorldConfig::default();
    config.seed = 1919;
    config.timeout = None;
    let world: TestWorld<WithShards<S>> = TestWorld::with_shards(&config);
    let mut futs: Vec<BoxFut<'_, (Vec<u128>, Vec<u128>)>> = Vec::new();
    for per_shard in world.contexts() {
        for (s, ctx) in per_shard.into_iter().enumerate() {
            let vals = c.input[s].clone();
            let (shards, picker) = (c.shards, c.picker);
            let err_at = c.err_at.and_then(|(es, p)| (es == s).then_some(p));
            let pending_before = c.pending_before.clone();
            futs.push(Box::pin(async move {
                let mut items: Vec<Result<(Fp32BitPrime, Fp32BitPrime), crate::error::Error>> = vals.iter().map(|v| Ok((Fp32BitPrime::truncate_from(*v), Fp32BitPrime::truncate_from(*v + 500_000)))).collect();
                if let Some(p) = err_at {
                    items.insert(p.min(items.len()), Err(crate::error::Error::Internal));
                }
                let hint = items.len();
                let (values, tags) = reshard_aad(ctx, Sized { inner: stream::iter(items), hint, pending_before, handed_out: 0, pended: false }, move |_, _, tag: &Fp32BitPrime| {
                    ShardIndex::from(if picker == 0 { (tag.as_u128() % shards as u128) as u32 } else { ((picker - 1) % shards) as u32 })
                })
                .await
                .map_err(|e| format!("{e:?}"))?;
                Ok((values.iter().map(U128Conversions::as_u128).collect(), tags.iter().map(U128Conversions::as_u128).collect()))
            }));
        }
    }
    let flat = fault::run_all(futs, Duration::from_secs(60), Duration::from_secs(3)).await;
    let mut it = flat.into_iter();
    let out = (0..3).map(|_| (0..S).map(|_| it.next().unwrap()).collect()).collect();
    drop(world);
    out
}

#[test]
fn run() {
    let mut r = Report::new("C19");
    let thorough = common::thorough();
    let rt = fault::runtime(6);
    let mut cases = Vec::new();
    for shards in [1usize, 2, 3] {
        for n in 0..=if thorough { 9 } else { 5 } {
            for layout in 0..2usize {
                if shards == 1 && layout > 0 {
                    continue;
                }
                let mut input = vec![Vec::new(); shards];
                for i in 0..n {
                    input[if layout == 0 { i % shards } else { 0 }].push(2000 + 13 * i as u128);
                }
                for picker in 0..=shards {
                    cases.push(CaseA { shards, input: input.clone(), picker, err_at: None, pending_before: Vec::new() });
                }
                if n == 4 {
                    let per = input.iter().map(Vec::len).max().unwrap();
                    let mut scripts: Vec<Vec<usize>> = (0..=per).map(|p| vec![p]).collect();
                    scripts.push((0..=per).collect());
                    for pending_before in scripts {
                        cases.push(CaseA { shards, input: input.clone(), picker: 0, err_at: None, pending_before });
                    }
                    for es in 0..shards {
                        for p in 0..=input[es].len() {
                            cases.push(CaseA { shards, input: input.clone(), picker: 0, err_at: Some((es, p)), pending_before: Vec::new() });
                        }
                    }
                }
            }
        }
    }
    let results: Vec<Outs> = rt.block_on(async {
        let mut out = Vec::new();
        for chunk in cases.chunks(16) {
            out.extend(
                futures::future::join_all(chunk.iter().map(|c| async move {
                    match c.shards {
                        1 => world_run::<1>(c).await,
                        2 => world_run::<2>(c).await,
                        _ => world_run::<3>(c).await,
                    }
                }))
                .await,
            );
        }
        out
    });
    for (c, o) in cases.iter().zip(&results) {
        r.inc("evaluations");
        r.inc("distinct_nontrivial");
        r.inc("reshard_aad_runs");
        r.inc("states");
        r.add("transitions", 3 * c.input.iter().map(Vec::len).sum::<usize>() as u64);
        let replay = json!({"part":"aad","shards":c.shards,"input":c.input.iter().map(|v| v.iter().map(|x| *x as u64).collect::<Vec<_>>()).collect::<Vec<_>>(),"picker":c.picker,"err_at":c.err_at.map(|x| vec![x.0,x.1]),"pending_before":c.pending_before});
        if let Some((es, _)) = c.err_at {
            for h in 0..3 {
                if let Out::Ok(v) = &o[h][es] {
                    r.violation("reshard-aad:error-swallowed", &format!("helper {h} shard {es} returned Ok({} values, {} tags) although its input stream yielded an error item", v.0.len(), v.1.len()), replay.clone());
                }
            }
            continue;
        }
        let mut want_tags = vec![Vec::new(); c.shards];
        for src in 0..c.shards {
            for v in &c.input[src] {
                let tag = *v + 500_000;
                let d = if c.picker == 0 { (tag % c.shards as u128) as usize } else { (c.picker - 1) % c.shards };
                want_tags[d].push(tag);
            }
        }
        for h in 0..3 {
            for s in 0..c.shards {
                match &o[h][s] {
                    Out::Ok((values, tags)) if *values == c.input[s] && *tags == want_tags[s] => {}
                    Out::Ok((values, tags)) => {
                        r.violation("reshard-aad:order", &format!("helper {h} shard {s}: values {values:?} (expected {:?}), tags {tags:?} (expected {:?})", c.input[s], want_tags[s]), replay.clone());
                    }
                    x => r.violation("reshard-aad:failed", &format!("helper {h} shard {s}: {x:?}"), replay.clone()),
                }
            }
        }
    }
    r.sample(json!({"oracle":"values stay, complete and in order; tags arrive grouped by source shard in original order; error item => Err"}));
    r.flag("exhaustive", true);
    r.finish();
}
