// C01 / E5: hybrid attribution against an independent in-the-clear reference, over small-scope
// exhaustive inputs x shard counts x every assignment of reports to shards x both security modes,
// plus group-shape / wrap-around / saturation inputs with and without padding.
// C02 (fault enumeration over the same driver) lives in c02.rs and reuses `hybrid_world`.
// (module path: crate::verif::c01; config A)

use std::{collections::BTreeMap, time::Duration};

use rand::{SeedableRng, rngs::StdRng};
use serde_json::json;

use super::{
    common::{self, Report},
    fault::{self, BoxFut, Out},
};
use crate::{
    ff::{
        U128Conversions,
        boolean_array::{BA3, BA8, BA16, BA64},
        curve_points::RP25519,
        ec_prime_field::Fp25519,
    },
    helpers::{in_memory_config::{DynStreamInterceptor, passthrough}, query::DpMechanism},
    protocol::{
        context::Context,
        hybrid::{hybrid_protocol, oprf::gen_prf_key, step::HybridStep},
        ipa_prf::oprf_padding::PaddingParameters,
    },
    report::hybrid::IndistinguishableHybridReport,
    secret_sharing::{
        IntoShares,
        replicated::{ReplicatedSecretSharing, semi_honest::AdditiveShare},
    },
    test_fixture::{TestWorld, TestWorldConfig, WithShards},
};

#[derive(Clone, Copy, Debug, PartialEq, Eq, PartialOrd, Ord)]
pub struct Rep {
    pub conversion: bool,
    pub mk: u64,
    /// breakdown key (impressions) or value (conversions)
    pub data: u32,
}

#[derive(Clone, Debug)]
pub struct Case1 {
    pub shards: usize,
    pub malicious: bool,
    pub hv_bits: usize,
    pub padding: bool,
    pub reports: Vec<Rep>,
    pub assign: Vec<usize>,
    pub seed: u64,
}

/// The reference, written from the property text.
pub fn reference(reports: &[Rep], hv_bits: usize) -> Vec<u128> {
    let mut groups: BTreeMap<u64, Vec<&Rep>> = BTreeMap::new();
    for r in reports {
        groups.entry(r.mk).or_default().push(r);
    }
    let mut hist = vec![0u128; 256];
    let cap = (1u128 << hv_bits) - 1;
    for g in groups.values() {
        if g.len() != 2 {
            continue;
        }
        let v: u32 = g.iter().map(|r| if r.conversion { r.data } else { 0 }).sum::<u32>() % 8;
        let b: u32 = g.iter().map(|r| if r.conversion { 0 } else { r.data }).sum::<u32>() % 256;
        hist[b as usize] = (hist[b as usize] + u128::from(v)).min(cap);
    }
    hist
}

/// per helper, per shard: the output vector as (left, right) share pairs
pub type Outputs = Vec<Vec<Out<Vec<(u128, u128)>>>>;

type Row = IndistinguishableHybridReport<BA8, BA3>;

fn share_rows(c: &Case1) -> [Vec<Vec<Row>>; 3] {
    let mut rng = StdRng::seed_from_u64(c.seed ^ 0xc01);
    let mut inputs: [Vec<Vec<Row>>; 3] = std::array::from_fn(|_| (0..c.shards).map(|_| Vec::new()).collect());
    for (r, sh) in c.reports.iter().zip(&c.assign) {
        let mk: [AdditiveShare<BA64>; 3] = BA64::truncate_from(u128::from(r.mk)).share_with(&mut rng);
        let (v, b) = if r.conversion { (r.data, 0) } else { (0, r.data) };
        let vs: [AdditiveShare<BA3>; 3] = BA3::truncate_from(u128::from(v)).share_with(&mut rng);
        let bs: [AdditiveShare<BA8>; 3] = BA8::truncate_from(u128::from(b)).share_with(&mut rng);
        for h in 0..3 {
            inputs[h][*sh].push(Row { match_key: mk[h].clone(), value: vs[h].clone(), breakdown_key: bs[h].clone() });
        }
    }
    inputs
}

macro_rules! world_fn {
    ($name:ident, $HV:ty) => {
        pub async fn $name<const S: usize>(c: &Case1, interceptor: DynStreamInterceptor, overall: Duration, grace: Duration) -> Outputs {
            let mut config = TestWorldConfig::default();
            config.seed = c.seed;
            config.stream_interceptor = interceptor;
            config.timeout = None;
            // the compact step table only knows the protocol's own step hierarchy
            #[cfg(feature = "compact-gate")]
            {
                use ipa_step::StepNarrow;
                config.initial_gate = Some(crate::protocol::Gate::default().narrow(&crate::protocol::step::ProtocolStep::Hybrid));
            }
            let world: TestWorld<WithShards<S>> = TestWorld::with_shards(&config);
            let mut inputs = share_rows(c);
            let padding = if c.padding { PaddingParameters::relaxed() } else { PaddingParameters::no_padding() };
            let mut futs: Vec<BoxFut<'_, Vec<(u128, u128)>>> = Vec::new();
            macro_rules! push {
                ($ctxs:expr) => {
                    for (h, per_shard) in $ctxs.into_iter().enumerate() {
                        for (s, ctx) in per_shard.into_iter().enumerate() {
                            let inp = std::mem::take(&mut inputs[h][s]);
                            futs.push(Box::pin(async move {
                                let r = hybrid_protocol::<_, BA8, BA3, $HV, 3, 256>(ctx, inp, DpMechanism::NoDp, padding).await.map_err(|e| format!("{e:?}"))?;
                                Ok(r.iter().map(|x| (x.left().as_u128(), x.right().as_u128())).collect())
                            }));
                        }
                    }
                };
            }
            if c.malicious {
                push!(world.malicious_contexts());
            } else {
                push!(world.contexts());
            }
            let flat = fault::run_all(futs, overall, grace).await;
            let mut it = flat.into_iter();
            let out: Outputs = (0..3).map(|_| (0..S).map(|_| it.next().unwrap()).collect()).collect();
            drop(world);
            out
        }
    };
}
world_fn!(world_hv8, BA8);
world_fn!(world_hv16, BA16);

pub async fn hybrid_world(c: &Case1, i: DynStreamInterceptor, overall: Duration, grace: Duration) -> Outputs {
    match (c.hv_bits, c.shards) {
        (8, 1) => world_hv8::<1>(c, i, overall, grace).await,
        (8, 2) => world_hv8::<2>(c, i, overall, grace).await,
        (8, 3) => world_hv8::<3>(c, i, overall, grace).await,
        (8, _) => world_hv8::<5>(c, i, overall, grace).await,
        (_, 1) => world_hv16::<1>(c, i, overall, grace).await,
        (_, 2) => world_hv16::<2>(c, i, overall, grace).await,
        _ => world_hv16::<3>(c, i, overall, grace).await,
    }
}

/// The PRF key of a world built from the same configuration (pure PRSS, no communication),
/// derived exactly like `compute_prf_and_reshard` does. Used only to evaluate the predicate of the
/// known multi-shard finding (which shard every match key is routed to).
fn prf_key<const S: usize>(seed: u64, malicious: bool) -> Fp25519 {
    let mut config = TestWorldConfig::default();
    config.seed = seed;
    config.timeout = None;
    #[cfg(feature = "compact-gate")]
    {
        use ipa_step::StepNarrow;
        config.initial_gate = Some(crate::protocol::Gate::default().narrow(&crate::protocol::step::ProtocolStep::Hybrid));
    }
    let world: TestWorld<WithShards<S>> = TestWorld::with_shards(&config);
    let shares: Vec<AdditiveShare<Fp25519>> = if malicious {
        world.malicious_contexts().into_iter().map(|mut v| gen_prf_key::<_, 1>(&v.remove(0).narrow(&HybridStep::PrfKeyGen))).collect()
    } else {
        world.contexts().into_iter().map(|mut v| gen_prf_key::<_, 1>(&v.remove(0).narrow(&HybridStep::PrfKeyGen))).collect()
    };
    shares[0].left() + shares[1].left() + shares[2].left()
}

pub fn pseudonym(mk: u64, k: Fp25519) -> u64 {
    u64::from(RP25519::from((Fp25519::from(curve25519_dalek::scalar::Scalar::from(mk)) + k).invert()))
}

/// Does some shard run out of rows (at the input, after resharding by pseudonym, or after
/// pairing)? That is the premise of the known multi-shard finding.
pub fn some_shard_runs_dry(c: &Case1, rt: &tokio::runtime::Runtime) -> bool {
    if c.shards == 1 {
        return false;
    }
    if c.reports.is_empty() {
        return false;
    }
    if (0..c.shards).any(|s| !c.assign.contains(&s)) {
        return true;
    }
    if c.padding {
        // dummy rows carry random match keys: their routing is not predictable here; with padding
        // every shard keeps rows after resharding with overwhelming probability, pairs do not
    }
    let _g = rt.enter();
    let k = match c.shards {
        2 => prf_key::<2>(c.seed, c.malicious),
        3 => prf_key::<3>(c.seed, c.malicious),
        _ => prf_key::<5>(c.seed, c.malicious),
    };
    let mut rows = vec![0usize; c.shards];
    let mut groups: BTreeMap<u64, usize> = BTreeMap::new();
    for r in &c.reports {
        *groups.entry(r.mk).or_default() += 1;
        rows[(pseudonym(r.mk, k) % c.shards as u64) as usize] += 1;
    }
    let mut pairs = vec![0usize; c.shards];
    for (mk, n) in groups {
        if n == 2 {
            pairs[(pseudonym(mk, k) % c.shards as u64) as usize] += 1;
        }
    }
    (!c.padding && rows.iter().any(|n| *n == 0)) || pairs.iter().any(|n| *n == 0)
}

pub fn check_outputs(c: &Case1, out: &Outputs) -> Result<(), String> {
    for h in 0..3 {
        for s in 0..c.shards {
            match &out[h][s] {
                Out::Ok(_) => {}
                Out::Timeout => return Err(format!("hang: helper {h} shard {s} never produced output")),
                o => return Err(format!("helper {h} shard {s}: {}", match o { Out::Err(e) => format!("error {e}"), Out::Panic(p) => format!("panic {p}"), _ => String::new() })),
            }
        }
    }
    let want = reference(&c.reports, c.hv_bits);
    // leader shard (shard 0): consistent sharing reconstructing to the reference
    let l: Vec<&Vec<(u128, u128)>> = (0..3).map(|h| out[h][0].ok().unwrap()).collect();
    if l.iter().any(|v| v.len() != 256) {
        return Err(format!("leader output lengths {:?}", l.iter().map(|v| v.len()).collect::<Vec<_>>()));
    }
    for b in 0..256 {
        for h in 0..3 {
            if l[h][b].1 != l[(h + 1) % 3][b].0 {
                return Err(format!("bucket {b}: helpers {h} and {} hold different copies of their common share", (h + 1) % 3));
            }
        }
        let got = l[0][b].0 ^ l[1][b].0 ^ l[2][b].0;
        if got != want[b] {
            let nz: Vec<(usize, u128)> = (0..256).map(|i| (i, l[0][i].0 ^ l[1][i].0 ^ l[2][i].0)).filter(|x| x.1 != 0).collect();
            let wz: Vec<(usize, u128)> = want.iter().copied().enumerate().filter(|x| x.1 != 0).collect();
            return Err(format!("histogram {nz:?} != in-the-clear attribution {wz:?}"));
        }
    }
    // follower shards: nothing, or zeros
    for s in 1..c.shards {
        for h in 0..3 {
            let v = out[h][s].ok().unwrap();
            let vals: Vec<u128> = (0..v.len()).map(|i| out[0][s].ok().unwrap()[i].0 ^ out[1][s].ok().unwrap()[i].0 ^ out[2][s].ok().unwrap()[i].0).collect();
            if vals.iter().any(|x| *x != 0) {
                return Err(format!("follower shard {s} returned a non-zero histogram"));
            }
            let _ = h;
        }
    }
    Ok(())
}

pub fn case_json(c: &Case1) -> serde_json::Value {
    json!({"shards":c.shards,"malicious":c.malicious,"hv_bits":c.hv_bits,"padding":c.padding,"seed":c.seed,
        "reports":c.reports.iter().map(|r| json!([if r.conversion {"C"} else {"I"}, r.mk, r.data])).collect::<Vec<_>>(),"assign":c.assign})
}

/// all multisets of size n over the 4-symbol alphabet {I,C} x {mk a, mk b}
fn multisets(n: usize) -> Vec<Vec<Rep>> {
    let alpha = [
        Rep { conversion: false, mk: 1001, data: 5 },
        Rep { conversion: true, mk: 1001, data: 3 },
        Rep { conversion: false, mk: 2002, data: 200 },
        Rep { conversion: true, mk: 2002, data: 6 },
    ];
    fn rec(alpha: &[Rep], start: usize, n: usize, cur: &mut Vec<Rep>, out: &mut Vec<Vec<Rep>>) {
        if cur.len() == n {
            out.push(cur.clone());
            return;
        }
        for i in start..alpha.len() {
            cur.push(alpha[i]);
            rec(alpha, i, n, cur, out);
            cur.pop();
        }
    }
    let mut out = Vec::new();
    rec(&alpha, 0, n, &mut Vec::new(), &mut out);
    out
}

fn assignments(n: usize, shards: usize) -> Vec<Vec<usize>> {
    let mut out = Vec::new();
    let total = shards.pow(n as u32);
    for mut k in 0..total {
        out.push((0..n).map(|_| { let s = k % shards; k /= shards; s }).collect());
    }
    out
}

/// every group shape with wrap-around and colliding data, one match key per group
pub fn shape_input() -> Vec<Rep> {
    let mut v = Vec::new();
    let mut mk = 50_000u64;
    let mut group = |reps: &[(bool, u32)], v: &mut Vec<Rep>| {
        mk += 1;
        for (conversion, data) in reps {
            v.push(Rep { conversion: *conversion, mk, data: *data });
        }
    };
    let (i, c) = (false, true);
    // singles, triples, quadruple: contribute nothing
    group(&[(i, 7)], &mut v);
    group(&[(c, 7)], &mut v);
    group(&[(i, 1), (i, 2), (c, 3)], &mut v);
    group(&[(i, 1), (c, 2), (c, 3)], &mut v);
    group(&[(c, 1), (c, 2), (c, 3)], &mut v);
    group(&[(i, 1), (i, 2), (i, 3)], &mut v);
    group(&[(i, 1), (c, 2), (i, 3), (c, 4)], &mut v);
    // larger groups (5..=9, 11 reports of one match key) with non-zero conversion values: nothing
    for size in [5usize, 6, 7, 8, 9, 11] {
        let reps: Vec<(bool, u32)> = (0..size).map(|k| if k % 2 == 0 { (c, 1 + (k as u32 % 7)) } else { (i, 3 + k as u32) }).collect();
        group(&reps, &mut v);
    }
    group(&[(c, 5), (c, 5), (c, 5), (c, 5), (c, 5)], &mut v);
    // pairs: II (value 0), IC, CI, CC with wrap of the value (7+7, 4+4) and of the key (255+1, 128+128)
    group(&[(i, 255), (i, 1)], &mut v);
    group(&[(i, 128), (i, 128)], &mut v);
    for bk in [0u32, 1, 127, 128, 255] {
        for val in [0u32, 1, 4, 7] {
            group(&[(i, bk), (c, val)], &mut v);
            group(&[(c, val), (i, bk)], &mut v);
        }
    }
    group(&[(c, 7), (c, 7)], &mut v);
    group(&[(c, 4), (c, 4)], &mut v);
    group(&[(c, 1), (c, 4)], &mut v);
    group(&[(c, 4), (c, 1)], &mut v);
    group(&[(c, 3), (c, 4)], &mut v);
    v
}

fn saturation_input(pairs: usize, bucket: u32) -> Vec<Rep> {
    let mut v = Vec::new();
    for p in 0..pairs {
        v.push(Rep { conversion: false, mk: 70_000 + p as u64, data: bucket });
        v.push(Rep { conversion: true, mk: 70_000 + p as u64, data: 7 });
    }
    v
}

pub fn run_cases(rt: &tokio::runtime::Runtime, cases: &[Case1], r: &mut Report, part: &str) {
    let (w_i, w_n) = common::worker();
    let mine: Vec<&Case1> = cases.iter().enumerate().filter(|(i, _)| i % w_n == w_i).map(|(_, c)| c).collect();
    let results: Vec<Outputs> = rt.block_on(async {
        let mut out = Vec::new();
        for chunk in mine.chunks(10) {
            out.extend(futures::future::join_all(chunk.iter().map(|c| hybrid_world(c, passthrough(), Duration::from_secs(if c.reports.len() > 40 { 240 } else { 12 }), Duration::from_secs(3)))).await);
        }
        out
    });
    for (c, out) in mine.iter().zip(&results) {
        r.inc("evaluations");
        r.inc(&format!("runs_S{}", c.shards));
        let pairs = {
            let mut g: BTreeMap<u64, usize> = BTreeMap::new();
            for x in &c.reports {
                *g.entry(x.mk).or_default() += 1;
            }
            g.values().filter(|n| **n == 2).count()
        };
        if pairs >= 1 {
            r.inc("distinct_nontrivial");
        }
        let mut verdict = check_outputs(c, out);
        if matches!(&verdict, Err(e) if e.starts_with("hang")) && !some_shard_runs_dry(c, rt) {
            // a hang that the known finding does not explain: before it is reported, the case is run
            // again on its own with a generous deadline (the first deadline is short because every
            // dry-shard input has to wait for it; a loaded machine must not turn into an alarm)
            r.inc("hang_rechecks");
            let again = rt.block_on(hybrid_world(c, passthrough(), Duration::from_secs(240), Duration::from_secs(10)));
            verdict = check_outputs(c, &again);
        }
        if let Err(e) = verdict {
            let dry = some_shard_runs_dry(c, rt);
            let sig = if e.starts_with("hang") { "hang" } else if e.contains("ZeroRecords") { "zero-records" } else if e.contains("histogram") { "wrong-histogram" } else { "error" };
            let key = if dry && (sig == "hang" || sig == "zero-records" || sig == "error") {
                format!("hybrid:multi-shard-dry-shard:{sig}")
            } else {
                format!("hybrid:{sig}:S{}:{}", c.shards, if c.malicious { "malicious" } else { "semi-honest" })
            };
            r.violation(&key, &format!("{} reports on {} shards (assignment {:?}): {e}", c.reports.len(), c.shards, if c.assign.len() <= 8 { c.assign.clone() } else { Vec::new() }), json!({"part":part,"case":case_json(c)}));
        } else {
            r.inc("matches_reference");
        }
    }
}

#[test]
fn run() {
    let thorough = common::thorough();
    let rt = fault::runtime(6);
    let seed = common::seed();
    let mut r = Report::new("C01");
    let mut cases: Vec<Case1> = Vec::new();
    // 1. small-scope exhaustive inputs x every assignment (single shard: all; multi-shard: see below)
    let max_n = if thorough { 4 } else { 3 };
    for n in 0..=max_n {
        for ms in multisets(n) {
            for malicious in [false, true] {
                cases.push(Case1 { shards: 1, malicious, hv_bits: 8, padding: false, reports: ms.clone(), assign: vec![0; n], seed: seed + 10 });
            }
        }
    }
    // multi-shard small scope: every assignment of <= 2 (3) reports — these always leave a shard dry
    let ms_n = if thorough { 3 } else { 2 };
    // (the compact-step build repeats the multi-shard small scope only in the thorough tier: every one of
    // these inputs ends in the known dry-shard hang, i.e. in a timeout)
    let compact_quick = cfg!(feature = "compact-gate") && !thorough;
    for shards in if compact_quick { vec![] } else { vec![2usize, 3] } {
        for n in 1..=ms_n {
            for ms in multisets(n).into_iter().filter(|m| if thorough { true } else { m.iter().map(|r| r.mk).collect::<std::collections::BTreeSet<_>>().len() == 1 }) {
                for assign in assignments(n, shards) {
                    if !thorough && shards == 3 && n == 2 && assign[0] > assign[1] {
                        continue;
                    }
                    cases.push(Case1 { shards, malicious: false, hv_bits: 8, padding: false, reports: ms.clone(), assign: assign.clone(), seed: seed + 11 });
                    // the proof-carrying mode on the same dry-shard inputs (all of them in thorough)
                    if thorough || (shards == 2 && assign.iter().all(|a| *a == assign[0])) || n == 1 {
                        cases.push(Case1 { shards, malicious: true, hv_bits: 8, padding: false, reports: ms.clone(), assign, seed: seed + 15 });
                    }
                }
            }
        }
    }
    // no report at all on several shards
    if !compact_quick {
        for (shards, malicious) in [(2usize, false), (2, true), (3, false)] {
            cases.push(Case1 { shards, malicious, hv_bits: 8, padding: false, reports: Vec::new(), assign: Vec::new(), seed: seed + 17 });
        }
    }
    // dummy-record padding on inputs that leave shards without real rows
    if !compact_quick {
        for (shards, malicious) in [(2usize, false), (2, true), (3, false)] {
            let reps = vec![Rep { conversion: false, mk: 4001, data: 9 }, Rep { conversion: true, mk: 4001, data: 5 }, Rep { conversion: true, mk: 4002, data: 3 }];
            cases.push(Case1 { shards, malicious, hv_bits: 8, padding: true, reports: reps, assign: vec![0, 0, shards - 1], seed: seed + 16 });
        }
    }
    // 2./3. group shapes, wrap-around, saturation; several distributions and shard counts
    let shapes = shape_input();
    let n = shapes.len();
    for (shards, malicious, hv_bits, padding) in [(1usize, false, 8usize, false), (1, true, 8, false), (1, false, 16, false), (2, false, 8, false), (2, true, 8, false), (3, false, 8, false), (1, true, 8, true), (2, false, 8, true)] {
        if !thorough && padding && shards == 2 {
            continue;
        }
        if compact_quick && shards == 3 {
            continue;
        }
        let dists: Vec<Vec<usize>> = if shards == 1 { vec![vec![0; n]] } else { vec![(0..n).map(|i| i % shards).collect(), (0..n).map(|i| (i * 7 + i / 3) % shards).collect()] };
        for assign in dists {
            cases.push(Case1 { shards, malicious, hv_bits, padding, reports: shapes.clone(), assign, seed: seed + 12 });
        }
    }
    for (pairs, shards, malicious) in [(36usize, 1usize, false), (37, 1, true), (40, 2, false)] {
        let mut reps = saturation_input(pairs, 5);
        reps.extend(saturation_input(3, 9).into_iter().map(|mut x| { x.mk += 10_000; x }));
        let n = reps.len();
        cases.push(Case1 { shards, malicious, hv_bits: 8, padding: false, reports: reps, assign: (0..n).map(|i| i % shards).collect(), seed: seed + 13 });
    }
    // row counts around the 256-row chunk of the share conversion / PRF evaluation, one shard, no padding
    for (rows, malicious) in [(255usize, false), (256, false), (256, true), (257, false), (512, false)] {
        if !thorough && rows == 512 {
            continue;
        }
        let mut reps = Vec::new();
        for p in 0..rows / 2 {
            reps.push(Rep { conversion: false, mk: 90_000 + p as u64, data: (p % 256) as u32 });
            reps.push(Rep { conversion: true, mk: 90_000 + p as u64, data: 1 + (p % 7) as u32 });
        }
        if rows % 2 == 1 {
            reps.push(Rep { conversion: true, mk: 99_999, data: 7 });
        }
        let n = reps.len();
        cases.push(Case1 { shards: 1, malicious, hv_bits: 16, padding: false, reports: reps, assign: vec![0; n], seed: seed + 14 });
    }
    run_cases(&rt, &cases, &mut r, "attribution");
    r.sample(json!({"case":case_json(&cases[cases.len() / 3])}));
    r.sample(json!({"shape_input_reports":shapes.len(),"reference_nonzero_buckets":reference(&shapes, 8).iter().enumerate().filter(|x| *x.1 != 0).map(|x| (x.0, *x.1)).collect::<Vec<_>>()}));
    r.flag("exhaustive", true);
    r.finish();
}
