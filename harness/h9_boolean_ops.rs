// Hook H9 (ipa-core/src/protocol/ipa_prf/boolean_ops/mod.rs): `multiplication` is a private module.
pub(crate) use super::multiplication::integer_mul;
