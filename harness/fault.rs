// Engine E3: channel census + single-fault enumeration through the repository's
// StreamInterceptor seam, and a runner that executes the 3 x S helper futures of a TestWorld with
// per-future panic capture and timeouts so that every helper's outcome is observable.

use std::{
    collections::BTreeMap,
    future::Future,
    panic::AssertUnwindSafe,
    pin::Pin,
    sync::{
        Arc, Mutex,
        atomic::{AtomicU64, Ordering},
    },
    time::Duration,
};

use futures::{FutureExt, StreamExt, stream::FuturesUnordered};

use crate::helpers::{
    HelperIdentity,
    in_memory_config::{DynStreamInterceptor, InspectContext},
};

#[derive(Clone, Debug, PartialEq, Eq, PartialOrd, Ord)]
pub struct ChannelId {
    pub shard: Option<u32>,
    /// 0-based helper index of the sender / receiver
    pub source: usize,
    pub dest: usize,
    pub gate: String,
}

fn hidx(h: HelperIdentity) -> usize {
    HelperIdentity::make_three().iter().position(|x| *x == h).unwrap()
}

fn channel_of(ctx: &InspectContext) -> Option<ChannelId> {
    match ctx {
        InspectContext::MpcMessage { shard, source, dest, gate } => Some(ChannelId {
            shard: shard.map(u32::from),
            source: hidx(*source),
            dest: hidx(*dest),
            gate: gate.as_ref().to_string(),
        }),
        InspectContext::ShardMessage { .. } => None,
    }
}

#[derive(Default, Debug, Clone)]
pub struct Census {
    /// per channel: (length, fnv hash) of every chunk in order
    pub channels: BTreeMap<ChannelId, Vec<(usize, u64)>>,
    pub shard_messages: u64,
}

pub fn census_interceptor() -> (DynStreamInterceptor, Arc<Mutex<Census>>) {
    let c = Arc::new(Mutex::new(Census::default()));
    let c2 = Arc::clone(&c);
    let f = move |ctx: &InspectContext, data: &mut Vec<u8>| {
        let mut c = c2.lock().unwrap();
        match channel_of(ctx) {
            Some(id) => c.channels.entry(id).or_default().push((data.len(), super::common::fnv(data))),
            None => c.shard_messages += 1,
        }
    };
    (Arc::new(f), c)
}

#[derive(Clone, Debug)]
pub enum FaultKind {
    /// xor `mask` into byte `byte` of the chunk
    Xor { byte: usize, mask: u8 },
    /// add `e` (little-endian, wrapping per element of `width` bytes, reduced mod `modulus` if non-zero)
    /// to element `elem` of the chunk
    Add { elem: usize, width: usize, e: u128, modulus: u128 },
    /// overwrite the whole chunk with zeros
    Zero,
    /// replace the first 8 bytes by a little-endian integer
    SetU64 { value: u64 },
}

#[derive(Clone, Debug)]
pub struct Fault {
    pub channel: ChannelId,
    pub chunk: usize,
    pub kind: FaultKind,
}

impl Fault {
    pub fn to_json(&self) -> serde_json::Value {
        serde_json::json!({
            "shard": self.channel.shard, "source": self.channel.source, "dest": self.channel.dest,
            "gate": self.channel.gate, "chunk": self.chunk, "kind": format!("{:?}", self.kind),
        })
    }
}

/// An interceptor applying exactly one fault; the counter says how many bytes it changed.
pub fn fault_interceptor(fault: Fault) -> (DynStreamInterceptor, Arc<AtomicU64>) {
    let changed = Arc::new(AtomicU64::new(0));
    let ch2 = Arc::clone(&changed);
    let seen = Arc::new(AtomicU64::new(0));
    let f = move |ctx: &InspectContext, data: &mut Vec<u8>| {
        if channel_of(ctx).as_ref() != Some(&fault.channel) {
            return;
        }
        let idx = seen.fetch_add(1, Ordering::SeqCst) as usize;
        if idx != fault.chunk {
            return;
        }
        let before = data.clone();
        match &fault.kind {
            FaultKind::Xor { byte, mask } => {
                if let Some(b) = data.get_mut(*byte) {
                    *b ^= mask;
                }
            }
            FaultKind::Add { elem, width, e, modulus } => {
                let off = elem * width;
                if off + width <= data.len() {
                    let mut buf = [0u8; 16];
                    buf[..*width].copy_from_slice(&data[off..off + width]);
                    let v = u128::from_le_bytes(buf);
                    let nv = if *modulus != 0 { (v % modulus + e % modulus) % modulus } else { v.wrapping_add(*e) };
                    data[off..off + width].copy_from_slice(&nv.to_le_bytes()[..*width]);
                }
            }
            FaultKind::Zero => data.iter_mut().for_each(|b| *b = 0),
            FaultKind::SetU64 { value } => {
                if data.len() >= 8 {
                    data[..8].copy_from_slice(&value.to_le_bytes());
                }
            }
        }
        let n = before.iter().zip(data.iter()).filter(|(a, b)| a != b).count();
        ch2.fetch_add(n as u64, Ordering::SeqCst);
    };
    (Arc::new(f), changed)
}

#[derive(Debug, Clone)]
pub enum Out<T> {
    Ok(T),
    Err(String),
    Panic(String),
    Timeout,
}

impl<T> Out<T> {
    pub fn ok(&self) -> Option<&T> {
        match self {
            Out::Ok(v) => Some(v),
            _ => None,
        }
    }
    pub fn class(&self) -> &'static str {
        match self {
            Out::Ok(_) => "ok",
            Out::Err(_) => "err",
            Out::Panic(_) => "panic",
            Out::Timeout => "timeout",
        }
    }
}

pub type BoxFut<'a, T> = Pin<Box<dyn Future<Output = Result<T, String>> + Send + 'a>>;

/// Runs all futures concurrently. Every future gets `overall`; once one of them has failed
/// (error / panic) the rest get only `grace` more — peers of an aborted helper usually wait for
/// messages that never come.
pub async fn run_all<T: Send>(futs: Vec<BoxFut<'_, T>>, overall: Duration, grace: Duration) -> Vec<Out<T>> {
    let n = futs.len();
    let mut out: Vec<Option<Out<T>>> = (0..n).map(|_| None).collect();
    let mut set = FuturesUnordered::new();
    for (i, f) in futs.into_iter().enumerate() {
        set.push(async move {
            let r = AssertUnwindSafe(f).catch_unwind().await;
            (i, r)
        });
    }
    let start = tokio::time::Instant::now();
    let mut deadline = start + overall;
    loop {
        if set.is_empty() {
            break;
        }
        match tokio::time::timeout_at(deadline, set.next()).await {
            Ok(Some((i, r))) => {
                let o = match r {
                    Ok(Ok(v)) => Out::Ok(v),
                    Ok(Err(e)) => Out::Err(e),
                    Err(p) => {
                        let msg = if let Some(s) = p.downcast_ref::<&str>() {
                            (*s).to_string()
                        } else if let Some(s) = p.downcast_ref::<String>() {
                            s.clone()
                        } else {
                            "<panic>".into()
                        };
                        Out::Panic(msg)
                    }
                };
                if !matches!(o, Out::Ok(_)) {
                    deadline = deadline.min(tokio::time::Instant::now() + grace);
                }
                out[i] = Some(o);
            }
            Ok(None) => break,
            Err(_) => break,
        }
    }
    // abandoned futures may panic in their destructors (a malicious validator dropped with unvalidated
    // records does); that must not take the harness down
    let _ = std::panic::catch_unwind(AssertUnwindSafe(move || drop(set)));
    out.into_iter().map(|o| o.unwrap_or(Out::Timeout)).collect()
}

pub fn runtime(threads: usize) -> tokio::runtime::Runtime {
    tokio::runtime::Builder::new_multi_thread().worker_threads(threads).enable_time().build().unwrap()
}

// ---- process isolation -----------------------------------------------------------------------------
// A corrupted length/count field can make a helper loop or allocate without ever yielding; such a
// future can not be timed out from inside the runtime. Fault runs are therefore executed in child
// processes of the harness binary (same test, `VERIF_CHILD=<tag>:<lo>..<hi>`), killed on a wall
// limit; a batch that is killed is re-run one item at a time to find the items that hang.

pub fn child_range(tag: &str) -> Option<(usize, usize)> {
    let v = std::env::var("VERIF_CHILD").ok()?;
    let (t, r) = v.rsplit_once(':')?;
    if t != tag {
        return Some((0, 0));
    }
    let (lo, hi) = r.split_once("..")?;
    Some((lo.parse().ok()?, hi.parse().ok()?))
}

pub fn is_child() -> bool {
    std::env::var("VERIF_CHILD").is_ok()
}

pub fn child_emit(idx: usize, v: &serde_json::Value) {
    println!("CHILD-RESULT:{idx}:{v}");
}

fn spawn_child(test: &str, tag: &str, lo: usize, hi: usize, limit: Duration) -> (Vec<(usize, serde_json::Value)>, bool) {
    use std::process::{Command, Stdio};
    let exe = std::env::current_exe().unwrap();
    let mut child = Command::new("sh")
        .arg("-c")
        .arg("ulimit -v 12000000; exec \"$0\" \"$@\"")
        .arg(exe)
        .args([test, "--exact", "--nocapture", "--test-threads", "1"])
        .env("VERIF_CHILD", format!("{tag}:{lo}..{hi}"))
        .env("RUST_LOG", "error")
        .stdout(Stdio::piped())
        .stderr(Stdio::null())
        .spawn()
        .expect("spawn child");
    let stdout = child.stdout.take().unwrap();
    let reader = std::thread::spawn(move || {
        use std::io::BufRead;
        let mut out = Vec::new();
        for line in std::io::BufReader::new(stdout).lines().map_while(Result::ok) {
            if let Some(rest) = line.strip_prefix("CHILD-RESULT:") {
                if let Some((i, j)) = rest.split_once(':') {
                    if let (Ok(i), Ok(j)) = (i.parse::<usize>(), serde_json::from_str(j)) {
                        out.push((i, j));
                    }
                }
            }
        }
        out
    });
    let start = std::time::Instant::now();
    let mut killed = false;
    loop {
        match child.try_wait() {
            Ok(Some(_)) => break,
            Ok(None) => {
                if start.elapsed() > limit {
                    let _ = child.kill();
                    let _ = child.wait();
                    killed = true;
                    break;
                }
                std::thread::sleep(Duration::from_millis(20));
            }
            Err(_) => break,
        }
    }
    (reader.join().unwrap_or_default(), killed)
}

/// Runs items `0..n` of the (deterministic) item list `tag` in child processes. Returns per item
/// `Some(result)` or `None` if the item could only be stopped by killing its process.
pub fn run_isolated(test: &str, tag: &str, n: usize, batch: usize, batch_limit: Duration, single_limit: Duration, parallel: usize) -> Vec<Option<serde_json::Value>> {
    let mut results: Vec<Option<serde_json::Value>> = vec![None; n];
    let batches: Vec<(usize, usize)> = (0..n).step_by(batch.max(1)).map(|lo| (lo, (lo + batch).min(n))).collect();
    let outs = super::common::par_map(batches.len(), parallel, |b| {
        let (lo, hi) = batches[b];
        let (got, killed) = spawn_child(test, tag, lo, hi, batch_limit);
        let mut got: BTreeMap<usize, serde_json::Value> = got.into_iter().collect();
        if killed || got.len() < hi - lo {
            // find the culprits one by one
            for i in lo..hi {
                if !got.contains_key(&i) {
                    let (g, _) = spawn_child(test, tag, i, i + 1, single_limit);
                    for (k, v) in g {
                        got.insert(k, v);
                    }
                }
            }
        }
        got
    });
    for m in outs {
        for (k, v) in m {
            if k < n {
                results[k] = Some(v);
            }
        }
    }
    results
}
