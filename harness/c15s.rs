// C15 / E2: the multi-threaded seq_join (seq_join/multi_thread.rs: every item is spawned as a real
// task through async_scoped) under every interleaving with <= k preemptions. Tasks yield, and one
// task may wait for another task of the same window to resolve (dependency in either direction).
// (module path: crate::verif::c15s; config B2 = shuttle + multi-threading)

use std::{
    collections::BTreeSet,
    num::NonZeroUsize,
    pin::Pin,
    sync::{Arc as StdArc, Mutex as StdMutex},
};

use futures::{Future, StreamExt, channel::oneshot, stream};
use serde_json::json;

use super::{
    common::{self, Report},
    sched::{self, Cfg},
};
use crate::seq_join::{SeqJoin, seq_join, seq_try_join_all};

struct Joiner(NonZeroUsize);
impl SeqJoin for Joiner {
    fn active_work(&self) -> NonZeroUsize {
        self.0
    }
}

#[derive(Clone, Copy, Debug)]
pub struct Drv {
    pub n: usize,
    pub w: usize,
    /// task `dep.0` resolves only after task `dep.1` resolved (|a-b| <= w-1)
    pub dep: Option<(usize, usize)>,
    /// position of the task returning Err (fallible variant), usize::MAX = none
    pub err: usize,
    /// 0 = seq_join (stream), 1 = seq_try_join_all, 2 = parallel_join
    pub mode: u8,
    pub yields: usize,
    /// the source stream answers Pending (waking itself) once before every item (seq_join only)
    pub src_pending: bool,
    /// a second failing task (parallel join only); usize::MAX = none
    pub err2: usize,
}

impl Drv {
    pub fn name(&self) -> String {
        format!("n{}-w{}-dep{:?}-err{}-{}-y{}", self.n, self.w, self.dep, if self.err == usize::MAX { "none".to_string() } else { self.err.to_string() }, ["join", "try", "parallel"][self.mode as usize], self.yields).replace(' ', "") + if self.src_pending { "-srcpend" } else { "" } + &if self.err2 == usize::MAX { String::new() } else { format!("-err2_{}", self.err2) }
    }
    pub fn to_json(&self) -> serde_json::Value {
        json!({"n":self.n,"w":self.w,"dep":self.dep.map(|d| vec![d.0,d.1]),"err":if self.err==usize::MAX {-1i64} else {self.err as i64},"mode":self.mode,"yields":self.yields,"src_pending":self.src_pending,"err2":if self.err2==usize::MAX {-1i64} else {self.err2 as i64}})
    }
    pub fn from_json(v: &serde_json::Value) -> Self {
        let u = |k: &str| v[k].as_u64().unwrap() as usize;
        Self {
            n: u("n"),
            w: u("w"),
            dep: v["dep"].as_array().map(|a| (a[0].as_u64().unwrap() as usize, a[1].as_u64().unwrap() as usize)),
            err: if v["err"].as_i64().unwrap() < 0 { usize::MAX } else { v["err"].as_i64().unwrap() as usize },
            mode: v["mode"].as_u64().unwrap() as u8,
            yields: u("yields"),
            src_pending: v["src_pending"].as_bool().unwrap_or(false),
            err2: v["err2"].as_i64().filter(|x| *x >= 0).map_or(usize::MAX, |x| x as usize),
        }
    }
}

type Task = Pin<Box<dyn Future<Output = Result<usize, String>> + Send>>;

/// a source that is not ready at the first poll for each item
struct PendingSource {
    items: std::vec::IntoIter<Task>,
    pended: bool,
}
impl futures::Stream for PendingSource {
    type Item = Task;
    fn poll_next(mut self: Pin<&mut Self>, cx: &mut std::task::Context<'_>) -> std::task::Poll<Option<Task>> {
        if !self.pended {
            self.pended = true;
            cx.waker().wake_by_ref();
            return std::task::Poll::Pending;
        }
        self.pended = false;
        std::task::Poll::Ready(self.items.next())
    }
    fn size_hint(&self) -> (usize, Option<usize>) {
        self.items.size_hint()
    }
}

fn tasks(d: Drv, log: StdArc<StdMutex<Vec<usize>>>) -> Vec<Task> {
    let mut tx: Option<oneshot::Sender<()>> = None;
    let mut rx: Option<oneshot::Receiver<()>> = None;
    if d.dep.is_some() {
        let (t, r) = oneshot::channel();
        tx = Some(t);
        rx = Some(r);
    }
    (0..d.n)
        .map(|i| {
            let my_rx = if d.dep.map(|x| x.0) == Some(i) { rx.take() } else { None };
            let my_tx = if d.dep.map(|x| x.1) == Some(i) { tx.take() } else { None };
            let log = StdArc::clone(&log);
            Box::pin(async move {
                for _ in 0..d.yields {
                    shuttle::future::yield_now().await;
                }
                if let Some(r) = my_rx {
                    r.await.map_err(|_| "dependency dropped".to_string())?;
                }
                log.lock().unwrap().push(i);
                if let Some(t) = my_tx {
                    let _ = t.send(());
                }
                if i == d.err || i == d.err2 { Err(format!("task {i} failed")) } else { Ok(i) }
            }) as Task
        })
        .collect()
}

fn body(d: Drv, outcomes: StdArc<StdMutex<BTreeSet<String>>>) {
    shuttle::future::block_on(async move {
        let log = StdArc::new(StdMutex::new(Vec::new()));
        let ts = tasks(d, StdArc::clone(&log));
        let w = NonZeroUsize::new(d.w).unwrap();
        if d.mode >= 1 {
            let r: Result<Vec<usize>, String> = if d.mode == 1 { seq_try_join_all(w, ts).await } else { Joiner(w).parallel_join(ts).await };
            if d.err == usize::MAX {
                assert!(r == Ok((0..d.n).collect::<Vec<_>>()), "C15-ORACLE order: fallible join (mode {}) returned {r:?}", d.mode);
            } else {
                let first = d.err.min(d.err2);
                assert!(r == Err(format!("task {first} failed")), "C15-ORACLE error: fallible join (mode {}) returned {r:?}, the first failing task in input order is {first}", d.mode);
            }
        } else {
            let r: Vec<Result<usize, String>> = if d.src_pending { seq_join(w, PendingSource { items: ts.into_iter(), pended: false }).collect().await } else { seq_join(w, stream::iter(ts)).collect().await };
            let want: Vec<Result<usize, String>> = (0..d.n).map(|i| if i == d.err { Err(format!("task {i} failed")) } else { Ok(i) }).collect();
            assert!(r == want, "C15-ORACLE order: seq_join yielded {r:?}");
        }
        let order = log.lock().unwrap().clone();
        let mut seen = BTreeSet::new();
        for i in &order {
            assert!(seen.insert(*i), "C15-ORACLE exactly-once: task {i} ran to completion twice ({order:?})");
        }
        outcomes.lock().unwrap().insert(format!("{order:?}"));
    });
}

#[test]
fn run() {
    let mut r = Report::new("C15");
    if let Some(rep) = common::replay_arg() {
        let d = Drv::from_json(&rep["driver"]);
        let path: Vec<u32> = rep["schedule"].as_array().unwrap().iter().map(|v| v.as_u64().unwrap() as u32).collect();
        let outcomes = StdArc::new(StdMutex::new(BTreeSet::new()));
        let mut cfg = Cfg::new(rep["bound"].as_u64().unwrap() as u32);
        cfg.forced = Some(path.clone());
        cfg.worker = (0, 1);
        let out = sched::explore(cfg, move || body(d, StdArc::clone(&outcomes)));
        r.add("states", 1);
        r.add("transitions", out.steps);
        if let Some((_, msg)) = out.failure {
            r.violation(&format!("seq-join-mt:replay:{}", d.name()), &msg, json!({"part":"multi-thread","driver":rep["driver"],"bound":rep["bound"],"schedule":path}));
        }
        r.finish();
        return;
    }
    let thorough = common::thorough();
    let none = usize::MAX;
    let mut drivers: Vec<(Drv, Vec<u32>)> = Vec::new();
    let nmax = if thorough { 5 } else { 4 };
    for n in 1..=nmax {
        for w in 1..=n.min(4) {
            let kmax: u32 = match (n, thorough) {
                (1..=2, _) => 3,
                (3, false) => 2,
                (3, true) => 3,
                (4, false) => 1,
                (4, true) => 2,
                _ => 1,
            };
            let bounds: Vec<u32> = (0..=kmax).collect();
            drivers.push((Drv { n, w, dep: None, err: none, mode: 0, yields: 1, src_pending: false, err2: usize::MAX }, bounds.clone()));
            drivers.push((Drv { n, w, dep: None, err: none, mode: 0, yields: 1, src_pending: true, err2: usize::MAX }, bounds.clone()));
            if n >= 2 {
                drivers.push((Drv { n, w, dep: None, err: n - 1, mode: 0, yields: 0, src_pending: true, err2: usize::MAX }, bounds.clone()));
            }
            // every single dependency inside a window, both directions
            for a in 0..n {
                for b in 0..n {
                    if a != b && a.abs_diff(b) <= w - 1 {
                        drivers.push((Drv { n, w, dep: Some((a, b)), err: none, mode: 0, yields: 0, src_pending: false, err2: usize::MAX }, bounds.clone()));
                    }
                }
            }
            // every error position, fallible variant
            for e in 0..n {
                // An early error with other items still in flight makes multi_thread.rs cancel them
                // through `spawn_cancellable(.., || panic!(..))`; tokio contains that panic in the
                // task's JoinHandle, shuttle reports any task panic as a failed execution, so this
                // path cannot be explored under shuttle (the single-threaded implementation's early
                // termination is explored by the E1 arm). Errors are placed where nothing else can be
                // in flight: window 1, or the last item.
                if w > 1 && e != n - 1 {
                    continue;
                }
                drivers.push((Drv { n, w, dep: None, err: e, mode: 1, yields: 1, src_pending: false, err2: usize::MAX }, bounds.clone()));
            }
            drivers.push((Drv { n, w, dep: None, err: none, mode: 1, yields: 0, src_pending: false, err2: usize::MAX }, bounds.clone()));
            if w == n {
                // parallel_join spawns everything at once: the window is the whole input
                drivers.push((Drv { n, w, dep: None, err: none, mode: 2, yields: 1, src_pending: false, err2: usize::MAX }, bounds.clone()));
                drivers.push((Drv { n, w, dep: None, err: n - 1, mode: 2, yields: 0, src_pending: false, err2: usize::MAX }, bounds.clone()));
                // two failing tasks: the error of the first one in input order is returned. Returning
                // early abandons the tasks still in flight, whose cancellation handler panics (tokio
                // contains that panic in the JoinHandle, shuttle reports it): such executions are counted
                // as tolerated and the exploration goes on; the others reach the oracle
                if n >= 2 {
                    drivers.push((Drv { n, w, dep: None, err: 0, mode: 2, yields: 0, src_pending: false, err2: n - 1 }, bounds.clone()));
                    drivers.push((Drv { n, w, dep: None, err: n - 2, mode: 2, yields: 1, src_pending: false, err2: n - 1 }, bounds.clone()));
                }
                for a in 0..n {
                    for b in 0..n {
                        if a != b {
                            drivers.push((Drv { n, w, dep: Some((a, b)), err: none, mode: 2, yields: 0, src_pending: false, err2: usize::MAX }, bounds.clone()));
                        }
                    }
                }
            }
        }
    }
    r.add("drivers", drivers.len() as u64);
    r.flag("exhaustive", true);
    let (cap_exec, cap_wall) = if thorough { (5_000_000, 600) } else { (500_000, 60) };
    let budget = sched::Budget::new(if thorough { 2400 } else { 200 }, cap_wall);
    let mut left: usize = drivers.iter().enumerate().filter(|(i, _)| common::mine(*i)).count();
    for (i, (d, bounds)) in drivers.into_iter().enumerate() {
        // drivers are distributed over the worker processes (each explores its drivers completely)
        if !common::mine(i) {
            continue;
        }
        let share = budget.share(left);
        left -= 1;
        if !explore_driver_with_worker(d, &bounds, cap_exec, (share / bounds.len().max(1) as u64).max(5), &mut r) {
            break;
        }
    }
    r.sample(json!({"driver":{"n":3,"w":2,"dep":[1,0]},"tasks":"main polling SequentialFutures + one real task per item (async_scoped on shuttle)","oracle":"results in input order, exactly once, error ends the fallible variant, no deadlock"}));
    r.finish();
}

/// a driver is explored by one process: the scheduler's own partitioning is switched off
fn explore_driver_with_worker(d: Drv, bounds: &[u32], cap_exec: u64, cap_wall_s: u64, r: &mut Report) -> bool {
    // Cfg::new reads VERIF_WORKER; override to (0,1)
    let name = d.name();
    for &k in bounds {
        let outcomes = StdArc::new(StdMutex::new(BTreeSet::new()));
        let o2 = StdArc::clone(&outcomes);
        let mut cfg = Cfg::new(k);
        cfg.worker = (0, 1);
        cfg.max_exec = cap_exec;
        cfg.max_wall = std::time::Duration::from_secs(cap_wall_s);
        if d.err2 != usize::MAX {
            cfg.tolerate = Some("parallel_join: task cancelled");
        }
        let out = sched::explore(cfg, move || body(d, StdArc::clone(&o2)));
        r.add("tolerated_cancellation_panics", out.tolerated);
        r.add("states", out.counted);
        r.add("transitions", out.steps);
        r.add("evaluations", out.executions);
        r.add("distinct_nontrivial", out.counted);
        r.add("mt_schedules", out.counted);
        r.max("depth", out.max_depth as u64);
        r.max("preemptions_used", u64::from(out.max_preempt));
        r.max("distinct_completion_orders_mt", outcomes.lock().unwrap().len() as u64);
        if std::env::var("VERIF_VERBOSE").is_ok() {
            eprintln!("{name} k={k}: execs {} steps {} depth {} orders {} wall {:.1}s complete {} cap {}", out.executions, out.steps, out.max_depth, outcomes.lock().unwrap().len(), out.wall, out.complete, out.cap_hit);
        }
        if let Some(m) = out.machinery {
            r.machinery(&format!("{name} k={k}: {m}"));
            return false;
        }
        if let Some((path, msg)) = out.failure {
            let kind = if msg.contains("deadlock") { "deadlock" } else if msg.contains("C15-ORACLE") { "oracle" } else { "panic" };
            r.violation(&format!("seq-join-mt:{kind}:{name}"), &format!("k={k}: {msg}"), json!({"part":"multi-thread","driver":d.to_json(),"bound":k,"schedule":path}));
            return false;
        }
        if out.cap_hit || !out.complete {
            r.flag("exhaustive", false);
            r.note(format!("{name}: cap hit at k={k} after {} executions ({:.0}s); bounds below k completed", out.executions, out.wall));
            r.set("bounds_completed", format!("{name}:k<{k}"));
            return true;
        }
        r.set("bounds_completed", format!("{name}:k={k}"));
    }
    true
}
