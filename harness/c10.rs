// C10 / E5+E3: encrypted reports — round trip over an input grid, every single-bit flip at every
// byte offset, every truncation, every event-type / key-id byte, wrong key; totality of the parser
// on all byte strings of length <= 2 and of the length-delimited reader on all 2-byte prefixes.
// (module path: crate::verif::c10; config A)

use bytes::Bytes;
use rand::{SeedableRng, rngs::StdRng};
use serde_json::json;

use super::common::{self, Report};
use crate::{
    ff::boolean_array::{BA3, BA8, BA64},
    hpke::{KeyPair, KeyRegistry},
    report::{
        hybrid::{EncryptedHybridReport, HybridConversionReport, HybridImpressionReport, HybridReport},
        hybrid_info::{HybridConversionInfo, HybridImpressionInfo},
    },
    secret_sharing::replicated::{ReplicatedSecretSharing, semi_honest::AdditiveShare},
    ff::U128Conversions,
};

type Enc = EncryptedHybridReport<BA8, BA3>;

pub fn impression(mk: u64, bk: u8, key_id: u8) -> HybridReport<BA8, BA3> {
    HybridReport::Impression(HybridImpressionReport::<BA8> {
        match_key: AdditiveShare::new(BA64::truncate_from(u128::from(mk)), BA64::truncate_from(u128::from(!mk))),
        breakdown_key: AdditiveShare::new(BA8::truncate_from(u128::from(bk)), BA8::truncate_from(u128::from(bk ^ 0x5a))),
        info: HybridImpressionInfo::new(key_id),
    })
}

pub fn conversion(mk: u64, v: u8, key_id: u8, site: &str, ts: u64, eps: f64, sens: f64) -> HybridReport<BA8, BA3> {
    HybridReport::Conversion(HybridConversionReport::<BA3> {
        match_key: AdditiveShare::new(BA64::truncate_from(u128::from(mk)), BA64::truncate_from(u128::from(mk.rotate_left(7)))),
        value: AdditiveShare::new(BA3::truncate_from(u128::from(v & 7)), BA3::truncate_from(u128::from((v >> 3) & 7))),
        info: HybridConversionInfo::new(key_id, site, ts, eps, sens).unwrap(),
    })
}

/// parse + decrypt, with every panic turned into a distinguishable outcome
pub fn open(bytes: &[u8], reg: &KeyRegistry<KeyPair>) -> Result<Result<HybridReport<BA8, BA3>, String>, String> {
    let b = Bytes::copy_from_slice(bytes);
    common::catch(|| match Enc::try_from(b) {
        Ok(e) => e.decrypt(reg).map_err(|e| format!("decrypt: {e}")),
        Err(e) => Err(format!("parse: {e}")),
    })
}

struct Tally {
    panics: Vec<(String, String)>,
    accepted_different: Vec<String>,
    accepted_same: Vec<String>,
    rejected: u64,
    cases: u64,
}

impl Tally {
    fn new() -> Self {
        Self { panics: Vec::new(), accepted_different: Vec::new(), accepted_same: Vec::new(), rejected: 0, cases: 0 }
    }
    /// `must_fail`: the tampering changes a bit the report depends on
    fn judge(&mut self, what: impl Fn() -> String, class: &str, bytes: &[u8], reg: &KeyRegistry<KeyPair>, original: &HybridReport<BA8, BA3>) {
        self.cases += 1;
        match open(bytes, reg) {
            Err(p) => self.panics.push((class.to_string(), format!("{}: {p}", what()))),
            Ok(Err(_)) => self.rejected += 1,
            Ok(Ok(r)) if r == *original => self.accepted_same.push(format!("{}: still decrypts (to the original report)", what())),
            Ok(Ok(r)) => self.accepted_different.push(format!("{}: decrypts to a different report {r:?}", what())),
        }
    }
}

pub fn run_reports(r: &mut Report) {
    let thorough = common::thorough();
    let mut rng = StdRng::seed_from_u64(common::seed());
    let reg = KeyRegistry::<KeyPair>::random(2, &mut rng);
    let other_reg = KeyRegistry::<KeyPair>::random(2, &mut rng);
    let one_key = KeyRegistry::<KeyPair>::random(1, &mut rng);

    // --- round trip over the input grid -------------------------------------------------------
    let mut grid: Vec<HybridReport<BA8, BA3>> = Vec::new();
    for key_id in [0u8, 1] {
        for (mk, bk) in [(0u64, 0u8), (1, 1), (u64::MAX, 255), (0x0123_4567_89ab_cdef, 0x80)] {
            grid.push(impression(mk, bk, key_id));
        }
        let sites: Vec<String> = if thorough { (0..=255usize).map(|n| "a".repeat(n)).collect() } else { [0usize, 1, 2, 8, 63, 64, 127, 128, 254, 255].iter().map(|n| "x".repeat(*n)).collect() };
        for site in &sites {
            for ts in [0u64, 1, 1 << 32, 1 << 63, u64::MAX] {
                for (eps, sens) in [(0.0f64, 0.0f64), (1.0, 1.0), (f64::MAX, f64::MIN_POSITIVE), (5e-324, 1.1)] {
                    grid.push(conversion(ts ^ 0x55, (ts % 64) as u8, key_id, site, ts, eps, sens));
                }
            }
        }
    }
    let mut rt_bad = 0u64;
    let mut rt_first = None;
    let mut lens = std::collections::BTreeSet::new();
    for rep in &grid {
        let key_id = match rep {
            HybridReport::Impression(i) => i.info.key_id,
            HybridReport::Conversion(c) => c.info.key_id,
        };
        let enc = common::catch(|| rep.encrypt(key_id, &reg, &mut rng));
        match enc {
            Ok(Ok(bytes)) => {
                lens.insert(bytes.len());
                if bytes.len() != usize::from(rep.encrypted_len()) {
                    rt_bad += 1;
                    rt_first.get_or_insert_with(|| format!("encrypted_len() = {} but {} bytes were produced", rep.encrypted_len(), bytes.len()));
                }
                match open(&bytes, &reg) {
                    Ok(Ok(back)) if back == *rep => {}
                    other => {
                        rt_bad += 1;
                        rt_first.get_or_insert_with(|| format!("decrypt(encrypt(r)) = {other:?} for r = {rep:?}"));
                    }
                }
            }
            other => {
                rt_bad += 1;
                rt_first.get_or_insert_with(|| format!("encrypt failed: {:?}", other.map(|r| r.map(|b| b.len()))));
            }
        }
    }
    r.add("evaluations", grid.len() as u64);
    r.add("distinct_nontrivial", grid.len() as u64);
    r.add("roundtrip_reports", grid.len() as u64);
    r.add("distinct_ciphertext_lengths", lens.len() as u64);
    if rt_bad > 0 {
        r.violation("report:roundtrip", &format!("{} ({rt_bad} reports)", rt_first.unwrap()), json!({"part":"reports"}));
    }

    // --- tampering ------------------------------------------------------------------------------
    let subjects = [
        ("impression", impression(0xdead_beef_0bad_f00d, 0x42, 0)),
        ("impression-key1", impression(7, 200, 1)),
        ("conversion", conversion(0x1122_3344_5566_7788, 0b101_011, 0, "meta.com", 1_729_707_432, 5.0, 1.1)),
        ("conversion-empty-site", conversion(1, 9, 1, "", 0, 0.0, 0.0)),
        ("conversion-long-site", conversion(2, 63, 0, &"s".repeat(255), u64::MAX, f64::MAX, 1e-300)),
    ];
    let mut t = Tally::new();
    for (name, rep) in &subjects {
        let key_id = match rep {
            HybridReport::Impression(i) => i.info.key_id,
            HybridReport::Conversion(c) => c.info.key_id,
        };
        let bytes = rep.encrypt(key_id, &reg, &mut rng).unwrap();
        // every single-bit flip at every byte offset
        for off in 0..bytes.len() {
            for bit in 0..8 {
                let mut b = bytes.clone();
                b[off] ^= 1 << bit;
                t.judge(|| format!("{name}: bit {bit} of byte {off}/{} flipped", bytes.len()), "bitflip", &b, &reg, rep);
            }
        }
        // every truncation and a few extensions
        for len in 0..bytes.len() {
            t.judge(|| format!("{name}: truncated to {len}/{} bytes", bytes.len()), "truncation", &bytes[..len], &reg, rep);
        }
        // all 256 event-type bytes and all 256 key ids
        let key_off = match rep {
            HybridReport::Impression(_) => 1 + 32 + 16 + 16 + 32 + 2 + 16,
            HybridReport::Conversion(_) => 1 + 32 + 16 + 16 + 32 + 2 + 16,
        };
        for v in 0..=255u8 {
            let mut b = bytes.clone();
            if b[0] != v {
                b[0] = v;
                t.judge(|| format!("{name}: event type byte = {v}"), "event-type", &b, &reg, rep);
            }
            let mut b = bytes.clone();
            if b[key_off] != v {
                b[key_off] = v;
                t.judge(|| format!("{name}: key id byte = {v}"), "key-id", &b, &reg, rep);
                t.judge(|| format!("{name}: key id byte = {v}, single-key registry"), "key-id", &b, &one_key, rep);
            }
        }
        // a different key pair
        t.judge(|| format!("{name}: decrypted with a different key pair"), "wrong-key", &bytes, &other_reg, rep);
    }
    r.add("evaluations", t.cases);
    r.add("distinct_nontrivial", t.cases);
    r.add("tamper_rejected", t.rejected);
    r.add("tamper_accepted_same_report", t.accepted_same.len() as u64);
    r.sample(json!({"subject":"conversion report, site meta.com","faults":"every bit of every byte, every truncation length, 256 event types, 256 key ids, wrong key"}));
    // "changing any bit ... makes decryption fail": a tampered record that still decrypts - even to the
    // original report - carries a bit nothing authenticates
    if let Some(first) = t.accepted_same.first() {
        r.violation("report:tamper-not-rejected", &format!("{first} ({} cases)", t.accepted_same.len()), json!({"part":"reports"}));
    }
    if let Some(first) = t.accepted_different.first() {
        r.violation("report:tamper-accepted", &format!("{first} ({} cases)", t.accepted_different.len()), json!({"part":"reports"}));
    }
    let mut by_class: std::collections::BTreeMap<String, Vec<String>> = Default::default();
    for (c, w) in t.panics {
        by_class.entry(c).or_default().push(w);
    }
    for (c, ws) in by_class {
        r.violation(&format!("report:panic:{c}"), &format!("{} ({} cases)", ws[0], ws.len()), json!({"part":"reports"}));
    }

    // --- totality on short inputs ---------------------------------------------------------------
    let mut panics = Vec::new();
    let mut n = 0u64;
    let mut short: Vec<Vec<u8>> = vec![vec![]];
    for a in 0..=255u8 {
        short.push(vec![a]);
    }
    for a in 0..=255u8 {
        for b in 0..=255u8 {
            short.push(vec![a, b]);
        }
    }
    for s in &short {
        n += 1;
        if let Err(p) = open(s, &reg) {
            panics.push(format!("{s:?}: {p}"));
        }
    }
    r.add("evaluations", n);
    r.add("distinct_nontrivial", n);
    if let Some(f) = panics.first() {
        let key = if panics.iter().any(|p| p.starts_with("[]")) { "report:panic:empty" } else { "report:panic:short" };
        r.violation(key, &format!("{f} ({} inputs)", panics.len()), json!({"part":"reports"}));
    }

    // --- length-delimited reader: all 2-byte prefixes x {no body, short body, exact body} --------
    {
        use futures::StreamExt;
        use crate::helpers::{BodyStream, LengthDelimitedStream};
        let mut lpanics = Vec::new();
        let mut n = 0u64;
        let rt = tokio::runtime::Builder::new_current_thread().build().unwrap();
        let lens: Vec<u16> = if thorough { (0..=u16::MAX).collect() } else { (0..600u16).chain([1000, 4095, 4096, 32767, 32768, 65535]).collect() };
        for len in lens {
            for body in [0usize, 1, usize::from(len) / 2, usize::from(len)] {
                if body > usize::from(len) {
                    continue;
                }
                n += 1;
                let mut buf = len.to_le_bytes().to_vec();
                buf.extend(std::iter::repeat(1u8).take(body));
                let res = common::catch(|| {
                    rt.block_on(async {
                        let mut s = LengthDelimitedStream::<Enc, _>::new(BodyStream::from(buf.clone()));
                        let mut items = 0;
                        while let Some(it) = s.next().await {
                            items += 1;
                            if it.is_err() || items > 4 {
                                break;
                            }
                        }
                    });
                });
                if let Err(p) = res {
                    lpanics.push(format!("length prefix {len} with {body} body bytes: {p}"));
                }
            }
        }
        r.add("evaluations", n);
        r.add("distinct_nontrivial", n);
        if let Some(f) = lpanics.first() {
            r.violation("report:panic:length-delimited", &format!("{f} ({} inputs)", lpanics.len()), json!({"part":"reports"}));
        }
    }
}

/// A query input is a sequence of length-prefixed encrypted records. Every sequence of <= 3 records
/// over {valid impression, valid conversion, empty, truncated, unknown event type} x a set of
/// chunkings (one chunk, one chunk per record, a split inside every record, fixed 7-byte pieces, byte
/// by byte): a body of well-formed records is handed out completely; if record k is the first malformed
/// one the reader must answer with an error after at most k records - never skip it, never end the
/// stream as if nothing had been wrong, never hand out a record behind it.
fn record_sequences(r: &mut Report) {
    use futures::StreamExt;

    use crate::helpers::{BodyStream, LengthDelimitedStream};
    let mut rng = StdRng::seed_from_u64(common::seed() + 77);
    let reg = KeyRegistry::<KeyPair>::random(1, &mut rng);
    let imp = impression(77, 5, 0).encrypt(0, &reg, &mut rng).unwrap();
    let conv = conversion(78, 3, 0, "example.com", 1234, 1.0, 1.0).encrypt(0, &reg, &mut rng).unwrap();
    let mut bad_type = imp.to_vec();
    // (the event-type byte is the last byte of the record's fixed prefix; any value that is neither
    // impression nor conversion) - located by search: the first byte whose change makes try_from fail
    let mut alphabet: Vec<(&str, Vec<u8>, bool)> = vec![("impression", imp.to_vec(), true), ("conversion", conv.to_vec(), true), ("empty", Vec::new(), false), ("truncated", imp[..imp.len() / 3].to_vec(), false)];
    let mut found = false;
    for pos in 0..bad_type.len() {
        let keep = bad_type[pos];
        bad_type[pos] = 0xee;
        if Enc::try_from(bytes::Bytes::from(bad_type.clone())).is_err() {
            found = true;
            break;
        }
        bad_type[pos] = keep;
    }
    if found {
        alphabet.push(("bad-event-type", bad_type, false));
    }
    // keep only records the framing-level conversion really rejects as "malformed" (the others are valid at this level)
    for a in &mut alphabet {
        a.2 = Enc::try_from(bytes::Bytes::from(a.1.clone())).is_ok();
    }
    let rt = tokio::runtime::Builder::new_current_thread().build().unwrap();
    let mut cases = 0u64;
    let mut first_bad: Option<(String, String)> = None;
    let mut nbad = 0u64;
    let n = alphabet.len();
    for len in 1..=3usize {
        for code in 0..n.pow(len as u32) {
            let seq: Vec<usize> = (0..len).map(|k| (code / n.pow(k as u32)) % n).collect();
            let mut body = Vec::new();
            let mut bounds = vec![0usize];
            for &i in &seq {
                body.extend((alphabet[i].1.len() as u16).to_le_bytes());
                body.extend(&alphabet[i].1);
                bounds.push(body.len());
            }
            let first_malformed = seq.iter().position(|i| !alphabet[*i].2);
            let mut chunkings: Vec<Vec<usize>> = vec![vec![], bounds[1..bounds.len() - 1].to_vec()];
            // a cut inside every record (after its length prefix + 1 byte, and in its middle)
            let mut inside = Vec::new();
            for w in bounds.windows(2) {
                if w[1] - w[0] > 3 {
                    inside.push(w[0] + 3);
                    inside.push((w[0] + w[1]) / 2);
                }
            }
            chunkings.push(inside);
            chunkings.push((1..body.len()).filter(|i| i % 7 == 0).collect());
            if body.len() <= 400 {
                chunkings.push((1..body.len()).collect());
            }
            for cuts in chunkings {
                cases += 1;
                let mut chunks: Vec<Vec<u8>> = Vec::new();
                let mut prev = 0;
                for c in cuts.iter().copied().chain([body.len()]) {
                    if c > prev {
                        chunks.push(body[prev..c].to_vec());
                        prev = c;
                    }
                }
                let label = || format!("records {:?}, chunk sizes {:?}", seq.iter().map(|i| alphabet[*i].0).collect::<Vec<_>>(), chunks.iter().map(Vec::len).collect::<Vec<_>>());
                let res = common::catch(|| {
                    rt.block_on(async {
                        let stream = futures::stream::iter(chunks.clone().into_iter().map(|c| Ok::<_, crate::error::BoxError>(bytes::Bytes::from(c))));
                        let mut s = LengthDelimitedStream::<Enc, _>::new(BodyStream::from_bytes_stream(stream));
                        let mut delivered = 0usize;
                        let mut errored = false;
                        while let Some(batch) = s.next().await {
                            match batch {
                                Ok(items) => delivered += items.len(),
                                Err(_) => {
                                    errored = true;
                                    break;
                                }
                            }
                            if delivered > 8 {
                                break;
                            }
                        }
                        (delivered, errored)
                    })
                });
                let verdict = match res {
                    Err(p) => Some(format!("panic: {p}")),
                    Ok((delivered, errored)) => match first_malformed {
                        None if errored || delivered != seq.len() => Some(format!("{delivered} of {} well-formed records delivered, error = {errored}", seq.len())),
                        None => None,
                        Some(k) if !errored => Some(format!("record {k} is malformed but the stream ended without an error ({delivered} records delivered)")),
                        // (records parsed in the same poll as the malformed one are discarded with it - a
                        // documented TODO of the reader; the outcome "error at record k" is what must not depend
                        // on the chunking)
                        Some(k) if delivered > k => Some(format!("record {k} is the first malformed one, but {delivered} records were delivered before the error")),
                        Some(_) => None,
                    },
                };
                if let Some(v) = verdict {
                    nbad += 1;
                    first_bad.get_or_insert((if v.starts_with("panic") { "panic".into() } else { "sequence".into() }, format!("{}: {v}", label())));
                }
            }
        }
    }
    r.add("evaluations", cases);
    r.add("distinct_nontrivial", cases);
    r.add("record_sequence_cases", cases);
    if let Some((kind, what)) = first_bad {
        r.violation(&format!("report:length-delimited-sequence:{kind}"), &format!("{what} ({nbad} failing cases)"), json!({"part":"reports"}));
    }
}

#[test]
fn run() {
    let mut r = Report::new("C10");
    run_reports(&mut r);
    record_sequences(&mut r);
    r.flag("exhaustive", true);
    r.finish();
}


/// C09 (canonical encodings of reports): a decoder may accept a byte string only if re-encoding what
/// it decoded reproduces it. For the info sections and the encrypted records of both report kinds:
/// the exact encoding is accepted and re-encodes to itself; the encoding followed by 1..3 extra bytes
/// (0x00 / 0xff / 0x2e) is rejected - it could only be accepted as a second encoding of the same report.
#[test]
fn run_canonical_reports() {
    let mut r = Report::new("C09");
    let mut rng = StdRng::seed_from_u64(common::seed() + 99);
    let reg = KeyRegistry::<KeyPair>::random(1, &mut rng);
    let mut bad: Vec<(String, String)> = Vec::new();
    let mut n = 0u64;
    // info sections
    for site in ["", "a", "example.com", &"x".repeat(255)] {
        let info = HybridConversionInfo::new(0, site, 1234, 1.0, 2.0).unwrap();
        let enc: Vec<u8> = info.to_bytes().to_vec();
        n += 1;
        match common::catch(|| HybridConversionInfo::from_bytes(&enc)) {
            Ok(Ok(back)) if back.to_bytes().to_vec() == enc => {}
            other => bad.push(("conversion-info-roundtrip".into(), format!("site of {} bytes: {:?}", site.len(), other.map(|x| x.map(|i| i.to_bytes().len()).map_err(|e| e.to_string()))))),
        }
        for extra in 1..=3usize {
            for fill in [0x00u8, 0xff, 0x2e] {
                n += 1;
                let mut b = enc.clone();
                b.extend(std::iter::repeat(fill).take(extra));
                match common::catch(|| HybridConversionInfo::from_bytes(&b)) {
                    Ok(Ok(back)) if back.to_bytes().to_vec() != b => bad.push(("conversion-info-trailing-bytes".into(), format!("the info section of a conversion report (site of {} bytes) followed by {extra} byte(s) {fill:#04x} is accepted, although it re-encodes to {} bytes instead of {}", site.len(), back.to_bytes().len(), b.len()))),
                    Err(p) => bad.push(("panic".into(), p)),
                    _ => {}
                }
            }
        }
    }
    {
        let info = HybridImpressionInfo::new(0);
        let enc: Vec<u8> = info.to_bytes().to_vec();
        for extra in 0..=3usize {
            n += 1;
            let mut b = enc.clone();
            b.extend(std::iter::repeat(0u8).take(extra));
            match common::catch(|| HybridImpressionInfo::from_bytes(&b)) {
                Ok(Ok(back)) if back.to_bytes().to_vec() != b => bad.push(("impression-info-trailing-bytes".into(), format!("the info section of an impression report followed by {extra} zero byte(s) is accepted"))),
                Err(p) => bad.push(("panic".into(), p)),
                _ => {}
            }
        }
    }
    // encrypted records
    for rep in [impression(5, 9, 0), conversion(6, 3, 0, "example.com", 77, 1.0, 1.0), conversion(7, 1, 0, "", 0, 0.5, 0.25)] {
        let bytes = rep.encrypt(0, &reg, &mut rng).unwrap().to_vec();
        n += 1;
        if !matches!(open(&bytes, &reg), Ok(Ok(ref back)) if *back == rep) {
            bad.push(("report-roundtrip".into(), "an encrypted report does not decrypt to itself".into()));
        }
        for extra in 1..=3usize {
            for fill in [0x00u8, 0xff, 0x2e] {
                n += 1;
                let mut b = bytes.clone();
                b.extend(std::iter::repeat(fill).take(extra));
                match open(&b, &reg) {
                    Ok(Ok(back)) => bad.push(("report-trailing-bytes".into(), format!("an encrypted {} report followed by {extra} byte(s) {fill:#04x} decrypts (to {}), so the report has more than one accepted encoding", if matches!(rep, HybridReport::Impression(_)) { "impression" } else { "conversion" }, if back == rep { "the same report" } else { "a different report" }))),
                    Err(p) => bad.push(("panic".into(), p)),
                    Ok(Err(_)) => {}
                }
            }
        }
    }
    r.add("evaluations", n);
    r.add("distinct_nontrivial", n);
    r.add("report_canonical_cases", n);
    let mut seen = std::collections::BTreeSet::new();
    for (k, w) in &bad {
        if seen.insert(k.clone()) {
            r.violation(&format!("encoding:report:{k}"), &format!("{w} ({} failing cases of this kind)", bad.iter().filter(|x| x.0 == *k).count()), json!({"part":"reports-canonical"}));
        }
    }
    r.sample(json!({"oracle":"decode(b) accepted => encode(decode(b)) == b","inputs":"info sections and encrypted records of both kinds, exact and with 1..3 trailing bytes"}));
    r.flag("exhaustive", true);
    r.finish();
}
