// C11 / E5: a report submitted twice in one query is rejected on the shard its copies are routed
// to, wherever the copies are placed; distinct reports are never rejected for duplication.
// Driver: the real `Query::execute` on every shard of a sharded TestWorld with HPKE-encrypted,
// length-delimited input. (module path: crate::verif::c11; config A)

use std::{sync::Arc, time::Duration};

use rand::{SeedableRng, rngs::StdRng};
use serde_json::json;

use crate::verif::{
    common::{self, Report},
    fault::{self, BoxFut, Out},
};
use crate::{
    ff::{
        U128Conversions,
        boolean_array::{BA3, BA8, BA32, BA64},
    },
    helpers::{
        BodyStream,
        query::{HybridQueryParams, QuerySize},
    },
    hpke::{KeyPair, KeyRegistry},
    query::runner::hybrid::Query as HybridQuery,
    report::{
        hybrid::{HybridConversionReport, HybridImpressionReport, HybridReport, UniqueTag, UniqueTagValidator},
        hybrid_info::{HybridConversionInfo, HybridImpressionInfo},
    },
    secret_sharing::{IntoShares, replicated::semi_honest::AdditiveShare},
    test_fixture::{TestWorld, TestWorldConfig, WithShards},
};

/// one logical report: the three helpers' encrypted, length-delimited records
#[derive(Clone)]
struct Enc {
    per_helper: [Vec<u8>; 3],
}

impl Enc {
    /// shard the helper routes this report to: first 16 bytes of the match-key ciphertext,
    /// little-endian, modulo the shard count (computed from the raw bytes, not through UniqueTag)
    fn target(&self, helper: usize, shards: usize) -> usize {
        let rec = &self.per_helper[helper][2..]; // skip the 2-byte length prefix
        let tag: [u8; 16] = rec[1 + 32..1 + 32 + 16].try_into().unwrap();
        (u128::from_le_bytes(tag) % shards as u128) as usize
    }
}

fn make_reports(n: usize, seed: u64, reg: &KeyRegistry<KeyPair>) -> Vec<Enc> {
    let mut rng = StdRng::seed_from_u64(seed);
    (0..n)
        .map(|i| {
            let mk: [AdditiveShare<BA64>; 3] = BA64::truncate_from(7000 + (i / 2) as u128).share_with(&mut rng);
            let per_helper = if i % 2 == 0 {
                let bk: [AdditiveShare<BA8>; 3] = BA8::truncate_from(3 + i as u128).share_with(&mut rng);
                std::array::from_fn(|h| {
                    let r: HybridReport<BA8, BA3> = HybridReport::Impression(HybridImpressionReport { match_key: mk[h].clone(), breakdown_key: bk[h].clone(), info: HybridImpressionInfo::new(0) });
                    let mut buf = Vec::new();
                    r.delimited_encrypt_to(0, reg, &mut rng, &mut buf).unwrap();
                    buf
                })
            } else {
                let v: [AdditiveShare<BA3>; 3] = BA3::truncate_from(1 + (i % 6) as u128).share_with(&mut rng);
                std::array::from_fn(|h| {
                    let r: HybridReport<BA8, BA3> = HybridReport::Conversion(HybridConversionReport {
                        match_key: mk[h].clone(),
                        value: v[h].clone(),
                        info: HybridConversionInfo::new(0, "example.com", 1_700_000_000 + i as u64, 1.0, 1.0).unwrap(),
                    });
                    let mut buf = Vec::new();
                    r.delimited_encrypt_to(0, reg, &mut rng, &mut buf).unwrap();
                    buf
                })
            };
            Enc { per_helper }
        })
        .collect()
}

#[derive(Clone, Debug)]
pub struct Case11 {
    pub shards: usize,
    /// per shard: indices into the report list, in input order (an index may occur several times)
    pub layout: Vec<Vec<usize>>,
    pub reports: usize,
    pub seed: u64,
    /// gateway active-work window (None: the fixture's default)
    pub active: Option<usize>,
}

type Outputs = Vec<Vec<Out<usize>>>;

async fn world_run<const S: usize>(c: &Case11, reg: Arc<KeyRegistry<KeyPair>>, encs: &[Enc], overall: Duration, grace: Duration) -> Outputs {
    let mut config = TestWorldConfig::default();
    config.seed = c.seed;
    config.timeout = None;
    if let Some(a) = c.active {
        config.gateway_config.active = a.try_into().unwrap();
    }
    let world: TestWorld<WithShards<S>> = TestWorld::with_shards(&config);
    let ctxs = world.malicious_contexts();
    let mut futs: Vec<BoxFut<'_, usize>> = Vec::new();
    for (h, per_shard) in ctxs.into_iter().enumerate() {
        for (s, ctx) in per_shard.into_iter().enumerate() {
            let mut buf = Vec::new();
            for i in &c.layout[s] {
                buf.extend_from_slice(&encs[*i].per_helper[h]);
            }
            let size = QuerySize::try_from(c.layout[s].len().max(1)).unwrap();
            let reg = Arc::clone(&reg);
            futs.push(Box::pin(async move {
                let params = HybridQueryParams { with_dp: 0, ..Default::default() };
                HybridQuery::<_, BA32, KeyRegistry<KeyPair>>::new(params, reg)
                    .execute(ctx, size, BodyStream::from(buf))
                    .await
                    .map(|v| v.len())
                    .map_err(|e| format!("{e:?}"))
            }));
        }
    }
    let flat = fault::run_all(futs, overall, grace).await;
    let mut it = flat.into_iter();
    let out = (0..3).map(|_| (0..S).map(|_| it.next().unwrap()).collect()).collect();
    drop(world);
    out
}

async fn dispatch(c: &Case11, reg: Arc<KeyRegistry<KeyPair>>, encs: &[Enc], overall: Duration, grace: Duration) -> Outputs {
    match c.shards {
        1 => world_run::<1>(c, reg, encs, overall, grace).await,
        2 => world_run::<2>(c, reg, encs, overall, grace).await,
        3 => world_run::<3>(c, reg, encs, overall, grace).await,
        4 => world_run::<4>(c, reg, encs, overall, grace).await,
        _ => world_run::<5>(c, reg, encs, overall, grace).await,
    }
}

fn duplicated(c: &Case11) -> Vec<usize> {
    let mut count = vec![0usize; c.reports];
    for l in &c.layout {
        for i in l {
            count[*i] += 1;
        }
    }
    (0..c.reports).filter(|i| count[*i] > 1).collect()
}

fn judge(c: &Case11, encs: &[Enc], out: &Outputs) -> Result<&'static str, String> {
    let dups = duplicated(c);
    let is_dup_err = |o: &Out<usize>| matches!(o, Out::Err(e) if e.contains("DuplicateBytes"));
    if dups.is_empty() {
        for h in 0..3 {
            for s in 0..c.shards {
                if is_dup_err(&out[h][s]) {
                    return Err(format!("pairwise distinct reports, but helper {h} shard {s} failed with a duplicate-report error ({:?})", out[h][s]));
                }
            }
        }
        // pairwise distinct reports: the query must also run to completion on every shard
        for h in 0..3 {
            for s in 0..c.shards {
                if !matches!(out[h][s], Out::Ok(_)) {
                    return Err(format!("pairwise distinct reports, but helper {h} shard {s} did not complete the query ({:?})", out[h][s]));
                }
            }
        }
        return Ok("distinct-not-rejected");
    }
    for h in 0..3 {
        // every shard that is the routing target of some duplicated report must reject
        let targets: std::collections::BTreeSet<usize> = dups.iter().map(|d| encs[*d].target(h, c.shards)).collect();
        if !targets.iter().any(|t| is_dup_err(&out[h][*t])) {
            return Err(format!(
                "helper {h}: report(s) {dups:?} occur twice (layout {:?}) and are routed to shard(s) {targets:?}, whose result is {:?} — no duplicate-report error",
                c.layout,
                targets.iter().map(|t| format!("{:?}", out[h][*t])).collect::<Vec<_>>()
            ));
        }
        for s in 0..c.shards {
            if matches!(out[h][s], Out::Ok(_)) && targets.contains(&s) {
                return Err(format!("helper {h} shard {s} completed the query although a duplicated report was routed to it"));
            }
        }
        if (0..c.shards).all(|s| matches!(out[h][s], Out::Ok(_))) {
            return Err(format!("helper {h} completed the query on every shard despite duplicated reports {dups:?}"));
        }
    }
    Ok("duplicate-rejected")
}

fn validator_component(r: &mut Report) {
    // tags that differ in exactly one bit are distinct reports; equal tags are duplicates
    let base: [u8; 16] = [0x11, 0x22, 0x33, 0x44, 0x55, 0x66, 0x77, 0x88, 0x99, 0xaa, 0xbb, 0xcc, 0xdd, 0xee, 0xf0, 0x0f];
    let mk = |b: [u8; 16]| -> UniqueTag {
        use crate::ff::Serializable;
        UniqueTag::deserialize(generic_array::GenericArray::from_slice(&b)).unwrap()
    };
    let mut bad = Vec::new();
    let mut n = 0u64;
    for byte in 0..16 {
        for bit in 0..8 {
            let mut other = base;
            other[byte] ^= 1 << bit;
            n += 1;
            let mut v = UniqueTagValidator::new(2);
            if v.check_duplicates(&[mk(base), mk(other)]).is_err() {
                bad.push(format!("tags differing in bit {bit} of byte {byte} are reported as duplicates"));
            }
            let mut v = UniqueTagValidator::new(3);
            if v.check_duplicates(&[mk(other), mk(base), mk(other)]).is_ok() {
                bad.push(format!("a tag occurring twice (positions 0 and 2) is accepted (byte {byte} bit {bit})"));
            }
        }
    }
    // shard picker = little-endian integer modulo the shard count
    for s in 1..=5u32 {
        for t in [[0u8; 16], [0xff; 16], base, { let mut b = [0u8; 16]; b[15] = 1; b }, { let mut b = [0u8; 16]; b[0] = 7; b }] {
            n += 1;
            let want = (u128::from_le_bytes(t) % u128::from(s)) as u32;
            if u32::from(mk(t).shard_picker(crate::sharding::ShardIndex::from(s))) != want {
                bad.push(format!("shard_picker({t:?}, {s}) != {want}"));
            }
        }
    }
    r.add("evaluations", n);
    r.add("distinct_nontrivial", n);
    r.add("tag_validator_cases", n);
    if let Some(b) = bad.first() {
        r.violation("dup:tag-validator", &format!("{b} ({} cases)", bad.len()), json!({"part":"duplicates"}));
    }
}

#[test]
fn run() {
    let mut r = Report::new("C11");
    let thorough = common::thorough();
    let rt = fault::runtime(8);
    let seed = common::seed();
    validator_component(&mut r);
    let mut rng = StdRng::seed_from_u64(seed);
    let reg = Arc::new(KeyRegistry::<KeyPair>::random(1, &mut rng));
    let n = if thorough { 6usize } else { 3 };
    let encs = make_reports(n, seed + 1, &reg);
    let mut cases: Vec<Case11> = Vec::new();
    let max_s = if thorough { 5 } else { 3 };
    for shards in 1..=max_s {
        // base placements: round robin; everything on shard 0 except the last report
        let mut bases: Vec<Vec<Vec<usize>>> = vec![(0..shards).map(|s| (0..n).filter(|i| i % shards == s).collect()).collect()];
        if shards > 1 {
            bases.push((0..shards).map(|s| if s == shards - 1 { vec![n - 1] } else if s == 0 { (0..n - 1).collect() } else { vec![] }).collect());
            // dry shards: all reports on the first / on the last shard (the copies of a duplicated report
            // are routed by its tag, possibly to a shard that has no input of its own)
            bases.push((0..shards).map(|s| if s == 0 { (0..n).collect() } else { vec![] }).collect());
            bases.push((0..shards).map(|s| if s == shards - 1 { (0..n).collect() } else { vec![] }).collect());
        }
        for base in bases {
            // (a shard without input declares size 1 and sends an empty body)
            // negative arm
            cases.push(Case11 { shards, layout: base.clone(), reports: n, seed: seed + 50, active: None });
            // one duplicated report: every report x every shard for the copy x front / back
            for d in 0..n {
                for s2 in 0..shards {
                    for front in [true, false] {
                        if !thorough && shards == 3 && front && d != 0 {
                            continue;
                        }
                        let mut l = base.clone();
                        if front { l[s2].insert(0, d) } else { l[s2].push(d) }
                        cases.push(Case11 { shards, layout: l, reports: n, seed: seed + 51, active: None });
                    }
                }
            }
            // both copies away from the original shard; a triple; two different duplicated reports
            if shards > 1 {
                let mut l = base.clone();
                l[shards - 1].push(0);
                l[shards - 1].push(0);
                cases.push(Case11 { shards, layout: l, reports: n, seed: seed + 52, active: None });
                let mut l = base.clone();
                l[0].push(1);
                l[shards - 1].push(2);
                cases.push(Case11 { shards, layout: l, reports: n, seed: seed + 53, active: None });
            }
        }
    }
    let results: Vec<Outputs> = rt.block_on(async {
        let mut out = Vec::new();
        for chunk in cases.chunks(12) {
            out.extend(futures::future::join_all(chunk.iter().map(|c| dispatch(c, Arc::clone(&reg), &encs, Duration::from_secs(25), Duration::from_millis(1500)))).await);
        }
        out
    });
    for (c, o) in cases.iter().zip(&results) {
        r.inc("evaluations");
        r.inc("distinct_nontrivial");
        r.inc(&format!("runs_S{}", c.shards));
        match judge(c, &encs, o) {
            Ok(k) => r.inc(k),
            Err(e) => {
                let kind = if duplicated(c).is_empty() { "false-rejection" } else { "duplicate-not-rejected" };
                r.violation(&format!("dup:{kind}:S{}", c.shards), &e, json!({"part":"duplicates","layout":c.layout,"shards":c.shards,"seed":c.seed}));
            }
        }
    }
    // ---- copies further apart than the active-work window ------------------------------------------------
    // one shard, a gateway window of 16 records, 18 (40) distinct reports and a second copy of report
    // 0 / 1 / the middle one at the end, and the duplicate-free input of the same size
    {
        let m = if thorough { 40usize } else { 18 };
        let many = make_reports(m, seed + 2, &reg);
        let mut far: Vec<Case11> = vec![Case11 { shards: 1, layout: vec![(0..m).collect()], reports: m, seed: seed + 60, active: Some(16) }];
        for d in [0usize, 1, m / 2, m - 1] {
            let mut l: Vec<usize> = (0..m).collect();
            l.push(d);
            far.push(Case11 { shards: 1, layout: vec![l], reports: m, seed: seed + 61, active: Some(16) });
            let mut l: Vec<usize> = (0..m).collect();
            l.insert(0, d);
            far.push(Case11 { shards: 1, layout: vec![l], reports: m, seed: seed + 62, active: Some(16) });
        }
        let res: Vec<Outputs> = rt.block_on(async { futures::future::join_all(far.iter().map(|c| dispatch(c, Arc::clone(&reg), &many, Duration::from_secs(60), Duration::from_millis(1500)))).await });
        for (c, o) in far.iter().zip(&res) {
            r.inc("evaluations");
            r.inc("distinct_nontrivial");
            r.inc("far_apart_runs");
            match judge(c, &many, o) {
                Ok(k) => r.inc(k),
                Err(e) => {
                    let kind = if duplicated(c).is_empty() { "false-rejection" } else { "duplicate-not-rejected" };
                    r.violation(&format!("dup:{kind}:far-apart"), &e, json!({"part":"duplicates","layout_len":c.layout[0].len(),"duplicated":duplicated(c),"active":16}));
                }
            }
        }
    }
    // which shard each report is routed to, per helper (non-vacuity: copies land on other shards than they were submitted to)
    for s in 2..=max_s {
        for (i, e) in encs.iter().enumerate() {
            r.set("routing", format!("S{s}:report{i}->{:?}", (0..3).map(|h| e.target(h, s)).collect::<Vec<_>>()));
        }
    }
    r.sample(json!({"layout_example":cases[cases.len() / 2].layout,"shards":cases[cases.len() / 2].shards}));
    r.flag("exhaustive", true);
    r.finish();
}

// ---- C12: the query-level switch between an exact and a noised release --------------------------------
// `HybridQueryParams::with_dp` is a number: 0 asks for the exact histogram, every other value for a
// differentially private release. The real `Query::execute` on a one-shard malicious world, the same
// four reports (two attributed pairs), with_dp in {0, 1, 2, 7, u32::MAX}: with 0 the released
// buckets are the exact totals; with every other value the release is not the exact histogram (the
// law of the noise itself is the dp part's subject).

#[test]
fn run_dp_switch() {
    use crate::test_fixture::Reconstruct;
    let mut r = Report::new("C12");
    let rt = fault::runtime(8);
    let seed = common::seed() + 1200;
    let mut rng = StdRng::seed_from_u64(seed);
    let reg = Arc::new(KeyRegistry::<KeyPair>::random(1, &mut rng));
    let encs = make_reports(4, seed, &reg);
    let mut exact = vec![0u128; 256];
    exact[3] = 2; // impression 0 (breakdown 3) + conversion 1 (value 1 + 1 % 6)
    exact[5] = 4; // impression 2 (breakdown 5) + conversion 3 (value 1 + 3 % 6)
    let epsilon = 0.5f64;
    let values = [0u32, 1, 2, 7, u32::MAX];
    let runs: Vec<(u32, Vec<Out<Vec<AdditiveShare<BA32>>>>)> = rt.block_on(futures::future::join_all(values.iter().map(|with_dp| {
        let (reg, encs, with_dp) = (Arc::clone(&reg), encs.clone(), *with_dp);
        async move {
            let mut config = TestWorldConfig::default();
            config.seed = seed + 1;
            config.timeout = None;
            let world: TestWorld<WithShards<1>> = TestWorld::with_shards(&config);
            let mut futs: Vec<BoxFut<'_, Vec<AdditiveShare<BA32>>>> = Vec::new();
            for (h, per_shard) in world.malicious_contexts().into_iter().enumerate() {
                for ctx in per_shard {
                    let mut buf = Vec::new();
                    for e in &encs {
                        buf.extend_from_slice(&e.per_helper[h]);
                    }
                    let reg = Arc::clone(&reg);
                    futs.push(Box::pin(async move {
                        let params = HybridQueryParams { with_dp, epsilon, ..Default::default() };
                        HybridQuery::<_, BA32, KeyRegistry<KeyPair>>::new(params, reg).execute(ctx, QuerySize::try_from(4usize).unwrap(), BodyStream::from(buf)).await.map_err(|e| format!("{e:?}"))
                    }));
                }
            }
            let out = fault::run_all(futs, Duration::from_secs(1500), Duration::from_secs(5)).await;
            drop(world);
            (with_dp, out)
        }
    })));
    for (with_dp, out) in runs {
        r.inc("evaluations");
        r.inc("distinct_nontrivial");
        r.inc("dp_switch_runs");
        r.inc("states");
        r.add("transitions", 256);
        let replay = json!({"part":"dp-switch","with_dp":with_dp,"epsilon":epsilon});
        let shares: Vec<&Vec<AdditiveShare<BA32>>> = out.iter().filter_map(|o| o.ok()).collect();
        if shares.len() != 3 {
            r.violation("dp:query-switch:failed", &format!("with_dp = {with_dp}: the query did not complete on every helper: {:?}", out.iter().map(Out::class).collect::<Vec<_>>()), replay);
            continue;
        }
        let hist: Vec<u128> = [shares[0].clone(), shares[1].clone(), shares[2].clone()].reconstruct().iter().map(|v: &BA32| v.as_u128()).collect();
        let noise: Vec<i128> = hist.iter().zip(&exact).map(|(g, e)| *g as i128 - *e as i128).collect();
        let noised_buckets = noise.iter().filter(|n| **n != 0).count();
        r.set("dp_switch_outcomes", format!("with_dp={with_dp}:buckets-differing-from-exact={noised_buckets}"));
        if with_dp == 0 {
            if noised_buckets != 0 {
                r.violation("dp:query-switch:exact-release-differs", &format!("with_dp = 0: {noised_buckets} buckets differ from the exact totals (bucket 3 = {}, bucket 5 = {})", hist[3], hist[5]), replay);
            }
        } else if noised_buckets == 0 {
            r.violation("dp:query-switch:no-noise", &format!("with_dp = {with_dp}, epsilon = {epsilon}: the released histogram is the exact one in all 256 buckets - no noise was added"), replay);
        }
    }
    r.sample(json!({"with_dp":[0,1,2,7,u32::MAX],"oracle":"0: exact; otherwise noised"}));
    r.flag("exhaustive", true);
    r.finish();
}
