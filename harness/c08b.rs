// C08 (derived helpers): Lagrange tables, replicated-share arithmetic, StdArray arithmetic, the
// DZKP field constants.

use serde_json::json;

use super::{
    c08::{Dom, Kind, boundary},
    common::{self, Report},
};
use crate::{
    ff::{Field, Fp31, Fp32BitPrime, Fp61BitPrime, PrimeField},
    protocol::ipa_prf::verif::lagrange::{CanonicalLagrangeDenominator, LagrangeTable},
    secret_sharing::{
        SharedValue, StdArray,
        replicated::{ReplicatedSecretSharing, semi_honest::AdditiveShare},
    },
};

/// reference: value at x of the degree-(N-1) polynomial through (i, y_i), i=0..N, by the plain formula
fn interp<F: Dom + PrimeField>(ys: &[F], x: F) -> F {
    let n = ys.len();
    let mut acc = F::ZERO;
    for i in 0..n {
        let mut num = F::ONE;
        let mut den = F::ONE;
        for j in 0..n {
            if i != j {
                num *= x - F::from_u(j as u128);
                den *= F::from_u(i as u128) - F::from_u(j as u128);
            }
        }
        acc += ys[i] * num * den.invert();
    }
    acc
}

fn lagrange_n<F: Dom + PrimeField, const N: usize, const M: usize>(name: &str, kind: Kind, r: &mut Report)
where
    F: TryFrom<u128>,
    <F as TryFrom<u128>>::Error: std::fmt::Debug,
{
    let den = CanonicalLagrangeDenominator::<F, N>::new();
    let table = LagrangeTable::<F, N, M>::from(CanonicalLagrangeDenominator::<F, N>::new());
    let alpha = boundary(kind);
    let mut bad = 0u64;
    let mut first = None;
    let mut cases = 0u64;
    // y-vectors: every unit vector scaled by every alphabet element (a basis => by linearity the
    // whole space is determined), every monomial x^d, plus mixed alphabet vectors
    let mut ys_list: Vec<[F; N]> = Vec::new();
    for i in 0..N {
        for &a in &alpha {
            let mut y = [F::ZERO; N];
            y[i] = F::from_u(a);
            ys_list.push(y);
        }
    }
    for d in 0..N {
        ys_list.push(std::array::from_fn(|i| {
            let mut p = F::ONE;
            for _ in 0..d {
                p *= F::from_u(i as u128);
            }
            p
        }));
    }
    for s in 0..alpha.len() {
        ys_list.push(std::array::from_fn(|i| F::from_u(alpha[(s + 5 * i) % alpha.len()])));
    }
    if kind.order() == 31 && N <= 4 {
        // Fp31: all 31^N vectors
        ys_list.clear();
        let total = 31usize.pow(N as u32);
        for mut k in 0..total {
            ys_list.push(std::array::from_fn(|_| {
                let v = k % 31;
                k /= 31;
                F::from_u(v as u128)
            }));
        }
    }
    for ys in &ys_list {
        let out = table.eval(ys);
        for j in 0..M {
            let expect = interp(ys, F::from_u((N + j) as u128));
            if out[j] != expect {
                bad += 1;
                first.get_or_insert_with(|| format!("N={N} M={M} ys={ys:?} j={j}"));
            }
        }
        cases += 1;
    }
    // single output point tables
    for &x in alpha.iter().take(12) {
        let t = LagrangeTable::<F, N, 1>::new(&den, &F::from_u(x));
        for ys in ys_list.iter().step_by((ys_list.len() / 50).max(1)) {
            if t.eval(ys)[0] != interp(ys, F::from_u(x)) {
                bad += 1;
                first.get_or_insert_with(|| format!("N={N} x_output={x} ys={ys:?}"));
            }
            cases += 1;
        }
    }
    r.add("evaluations", cases);
    r.set("helpers", format!("lagrange:{name}:N={N}:M={M}:vectors={}", ys_list.len()));
    if bad > 0 {
        r.violation(&format!("lagrange:{name}:N={N}"), &format!("{} ({bad} mismatches)", first.unwrap()), json!({"part":"fields"}));
    }
}

fn shares<F: Dom>(name: &str, elems: &[u128], r: &mut Report) {
    // replicated share arithmetic is element-wise on (left, right)
    let mut bad = 0u64;
    let mut first = None;
    let mut n = 0u64;
    let vals: Vec<F> = elems.iter().map(|v| F::from_u(*v)).collect();
    for (ia, &al) in vals.iter().enumerate() {
        for &ar in vals.iter().skip(ia % 2).step_by(if vals.len() > 40 { 3 } else { 1 }) {
            let a = AdditiveShare::<F>::new(al, ar);
            let na = -a.clone();
            if na.left() != -al || na.right() != -ar {
                bad += 1;
                first.get_or_insert_with(|| format!("neg ({al:?},{ar:?})"));
            }
            for &bl in &vals {
                let br = vals[(ia * 7 + 3) % vals.len()];
                let b = AdditiveShare::<F>::new(bl, br);
                let s = a.clone() + b.clone();
                let d = a.clone() - b.clone();
                let s2 = &a + &b;
                let d2 = &a - &b;
                let m = a.clone() * bl;
                let mut acc = a.clone();
                acc += &b;
                let mut acc2 = a.clone();
                acc2 -= &b;
                let ok = s.left() == al + bl
                    && s.right() == ar + br
                    && d.left() == al - bl
                    && d.right() == ar - br
                    && s2 == s
                    && d2 == d
                    && acc == s
                    && acc2 == d
                    && m.left() == al * bl
                    && m.right() == ar * bl;
                if !ok {
                    bad += 1;
                    first.get_or_insert_with(|| format!("({al:?},{ar:?}) op ({bl:?},{br:?})"));
                }
                n += 1;
            }
        }
    }
    r.add("evaluations", n);
    r.set("helpers", format!("additive-share:{name}"));
    if bad > 0 {
        r.violation(&format!("share-arith:{name}"), &format!("{} ({bad})", first.unwrap()), json!({"part":"fields"}));
    }
}

macro_rules! std_array {
    ($F:ty, $N:literal, $name:expr, $elems:expr, $r:expr) => {{
        let vals: Vec<$F> = $elems.iter().map(|v| <$F as Dom>::from_u(*v)).collect();
        let mut bad = 0u64;
        let mut n = 0u64;
        for s in 0..vals.len() {
            let xa: Vec<$F> = (0..$N).map(|i| vals[(s + i) % vals.len()]).collect();
            let xb: Vec<$F> = (0..$N).map(|i| vals[(s * 3 + 2 * i + 1) % vals.len()]).collect();
            let k = vals[(s + 1) % vals.len()];
            let a: StdArray<$F, $N> = xa.iter().copied().collect();
            let b: StdArray<$F, $N> = xb.iter().copied().collect();
            let sum: Vec<$F> = (a.clone() + b.clone()).into_iter().collect();
            let dif: Vec<$F> = (a.clone() - b.clone()).into_iter().collect();
            let neg: Vec<$F> = (-a.clone()).into_iter().collect();
            let mut acc = a.clone();
            acc += &b;
            let acc: Vec<$F> = acc.into_iter().collect();
            for i in 0..$N {
                if sum[i] != xa[i] + xb[i] || dif[i] != xa[i] - xb[i] || neg[i] != -xa[i] || acc[i] != sum[i] {
                    bad += 1;
                }
            }
            n += 1;
        }
        $r.add("evaluations", n);
        $r.set("helpers", format!("std-array:{}:N={}", $name, $N));
        if bad > 0 {
            $r.violation(&format!("stdarray-arith:{}", $name), &format!("{bad} element mismatches"), json!({"part":"fields"}));
        }
    }};
}

pub fn run_derived(r: &mut Report) {
    let p31 = Kind::Prime(31);
    let p32 = Kind::Prime(u128::from(Fp32BitPrime::PRIME));
    let p61 = Kind::Prime(u128::from(Fp61BitPrime::PRIME));
    lagrange_n::<Fp31, 2, 1>("Fp31", p31, r);
    lagrange_n::<Fp31, 4, 3>("Fp31", p31, r);
    lagrange_n::<Fp31, 8, 7>("Fp31", p31, r);
    lagrange_n::<Fp32BitPrime, 4, 3>("Fp32BitPrime", p32, r);
    lagrange_n::<Fp32BitPrime, 8, 7>("Fp32BitPrime", p32, r);
    lagrange_n::<Fp61BitPrime, 2, 1>("Fp61BitPrime", p61, r);
    lagrange_n::<Fp61BitPrime, 4, 3>("Fp61BitPrime", p61, r);
    lagrange_n::<Fp61BitPrime, 8, 7>("Fp61BitPrime", p61, r);
    lagrange_n::<Fp61BitPrime, 32, 31>("Fp61BitPrime", p61, r);
    let all31: Vec<u128> = (0..31).collect();
    shares::<Fp31>("Fp31", &all31, r);
    shares::<Fp32BitPrime>("Fp32BitPrime", &boundary(p32), r);
    shares::<Fp61BitPrime>("Fp61BitPrime", &boundary(p61), r);
    std_array!(Fp31, 1, "Fp31", all31, r);
    std_array!(Fp32BitPrime, 32, "Fp32BitPrime", boundary(p32), r);
    std_array!(Fp61BitPrime, 1, "Fp61BitPrime", boundary(p61), r);
}
