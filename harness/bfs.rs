// Engine E4: explicit-state breadth-first search over API-call histories. A state is reached by
// replaying its history on a freshly built real object (live objects do not clone); `run` replays
// a history, checks every step against the reference model, and returns the canonical key of the
// final state together with the operations enabled there.

use std::collections::{BTreeMap, VecDeque};

pub struct BfsStats<Op> {
    pub states: u64,
    pub transitions: u64,
    pub max_depth: usize,
    pub closed: bool,
    /// (history, message) of the first failing transition
    pub failure: Option<(Vec<Op>, String)>,
    /// every failing transition found (bfs_all only); the state behind a failing transition is not expanded
    pub failures: Vec<(Vec<Op>, String)>,
    pub failing_transitions: u64,
    pub deepest: Vec<Op>,
}

/// Like `bfs`, but a failing transition does not end the search: it is recorded (at most
/// `max_failures`) and the search goes on with the other transitions, so that one (known) defect does
/// not hide the rest of the state space.
pub fn bfs_all<Op: Clone, K: Ord + Clone>(
    run: impl Fn(&[Op]) -> Result<(K, Vec<Op>), String>,
    max_depth: usize,
    max_states: u64,
    max_failures: usize,
) -> BfsStats<Op> {
    bfs_impl(run, max_depth, max_states, max_failures)
}

pub fn bfs<Op: Clone, K: Ord + Clone>(
    run: impl Fn(&[Op]) -> Result<(K, Vec<Op>), String>,
    max_depth: usize,
    max_states: u64,
) -> BfsStats<Op> {
    bfs_impl(run, max_depth, max_states, 1)
}

fn bfs_impl<Op: Clone, K: Ord + Clone>(
    run: impl Fn(&[Op]) -> Result<(K, Vec<Op>), String>,
    max_depth: usize,
    max_states: u64,
    max_failures: usize,
) -> BfsStats<Op> {
    let mut seen: BTreeMap<K, ()> = BTreeMap::new();
    let mut frontier: VecDeque<(Vec<Op>, Vec<Op>)> = VecDeque::new();
    let mut st = BfsStats { states: 0, transitions: 0, max_depth: 0, closed: true, failure: None, failures: Vec::new(), failing_transitions: 0, deepest: Vec::new() };
    match run(&[]) {
        Ok((k, en)) => {
            seen.insert(k, ());
            st.states = 1;
            frontier.push_back((Vec::new(), en));
        }
        Err(e) => {
            st.failure = Some((Vec::new(), e.clone()));
            st.failures.push((Vec::new(), e));
            return st;
        }
    }
    while let Some((hist, enabled)) = frontier.pop_front() {
        if hist.len() >= max_depth {
            if !enabled.is_empty() {
                st.closed = false;
            }
            continue;
        }
        for op in enabled {
            let mut h = hist.clone();
            h.push(op);
            st.transitions += 1;
            match run(&h) {
                Ok((k, en)) => {
                    if seen.insert(k, ()).is_none() {
                        st.states += 1;
                        if h.len() > st.max_depth {
                            st.max_depth = h.len();
                            st.deepest = h.clone();
                        }
                        if st.states >= max_states {
                            st.closed = false;
                            return st;
                        }
                        frontier.push_back((h, en));
                    }
                }
                Err(e) => {
                    if st.failure.is_none() {
                        st.failure = Some((h.clone(), e.clone()));
                    }
                    if st.failures.len() < max_failures {
                        st.failures.push((h, e));
                    }
                    st.failing_transitions += 1;
                    if max_failures == 1 {
                        return st;
                    }
                }
            }
        }
    }
    st
}
