// C07 / E5: secure Boolean circuits against the plaintext functions — every operand pair for
// every pair of widths (x, y) in {1..4}^2 (y no wider than x where the circuit requires it), both
// the semi-honest and the proof-carrying context; boundary operands for wider words.
// (module path: crate::verif::c07; config A)

use std::time::Duration;

use rand::{SeedableRng, rngs::StdRng};
use serde_json::json;

use super::{
    common::{self, Report},
    fault::{self, BoxFut, Out},
};
use crate::{
    error::Error,
    ff::{Field, Fp31, U128Conversions, boolean::Boolean},
    protocol::{
        RecordId,
        basics::SecureMul,
        boolean::step::DefaultBitStep,
        context::{Context, TEST_DZKP_STEPS, UpgradableContext, dzkp_validator::DZKPValidator},
        ipa_prf::boolean_ops::{
            addition_sequential::{integer_add, integer_sat_add},
            comparison_and_subtraction_sequential::{compare_geq, compare_gt, integer_sub},
            verif::integer_mul,
        },
    },
    secret_sharing::{
        BitDecomposed, IntoShares,
        replicated::{ReplicatedSecretSharing, semi_honest::AdditiveShare},
    },
    seq_join::SeqJoin,
    test_fixture::{TestWorld, TestWorldConfig},
};

#[derive(Clone, Copy, Debug, PartialEq, Eq)]
pub enum Op {
    Add,
    SatAdd,
    Sub,
    Geq,
    Gt,
    Mul,
}

impl Op {
    /// (result bits, reference value) for operands of the given widths
    fn reference(self, x: u128, y: u128, xw: u32, yw: u32) -> (u32, u128) {
        let m = (1u128 << xw) - 1;
        match self {
            Op::Add => (xw + 1, x + y),
            Op::SatAdd => (xw, (x + y).min(m)),
            Op::Sub => (xw, x.wrapping_sub(y) & m),
            Op::Geq => (1, u128::from(x >= y)),
            Op::Gt => (1, u128::from(x > y)),
            Op::Mul => {
                // y is a signed (two's complement) yw-bit number, x unsigned; result mod 2^(xw+yw)
                let ys = if (y >> (yw - 1)) & 1 == 1 { y as i128 - (1i128 << yw) } else { y as i128 };
                let w = xw + yw;
                (w, ((x as i128 * ys).rem_euclid(1i128 << w)) as u128)
            }
        }
    }
    fn needs_y_not_wider(self) -> bool {
        !matches!(self, Op::Mul)
    }
}

#[derive(Clone, Debug)]
pub struct Case7 {
    pub op: Op,
    pub xw: u32,
    pub yw: u32,
    pub malicious: bool,
    pub pairs: Vec<(u128, u128)>,
    pub seed: u64,
}

type Bits = BitDecomposed<AdditiveShare<Boolean>>;

fn share_bits(v: u128, w: u32, rng: &mut StdRng) -> [Bits; 3] {
    let per_bit: Vec<[AdditiveShare<Boolean>; 3]> = (0..w).map(|i| Boolean::from((v >> i) & 1 == 1).share_with(rng)).collect();
    std::array::from_fn(|h| BitDecomposed::new(per_bit.iter().map(|b| b[h].clone())))
}

async fn apply<C>(op: Op, ctx: C, rid: RecordId, x: &Bits, y: &Bits) -> Result<Vec<AdditiveShare<Boolean>>, Error>
where
    C: Context,
    AdditiveShare<Boolean>: crate::protocol::basics::BooleanProtocols<C>,
{
    Ok(match op {
        Op::Add => {
            let (s, c) = integer_add::<_, DefaultBitStep, 1>(ctx, rid, x, y).await?;
            s.into_iter().chain(std::iter::once(c)).collect()
        }
        Op::SatAdd => integer_sat_add::<_, DefaultBitStep, 1>(ctx, rid, x, y).await?.into_iter().collect(),
        Op::Sub => integer_sub::<_, DefaultBitStep>(ctx, rid, x, y).await?.into_iter().collect(),
        Op::Geq => vec![compare_geq::<_, DefaultBitStep>(ctx, rid, x, y).await?],
        Op::Gt => vec![compare_gt::<_, DefaultBitStep, 1>(ctx, rid, x, y).await?],
        Op::Mul => integer_mul::<_, DefaultBitStep, 1>(ctx, rid, x, y).await?.into_iter().collect(),
    })
}

/// per helper: per record, (left bits, right bits, number of bits)
type Outputs = Vec<Out<Vec<(u128, u128, u32)>>>;

async fn world_run(c: &Case7) -> Outputs {
    let mut config = TestWorldConfig::default();
    config.seed = c.seed;
    config.timeout = None;
    let world = TestWorld::new_with(&config);
    let mut rng = StdRng::seed_from_u64(c.seed ^ 0xc07);
    let mut inputs: [Vec<(Bits, Bits)>; 3] = std::array::from_fn(|_| Vec::new());
    for (x, y) in &c.pairs {
        let xs = share_bits(*x, c.xw, &mut rng);
        let ys = share_bits(*y, c.yw, &mut rng);
        for h in 0..3 {
            inputs[h].push((xs[h].clone(), ys[h].clone()));
        }
    }
    let n = c.pairs.len();
    let op = c.op;
    let pack = |res: Vec<Vec<AdditiveShare<Boolean>>>| -> Vec<(u128, u128, u32)> {
        res.into_iter()
            .map(|bits| {
                let mut l = 0u128;
                let mut r = 0u128;
                for (i, b) in bits.iter().enumerate() {
                    l |= u128::from(bool::from(b.left())) << i;
                    r |= u128::from(bool::from(b.right())) << i;
                }
                (l, r, bits.len() as u32)
            })
            .collect()
    };
    let mut futs: Vec<BoxFut<'_, Vec<(u128, u128, u32)>>> = Vec::new();
    macro_rules! push {
        ($ctxs:expr) => {
            for (ctx, inp) in $ctxs.into_iter().zip(inputs) {
                futs.push(Box::pin(async move {
                    let v = ctx.set_total_records(n).dzkp_validator(TEST_DZKP_STEPS, n.next_power_of_two());
                    let m = v.context();
                    let res = m
                        .try_join(inp.iter().enumerate().map(|(i, (x, y))| apply(op, m.clone(), RecordId::from(i), x, y)))
                        .await
                        .map_err(|e| format!("{e:?}"))?;
                    v.validate().await.map_err(|e| format!("proof rejected: {e:?}"))?;
                    Ok(pack(res))
                }));
            }
        };
    }
    if c.malicious {
        push!(world.malicious_contexts());
    } else {
        push!(world.contexts());
    }
    let out = fault::run_all(futs, Duration::from_secs(if c.pairs.len() > 20_000 { 1500 } else { 240 }), Duration::from_secs(3)).await;
    drop(world);
    out
}

fn check(c: &Case7, out: &Outputs) -> Result<(), String> {
    for h in 0..3 {
        if !matches!(out[h], Out::Ok(_)) {
            return Err(format!("helper {h}: {:?}", out[h]));
        }
    }
    let o: Vec<&Vec<(u128, u128, u32)>> = out.iter().map(|x| x.ok().unwrap()).collect();
    for (i, (x, y)) in c.pairs.iter().enumerate() {
        let (bits, want) = c.op.reference(*x, *y, c.xw, c.yw);
        for h in 0..3 {
            if o[h][i].2 != bits {
                return Err(format!("{:?}({x},{y}) widths ({},{}): result has {} bits, expected {bits}", c.op, c.xw, c.yw, o[h][i].2));
            }
            if o[h][i].1 != o[(h + 1) % 3][i].0 {
                return Err(format!("{:?}({x},{y}): helpers {h} and {} hold different copies of their common share", c.op, (h + 1) % 3));
            }
        }
        let got = o[0][i].0 ^ o[1][i].0 ^ o[2][i].0;
        if got != want {
            return Err(format!("{:?}(x={x} [{} bits], y={y} [{} bits]) = {got}, expected {want}", c.op, c.xw, c.yw));
        }
    }
    Ok(())
}

/// Fp31 multiplication: all 961 pairs, semi-honest arithmetic context
async fn fp31_all_pairs(seed: u64) -> Result<u64, String> {
    let mut config = TestWorldConfig::default();
    config.seed = seed;
    config.timeout = None;
    let world = TestWorld::new_with(&config);
    let mut rng = StdRng::seed_from_u64(seed);
    let pairs: Vec<(u128, u128)> = (0..31).flat_map(|a| (0..31).map(move |b| (a, b))).collect();
    let mut inputs: [Vec<(AdditiveShare<Fp31>, AdditiveShare<Fp31>)>; 3] = std::array::from_fn(|_| Vec::new());
    for (a, b) in &pairs {
        let sa: [AdditiveShare<Fp31>; 3] = Fp31::truncate_from(*a).share_with(&mut rng);
        let sb: [AdditiveShare<Fp31>; 3] = Fp31::truncate_from(*b).share_with(&mut rng);
        for h in 0..3 {
            inputs[h].push((sa[h].clone(), sb[h].clone()));
        }
    }
    let n = pairs.len();
    let mut futs: Vec<BoxFut<'_, Vec<(u128, u128)>>> = Vec::new();
    for (ctx, inp) in world.contexts().into_iter().zip(inputs) {
        futs.push(Box::pin(async move {
            let ctx = ctx.set_total_records(n);
            let res = ctx
                .try_join(inp.iter().enumerate().map(|(i, (a, b))| {
                    let c = ctx.clone();
                    async move { a.multiply(b, c, RecordId::from(i)).await }
                }))
                .await
                .map_err(|e| format!("{e:?}"))?;
            Ok(res.iter().map(|z| (z.left().as_u128(), z.right().as_u128())).collect())
        }));
    }
    let out = fault::run_all(futs, Duration::from_secs(60), Duration::from_secs(3)).await;
    drop(world);
    let mut o = Vec::new();
    for h in 0..3 {
        match &out[h] {
            Out::Ok(v) => o.push(v.clone()),
            x => return Err(format!("helper {h}: {x:?}")),
        }
    }
    for (i, (a, b)) in pairs.iter().enumerate() {
        for h in 0..3 {
            if o[h][i].1 != o[(h + 1) % 3][i].0 {
                return Err(format!("Fp31 {a}*{b}: inconsistent sharing"));
            }
        }
        let got = (o[0][i].0 + o[1][i].0 + o[2][i].0) % 31;
        if got != a * b % 31 {
            return Err(format!("Fp31 {a}*{b} = {got}"));
        }
    }
    Ok(n as u64)
}

fn case_json(c: &Case7) -> serde_json::Value {
    json!({"op":format!("{:?}", c.op),"xw":c.xw,"yw":c.yw,"malicious":c.malicious,"pairs":c.pairs.len(),"seed":c.seed})
}

#[test]
fn run() {
    let mut r = Report::new("C07");
    let thorough = common::thorough();
    let rt = fault::runtime(8);
    let seed = common::seed();
    let mut cases = Vec::new();
    let maxw = if thorough { 7 } else { 4 };
    for op in [Op::Add, Op::SatAdd, Op::Sub, Op::Geq, Op::Gt, Op::Mul] {
        for xw in 1..=maxw {
            for yw in 1..=maxw {
                if op.needs_y_not_wider() && yw > xw {
                    continue;
                }
                if op == Op::Mul && !thorough && xw + yw > 6 {
                    continue;
                }
                let pairs: Vec<(u128, u128)> = (0..(1u128 << xw)).flat_map(|x| (0..(1u128 << yw)).map(move |y| (x, y))).collect();
                for malicious in [false, true] {
                    if malicious && !thorough && (xw + yw) % 2 == 1 && op != Op::Geq {
                        continue; // quick: the proof-carrying mode on half of the width pairs
                    }
                    cases.push(Case7 { op, xw, yw, malicious, pairs: pairs.clone(), seed: seed + cases.len() as u64 });
                }
            }
        }
        // boundary operands for wider words (16 and 64 bits; y narrower too)
        for (xw, yw) in [(16u32, 16u32), (16, 9), (64, 64), (64, 33)] {
            if op == Op::Mul {
                continue;
            }
            let bx = |w: u32| -> Vec<u128> { let m = (1u128 << w) - 1; vec![0, 1, 2, m, m - 1, 1 << (w - 1), (1 << (w - 1)) - 1, 0x5555_5555_5555_5555 & m] };
            let pairs: Vec<(u128, u128)> = bx(xw).into_iter().flat_map(|x| bx(yw).into_iter().map(move |y| (x, y))).chain([(12345 & ((1 << xw) - 1), 12345 & ((1 << yw) - 1))]).collect();
            cases.push(Case7 { op, xw, yw, malicious: xw == 16, pairs, seed: seed + 700 + cases.len() as u64 });
        }
    }
    if thorough {
        // all 2^16 operand pairs of the 8-bit adders, subtractor and comparisons, both modes
        for op in [Op::Add, Op::SatAdd, Op::Sub, Op::Geq, Op::Gt, Op::Mul] {
            let pairs: Vec<(u128, u128)> = (0..256u128).flat_map(|x| (0..256u128).map(move |y| (x, y))).collect();
            for malicious in [false, true] {
                cases.push(Case7 { op, xw: 8, yw: 8, malicious, pairs: pairs.clone(), seed: seed + 800 + cases.len() as u64 });
            }
        }
        cases.push(Case7 { op: Op::Mul, xw: 8, yw: 8, malicious: false, pairs: (0..256u128).flat_map(|x| [(x, 0u128), (x, 1), (x, 127), (x, 128), (x, 255), (x, x)]).collect(), seed: seed + 999 });
    }
    let (w_i, w_n) = common::worker();
    let mine: Vec<&Case7> = cases.iter().enumerate().filter(|(i, _)| i % w_n == w_i).map(|(_, c)| c).collect();
    let results: Vec<Outputs> = rt.block_on(async {
        let mut out = Vec::new();
        for chunk in mine.chunks(8) {
            out.extend(futures::future::join_all(chunk.iter().map(|c| world_run(c))).await);
        }
        out
    });
    for (c, o) in mine.iter().zip(&results) {
        r.add("evaluations", c.pairs.len() as u64);
        r.add("distinct_nontrivial", c.pairs.len() as u64);
        r.inc("circuit_runs");
        r.set("circuits", format!("{:?}:{}", c.op, if c.malicious { "proof-carrying" } else { "semi-honest" }));
        if c.xw != c.yw {
            r.inc("unequal_width_runs");
        }
        if let Err(e) = check(c, o) {
            r.violation(&format!("circuit:{:?}:{}x{}:{}", c.op, c.xw, c.yw, if c.malicious { "malicious" } else { "semi-honest" }), &e, json!({"part":"circuits","case":case_json(c)}));
        }
    }
    if w_i == 0 {
        match rt.block_on(fp31_all_pairs(seed + 5)) {
            Ok(n) => {
                r.add("evaluations", n);
                r.add("distinct_nontrivial", n);
                r.set("circuits", "multiply:Fp31:all-961-pairs");
            }
            Err(e) => r.violation("circuit:multiply:Fp31", &e, json!({"part":"circuits"})),
        }
    }
    r.sample(json!({"case":case_json(&cases[cases.len() / 2]),"operands":"every pair of an x-bit and a y-bit number"}));
    r.flag("exhaustive", true);
    r.finish();
}
