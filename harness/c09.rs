// C09 / E5: wire encodings — exhaustive byte strings for types of <= 2 (3) bytes, slot-wise
// single-fault enumeration for composite and large types. (module path: crate::verif::c09; config A)

use generic_array::GenericArray;
use serde_json::json;
use typenum::Unsigned;

use super::common::{self, Report};
use crate::{
    ff::{
        Fp31, Fp32BitPrime, Fp61BitPrime, Gf2, Gf3Bit, Gf8Bit, Gf9Bit, Gf20Bit, Gf32Bit, Gf40Bit, PrimeField, Serializable,
        boolean::Boolean,
        boolean_array::{BA3, BA4, BA5, BA6, BA7, BA8, BA16, BA20, BA32, BA64, BA96, BA112, BA144, BA256},
        curve_points::RP25519,
        ec_prime_field::Fp25519,
    },
    helpers::hashing::Hash,
    protocol::prss::Seed,
    report::hybrid::{PrfHybridReport, UniqueTag},
    secret_sharing::{StdArray, replicated::semi_honest::AdditiveShare},
};

fn de<T: Serializable>(b: &[u8]) -> Result<T, String> {
    T::deserialize(GenericArray::from_slice(b)).map_err(|e| e.to_string())
}

fn ser<T: Serializable>(v: &T) -> Vec<u8> {
    let mut buf = GenericArray::<u8, T::Size>::default();
    v.serialize(&mut buf);
    buf.to_vec()
}

struct Acc<'a> {
    r: &'a mut Report,
    name: String,
    first: Option<String>,
    bad: u64,
    kind: &'static str,
}

impl<'a> Acc<'a> {
    fn new(r: &'a mut Report, name: &str, kind: &'static str) -> Self {
        Self { r, name: name.to_string(), first: None, bad: 0, kind }
    }
    fn fail(&mut self, what: impl FnOnce() -> String) {
        self.bad += 1;
        if self.first.is_none() {
            self.first = Some(what());
        }
    }
    fn done(self) {
        if let Some(f) = self.first {
            self.r.violation(&format!("{}:{}", self.kind, self.name), &format!("{f} ({} cases)", self.bad), json!({"part":"encodings","type":self.name}));
        }
    }
}

/// Every byte string of `T::Size` bytes: accepted => re-encodes to itself; #accepted = `domain`.
fn exhaustive<T: Serializable + PartialEq + std::fmt::Debug>(name: &str, domain: u64, r: &mut Report) {
    let n = T::Size::USIZE;
    assert!(n <= 3);
    let total = 1u64 << (8 * n);
    let threads = common::ncpu();
    let parts = common::par_map(threads, threads, |t| {
        let mut accepted = 0u64;
        let mut bad: Option<String> = None;
        let mut nbad = 0u64;
        let mut v = t as u64;
        while v < total {
            let bytes = &v.to_le_bytes()[..n];
            match common::catch(|| de::<T>(bytes)) {
                Err(p) => {
                    nbad += 1;
                    bad.get_or_insert_with(|| format!("decoding {bytes:?} panicked: {p}"));
                }
                Ok(Ok(val)) => {
                    accepted += 1;
                    let back = ser(&val);
                    if back != bytes {
                        nbad += 1;
                        bad.get_or_insert_with(|| format!("{bytes:?} is accepted as {val:?} whose encoding is {back:?}"));
                    }
                    if de::<T>(&back).ok().as_ref() != Some(&val) {
                        nbad += 1;
                        bad.get_or_insert_with(|| format!("decode(encode({val:?})) differs"));
                    }
                }
                Ok(Err(_)) => {}
            }
            v += threads as u64;
        }
        (accepted, bad, nbad)
    });
    let accepted: u64 = parts.iter().map(|p| p.0).sum();
    r.add("evaluations", total);
    r.add("distinct_nontrivial", total);
    r.set("exhaustive_types", format!("{name}:{n}B:accepted={accepted}"));
    let mut a = Acc::new(r, name, "encoding");
    for (_, bad, nbad) in parts {
        if let Some(b) = bad {
            a.bad += nbad - 1;
            a.fail(|| b);
        }
    }
    if accepted != domain {
        a.fail(|| format!("{accepted} byte strings are accepted but the type has {domain} values"));
    }
    a.done();
}

/// Round trip of values produced from canonical encodings + rejection of the listed
/// non-canonical encodings, for a single (large) scalar type.
fn scalar<T: Serializable + PartialEq + std::fmt::Debug>(name: &str, canon: &[Vec<u8>], noncanon: &[Vec<u8>], r: &mut Report) {
    let mut a = Acc::new(r, name, "encoding");
    for c in canon {
        match common::catch(|| de::<T>(c)) {
            Ok(Ok(v)) => {
                if ser(&v) != *c {
                    a.fail(|| format!("canonical {c:?} re-encodes as {:?}", ser(&v)));
                }
            }
            Ok(Err(e)) => a.fail(|| format!("canonical encoding {c:?} rejected: {e}")),
            Err(p) => a.fail(|| format!("panic on {c:?}: {p}")),
        }
    }
    for c in noncanon {
        match common::catch(|| de::<T>(c)) {
            Ok(Ok(v)) => a.fail(|| format!("non-canonical {c:?} accepted as {v:?} (its encoding is {:?})", ser(&v))),
            Ok(Err(_)) => {}
            Err(p) => a.fail(|| format!("panic on {c:?}: {p}")),
        }
    }
    let n = (canon.len() + noncanon.len()) as u64;
    a.r.add("evaluations", n);
    a.r.add("distinct_nontrivial", n);
    a.r.set("slotwise_types", format!("{name}:{}B", T::Size::USIZE));
    a.done();
}

/// Composite type made of `slots` consecutive encodings of an element type: every slot x
/// {canonical values, non-canonical values} with the other slots canonical, all pairs of slots.
fn composite<T: Serializable + PartialEq + std::fmt::Debug>(
    name: &str,
    slot_sizes: &[usize],
    canon: &dyn Fn(usize, usize) -> Vec<u8>,
    noncanon: &dyn Fn(usize) -> Option<Vec<u8>>,
    r: &mut Report,
) {
    let total: usize = slot_sizes.iter().sum();
    assert_eq!(total, T::Size::USIZE, "{name}: slot layout does not cover the advertised size");
    let build = |variant: &dyn Fn(usize) -> Vec<u8>| -> Vec<u8> { (0..slot_sizes.len()).flat_map(|s| variant(s)).collect() };
    let mut a = Acc::new(r, name, "encoding");
    let mut n = 0u64;
    // all-canonical, several value patterns
    for k in 0..4 {
        let b = build(&|s| canon(s, k));
        n += 1;
        match common::catch(|| de::<T>(&b)) {
            Ok(Ok(v)) => {
                if ser(&v) != b {
                    a.fail(|| format!("pattern {k}: re-encodes differently"));
                }
            }
            Ok(Err(e)) => a.fail(|| format!("canonical pattern {k} rejected: {e}")),
            Err(p) => a.fail(|| format!("panic: {p}")),
        }
    }
    // one or two non-canonical slots
    let slots: Vec<usize> = (0..slot_sizes.len()).filter(|s| noncanon(*s).is_some()).collect();
    let step = (slots.len() / 48).max(1);
    for (i, &s1) in slots.iter().enumerate() {
        let b = build(&|s| if s == s1 { noncanon(s).unwrap() } else { canon(s, 1) });
        n += 1;
        match common::catch(|| de::<T>(&b)) {
            Ok(Ok(_)) => a.fail(|| format!("non-canonical bytes in slot {s1} of {} are accepted", slot_sizes.len())),
            Ok(Err(_)) => {}
            Err(p) => a.fail(|| format!("panic with non-canonical slot {s1}: {p}")),
        }
        if slots.len() <= 4 || i % step == 0 {
            for &s2 in slots.iter().filter(|s| **s > s1).take(4) {
                let b = build(&|s| if s == s1 || s == s2 { noncanon(s).unwrap() } else { canon(s, 2) });
                n += 1;
                if let Ok(Ok(_)) = common::catch(|| de::<T>(&b)) {
                    a.fail(|| format!("non-canonical bytes in slots {s1},{s2} accepted"));
                }
            }
        }
    }
    a.r.add("evaluations", n);
    a.r.add("distinct_nontrivial", n);
    a.r.set("slotwise_types", format!("{name}:{}B:{}slots", T::Size::USIZE, slot_sizes.len()));
    a.done();
}

fn le(v: u128, n: usize) -> Vec<u8> {
    v.to_le_bytes()[..n].to_vec()
}

fn infallible_patterns(n: usize) -> Vec<Vec<u8>> {
    let mut v = vec![vec![0u8; n], vec![0xff; n], (0..n).map(|i| i as u8 + 1).collect()];
    for i in 0..n {
        for bit in [0x01u8, 0x80] {
            let mut b = vec![0u8; n];
            b[i] = bit;
            v.push(b);
        }
    }
    v
}

fn fp61_slot(s: usize, k: usize) -> Vec<u8> {
    let p = u128::from(Fp61BitPrime::PRIME);
    le(match k { 0 => 0, 1 => p - 1, 2 => (s as u128 * 0x1234_5678_9abc + 7) % p, _ => 1 }, 8)
}

pub fn run_encodings(r: &mut Report) {
    let thorough = common::thorough();
    // --- complete domains -------------------------------------------------------------------
    exhaustive::<Fp31>("Fp31", 31, r);
    exhaustive::<Boolean>("Boolean", 2, r);
    exhaustive::<Gf2>("Gf2", 2, r);
    exhaustive::<Gf3Bit>("Gf3Bit", 8, r);
    exhaustive::<Gf8Bit>("Gf8Bit", 256, r);
    exhaustive::<Gf9Bit>("Gf9Bit", 512, r);
    exhaustive::<BA3>("BA3", 8, r);
    exhaustive::<BA4>("BA4", 16, r);
    exhaustive::<BA5>("BA5", 32, r);
    exhaustive::<BA6>("BA6", 64, r);
    exhaustive::<BA7>("BA7", 128, r);
    exhaustive::<BA8>("BA8", 256, r);
    exhaustive::<BA16>("BA16", 65536, r);
    exhaustive::<AdditiveShare<Fp31>>("AdditiveShare<Fp31>", 31 * 31, r);
    exhaustive::<AdditiveShare<BA3>>("AdditiveShare<BA3>", 64, r);
    exhaustive::<AdditiveShare<Boolean>>("AdditiveShare<Boolean>", 4, r);
    exhaustive::<AdditiveShare<BA8>>("AdditiveShare<BA8>", 65536, r);
    exhaustive::<BA20>("BA20", 1 << 20, r);
    exhaustive::<Gf20Bit>("Gf20Bit", 1 << 20, r);
    if thorough {
        // nothing larger than 3 bytes is enumerable; thorough repeats nothing here
    }
    // --- large scalars ------------------------------------------------------------------------
    let p32 = u128::from(Fp32BitPrime::PRIME);
    scalar::<Fp32BitPrime>(
        "Fp32BitPrime",
        &[le(0, 4), le(1, 4), le(p32 - 1, 4), le(p32 / 2, 4), le(0x8000_0000, 4), le(0xffff_0000, 4)],
        &[le(p32, 4), le(p32 + 1, 4), le(p32 + 2, 4), le(p32 + 3, 4), le(u128::from(u32::MAX), 4)],
        r,
    );
    let p61 = u128::from(Fp61BitPrime::PRIME);
    let mut non61 = vec![le(p61, 8), le(p61 + 1, 8), le(u128::from(u64::MAX), 8)];
    for bit in 61..64 {
        non61.push(le(1u128 << bit, 8));
        non61.push(le((1u128 << bit) | 5, 8));
    }
    scalar::<Fp61BitPrime>("Fp61BitPrime", &[le(0, 8), le(1, 8), le(p61 - 1, 8), le(p61 / 2, 8), le(1 << 60, 8)], &non61, r);
    for (name, n) in [("BA32", 4usize), ("BA64", 8), ("BA96", 12), ("BA112", 14), ("BA144", 18), ("BA256", 32), ("Gf32Bit", 4), ("Gf40Bit", 5), ("Hash", 32), ("Seed", 32), ("UniqueTag", 16)] {
        let pats = infallible_patterns(n);
        match name {
            "BA32" => scalar::<BA32>(name, &pats, &[], r),
            "BA64" => scalar::<BA64>(name, &pats, &[], r),
            "BA96" => scalar::<BA96>(name, &pats, &[], r),
            "BA112" => scalar::<BA112>(name, &pats, &[], r),
            "BA144" => scalar::<BA144>(name, &pats, &[], r),
            "BA256" => scalar::<BA256>(name, &pats, &[], r),
            "Gf32Bit" => scalar::<Gf32Bit>(name, &pats, &[], r),
            "Gf40Bit" => scalar::<Gf40Bit>(name, &pats, &[], r),
            "Hash" => scalar::<Hash>(name, &pats, &[], r),
            "UniqueTag" => scalar::<UniqueTagEq>(name, &pats, &[], r),
            _ => scalar::<SeedEq>(name, &pats, &[], r),
        }
    }
    // Fp25519: canonical = value < l; an out-of-range integer must not be accepted as a value
    let ell: [u8; 32] = {
        let mut b = [0u8; 32];
        b[..16].copy_from_slice(&0x14de_f9de_a2f7_9cd6_5812_631a_5cf5_d3edu128.to_le_bytes());
        b[31] = 0x10;
        b
    };
    let mut ell_m1 = ell;
    ell_m1[0] -= 1;
    let mut ell_p1 = ell;
    ell_p1[0] += 1;
    scalar::<Fp25519>(
        "Fp25519",
        &[vec![0u8; 32], { let mut b = vec![0u8; 32]; b[0] = 1; b }, ell_m1.to_vec()],
        &[ell.to_vec(), ell_p1.to_vec(), vec![0xff; 32], { let mut b = vec![0u8; 32]; b[31] = 0x80; b }],
        r,
    );
    // RP25519: canonical encodings of k*B; rejected: every encoding that decodes to a point whose
    // canonical encoding differs can not exist (checked), and a fixed list of invalid encodings
    {
        use curve25519_dalek::{constants::RISTRETTO_BASEPOINT_POINT, scalar::Scalar};
        let canon: Vec<Vec<u8>> = (0u64..24).map(|k| (RISTRETTO_BASEPOINT_POINT * Scalar::from(k * k + k)).compress().to_bytes().to_vec()).collect();
        let mut non = vec![vec![0xffu8; 32], { let mut b = vec![0u8; 32]; b[0] = 1; b }, { let mut b = vec![0u8; 32]; b[31] = 0x80; b }];
        // negative (odd) representatives of canonical encodings: p - s
        let p: [u8; 32] = { let mut b = [0xffu8; 32]; b[0] = 0xed; b[31] = 0x7f; b };
        non.push(p.to_vec());
        scalar::<RP25519>("RP25519", &canon, &non, r);
        // 2^16 strings in two byte windows: accepted => canonical
        let mut a = Acc::new(r, "RP25519", "encoding");
        let mut acc = 0u64;
        for window in [0usize, 30] {
            for v in 0u32..65536 {
                let mut b = canon[3].clone();
                b[window] = v as u8;
                b[window + 1] = (v >> 8) as u8;
                if let Ok(Ok(pt)) = common::catch(|| de::<RP25519>(&b)) {
                    acc += 1;
                    if ser(&pt) != b {
                        a.fail(|| format!("{b:?} accepted but re-encodes differently"));
                    }
                }
            }
        }
        a.r.add("evaluations", 131_072);
        a.r.add("rp25519_window_accepted", acc);
        a.done();
    }
    // --- composites -------------------------------------------------------------------------
    composite::<AdditiveShare<Fp32BitPrime>>("AdditiveShare<Fp32BitPrime>", &[4, 4], &|s, k| le([0, p32 - 1, 77 + s as u128, 1][k], 4), &|_| Some(le(p32, 4)), r);
    composite::<AdditiveShare<Fp61BitPrime>>("AdditiveShare<Fp61BitPrime>", &[8, 8], &fp61_slot, &|_| Some(le(p61, 8)), r);
    composite::<AdditiveShare<BA20>>("AdditiveShare<BA20>", &[3, 3], &|s, k| le([0, 0xf_ffff, 0x12345 + s as u128, 1][k], 3), &|_| Some(le(0x10_0000, 3)), r);
    composite::<AdditiveShare<Gf9Bit>>("AdditiveShare<Gf9Bit>", &[2, 2], &|s, k| le([0, 0x1ff, 0x101 + s as u128, 1][k], 2), &|_| Some(le(0x200, 2)), r);
    composite::<AdditiveShare<BA64>>("AdditiveShare<BA64>", &[8, 8], &|s, k| le([0, u128::from(u64::MAX), 99 + s as u128, 1][k], 8), &|_| None, r);
    composite::<StdArray<Fp31, 32>>("StdArray<Fp31,32>", &[1; 32], &|s, k| vec![[0u8, 30, (s % 31) as u8, 1][k]], &|_| Some(vec![31]), r);
    composite::<StdArray<Fp32BitPrime, 32>>("StdArray<Fp32BitPrime,32>", &[4; 32], &|s, k| le([0, p32 - 1, s as u128 * 3, 1][k], 4), &|_| Some(le(p32 + 4, 4)), r);
    composite::<StdArray<Fp61BitPrime, 16>>("StdArray<Fp61BitPrime,16>", &[8; 16], &fp61_slot, &|_| Some(le(p61 + 1, 8)), r);
    composite::<StdArray<Boolean, 64>>("StdArray<Boolean,64>", &[1; 64], &|s, k| vec![[0u8, 1, (s % 2) as u8, 1][k]], &|_| Some(vec![2]), r);
    composite::<StdArray<Boolean, 256>>("StdArray<Boolean,256>", &[1; 256], &|s, k| vec![[0u8, 1, (s % 2) as u8, 1][k]], &|_| Some(vec![0x80]), r);
    composite::<PrfHybridReport<BA8, BA3>>(
        "PrfHybridReport<BA8,BA3>",
        &[8, 1, 1, 1, 1],
        &|s, k| if s == 0 { le([0, u128::from(u64::MAX), 0xdead_beef, 1][k], 8) } else { vec![[0u8, 7, 5, 1][k]] },
        &|s| if s == 1 || s == 2 { Some(vec![8]) } else { None },
        r,
    );
    composite::<crate::protocol::ipa_prf::verif::ProofDiffAlias>("ProofDiff", &[8; 15], &fp61_slot, &|_| Some(le(p61, 8)), r);
    // (the proof-batch message, Box<[Fp61BitPrime; ARRAY_LEN]>, is checked through the real channel in c09p.rs)
    composite::<(Seed2)>("(Seed,Seed)", &[32, 32], &|s, k| vec![[0u8, 0xff, s as u8 + 1, 1][k]; 32], &|_| None, r);
}

// PartialEq shims for types that do not implement it
#[derive(Debug)]
struct SeedEq(Seed);
impl PartialEq for SeedEq {
    fn eq(&self, o: &Self) -> bool {
        ser(&self.0) == ser(&o.0)
    }
}
impl Serializable for SeedEq {
    type Size = <Seed as Serializable>::Size;
    type DeserializationError = <Seed as Serializable>::DeserializationError;
    fn serialize(&self, buf: &mut GenericArray<u8, Self::Size>) {
        self.0.serialize(buf);
    }
    fn deserialize(buf: &GenericArray<u8, Self::Size>) -> Result<Self, Self::DeserializationError> {
        Seed::deserialize(buf).map(SeedEq)
    }
}
#[derive(Debug)]
struct Seed2((Seed, Seed));
impl PartialEq for Seed2 {
    fn eq(&self, o: &Self) -> bool {
        ser(&self.0) == ser(&o.0)
    }
}
impl Serializable for Seed2 {
    type Size = <(Seed, Seed) as Serializable>::Size;
    type DeserializationError = <(Seed, Seed) as Serializable>::DeserializationError;
    fn serialize(&self, buf: &mut GenericArray<u8, Self::Size>) {
        self.0.serialize(buf);
    }
    fn deserialize(buf: &GenericArray<u8, Self::Size>) -> Result<Self, Self::DeserializationError> {
        <(Seed, Seed)>::deserialize(buf).map(Seed2)
    }
}
struct UniqueTagEq(UniqueTag);
impl std::fmt::Debug for UniqueTagEq {
    fn fmt(&self, f: &mut std::fmt::Formatter<'_>) -> std::fmt::Result {
        write!(f, "UniqueTag({:?})", ser(&self.0))
    }
}
impl PartialEq for UniqueTagEq {
    fn eq(&self, o: &Self) -> bool {
        ser(&self.0) == ser(&o.0)
    }
}
impl Serializable for UniqueTagEq {
    type Size = <UniqueTag as Serializable>::Size;
    type DeserializationError = <UniqueTag as Serializable>::DeserializationError;
    fn serialize(&self, buf: &mut GenericArray<u8, Self::Size>) {
        self.0.serialize(buf);
    }
    fn deserialize(buf: &GenericArray<u8, Self::Size>) -> Result<Self, Self::DeserializationError> {
        UniqueTag::deserialize(buf).map(UniqueTagEq)
    }
}

#[test]
fn run() {
    let mut r = Report::new("C09");
    run_encodings(&mut r);
    super::c09t::run_layout(&mut r);
    crate::net::verif::c09q::run_query_configs(&mut r);
    r.sample(json!({"type":"BA3","all_256_byte_strings":"accepted iff the 5 padding bits are zero; accepted strings re-encode to themselves"}));
    r.sample(json!({"type":"AdditiveShare<Fp61BitPrime>","slots":[8,8],"faults":"each slot set to PRIME with the other canonical, both slots"}));
    r.flag("exhaustive", true);
    r.finish();
}
