// Shared support for all harness checks: reporting protocol with ../check, tiers, seeds, worker
// partitioning, panic capture. Compiled inside ipa-core (hook H1) as `crate::verif::common`.

use std::{
    cell::RefCell,
    collections::BTreeMap,
    panic::{AssertUnwindSafe, catch_unwind},
    sync::{Mutex, Once},
    time::Instant,
};

use serde_json::{Value, json};

pub fn tier() -> &'static str {
    match std::env::var("VERIF_TIER").as_deref() {
        Ok("thorough") => "thorough",
        _ => "quick",
    }
}

pub fn thorough() -> bool {
    tier() == "thorough"
}

pub fn seed() -> u64 {
    std::env::var("VERIF_SEED")
        .ok()
        .and_then(|s| s.parse::<u64>().ok())
        .unwrap_or(1)
}

/// (index, count) of this worker process; the check script may start several copies of the test
/// binary, each taking the cases whose ordinal is `index` modulo `count`.
pub fn worker() -> (usize, usize) {
    let v = std::env::var("VERIF_WORKER").unwrap_or_default();
    let mut it = v.split('/');
    match (
        it.next().and_then(|s| s.parse().ok()),
        it.next().and_then(|s| s.parse().ok()),
    ) {
        (Some(i), Some(n)) if n > 0 && i < n => (i, n),
        _ => (0, 1),
    }
}

pub fn mine(ordinal: usize) -> bool {
    let (i, n) = worker();
    ordinal % n == i
}

/// The sub-check selector: `VERIF_PART=a,b` restricts a check to the named parts (used by workers
/// and by replay).
pub fn part_enabled(name: &str) -> bool {
    match std::env::var("VERIF_PART") {
        Ok(v) if !v.is_empty() => v.split(',').any(|p| p == name),
        _ => true,
    }
}

pub fn replay_arg() -> Option<Value> {
    let p = std::env::var("VERIF_REPLAY").ok()?;
    let s = std::fs::read_to_string(p).ok()?;
    serde_json::from_str(&s).ok()
}

static OUT: Mutex<()> = Mutex::new(());

pub fn emit(v: &Value) {
    let _g = OUT.lock().unwrap_or_else(|e| e.into_inner());
    println!("VERIF-JSON:{v}");
}

thread_local! {
    static LAST_PANIC: RefCell<Option<String>> = const { RefCell::new(None) };
    static QUIET: RefCell<u32> = const { RefCell::new(0) };
    static IGNORE_PRSS: RefCell<u32> = const { RefCell::new(0) };
}

static HOOK: Once = Once::new();
static PRSS_REUSE: Mutex<Vec<String>> = Mutex::new(Vec::new());

/// Installs a panic hook that records the message of the last panic per thread (so that
/// `catch` can return it) and suppresses the default backtrace print while a `catch` is active.
pub fn install_hook() {
    HOOK.call_once(|| {
        let prev = std::panic::take_hook();
        std::panic::set_hook(Box::new(move |info| {
            let msg = if let Some(s) = info.payload().downcast_ref::<&str>() {
                (*s).to_string()
            } else if let Some(s) = info.payload().downcast_ref::<String>() {
                s.clone()
            } else {
                "<non-string panic>".to_string()
            };
            let loc = info
                .location()
                .map(|l| format!("{}:{}", l.file(), l.line()))
                .unwrap_or_default();
            let ignore = IGNORE_PRSS.try_with(|q| *q.borrow() > 0).unwrap_or(false);
            if msg.contains("Generated randomness for index") && !ignore {
                PRSS_REUSE
                    .lock()
                    .unwrap_or_else(|e| e.into_inner())
                    .push(format!("{msg} @ {loc}"));
            }
            let full = format!("{msg} @ {loc}");
            if msg.starts_with("panic in a destructor during cleanup") || msg.starts_with("panic in a function that cannot unwind") {
                // a panic that cannot unwind (typically a second panic in a destructor that runs while the
                // first one unwinds) aborts the process: no `catch` will ever see it. Say what led to it.
                let before = LAST_PANIC.try_with(|p| p.borrow().clone()).ok().flatten().unwrap_or_default();
                eprintln!("VERIF-ABORT: {} ; while unwinding from: {}", full.replace('\n', " "), before.replace('\n', " "));
            }
            let _ = LAST_PANIC.try_with(|p| *p.borrow_mut() = Some(full));
            let quiet = QUIET.try_with(|q| *q.borrow() > 0).unwrap_or(false);
            if !quiet {
                // one line per panic that no `catch` of the harness is waiting for; the check script reads
                // the last one if the worker dies without a report
                eprintln!("VERIF-PANIC: {}", format!("{msg} @ {loc}").replace('\n', " "));
            }
            if !quiet && std::env::var("VERIF_VERBOSE").is_ok() {
                prev(info);
            }
        }));
    });
}

/// Runs `f` with the duplicate-(step, index) monitor's panics not counted as findings (used by
/// the check that provokes the monitor on purpose).
pub fn provoking_prss_monitor<T>(f: impl FnOnce() -> T) -> Result<T, String> {
    IGNORE_PRSS.with(|q| *q.borrow_mut() += 1);
    let r = catch(f);
    IGNORE_PRSS.with(|q| *q.borrow_mut() -= 1);
    r
}

pub fn prss_reuse_panics() -> Vec<String> {
    PRSS_REUSE.lock().unwrap_or_else(|e| e.into_inner()).clone()
}

/// Runs `f`, converting a panic into `Err(message @ location)`.
pub fn catch<T>(f: impl FnOnce() -> T) -> Result<T, String> {
    install_hook();
    QUIET.with(|q| *q.borrow_mut() += 1);
    LAST_PANIC.with(|p| *p.borrow_mut() = None);
    let r = catch_unwind(AssertUnwindSafe(f));
    QUIET.with(|q| *q.borrow_mut() -= 1);
    r.map_err(|e| {
        let from_payload = if let Some(s) = e.downcast_ref::<&str>() {
            Some((*s).to_string())
        } else {
            e.downcast_ref::<String>().cloned()
        };
        LAST_PANIC
            .with(|p| p.borrow_mut().take())
            .or(from_payload)
            .unwrap_or_else(|| "<panic>".into())
    })
}

/// Per-check report. Counters are summed across workers by the check script; `max_*` keys are
/// maxed, `min_*` keys are minned, `set_*` keys are unioned (lists of strings), flags are and-ed.
pub struct Report {
    pub id: &'static str,
    start: Instant,
    counters: BTreeMap<String, u64>,
    sets: BTreeMap<String, std::collections::BTreeSet<String>>,
    flags: BTreeMap<String, bool>,
    samples: Vec<Value>,
    violations: u64,
    notes: Vec<String>,
    max_samples: usize,
}

impl Report {
    pub fn new(id: &'static str) -> Self {
        install_hook();
        Self {
            id,
            start: Instant::now(),
            counters: BTreeMap::new(),
            sets: BTreeMap::new(),
            flags: BTreeMap::new(),
            samples: Vec::new(),
            violations: 0,
            notes: Vec::new(),
            max_samples: 6,
        }
    }

    pub fn add(&mut self, key: &str, n: u64) {
        *self.counters.entry(key.to_string()).or_insert(0) += n;
    }

    pub fn inc(&mut self, key: &str) {
        self.add(key, 1);
    }

    pub fn max(&mut self, key: &str, n: u64) {
        let e = self.counters.entry(format!("max_{key}")).or_insert(0);
        *e = (*e).max(n);
    }

    pub fn get(&self, key: &str) -> u64 {
        self.counters.get(key).copied().unwrap_or(0)
    }

    /// Record membership in a named set (distinct outcomes, distinct orders …). The set size is
    /// reported as `distinct_<name>`; the members (first 40) as `set_<name>`.
    pub fn set(&mut self, name: &str, member: impl Into<String>) {
        self.sets.entry(name.to_string()).or_default().insert(member.into());
    }

    pub fn set_len(&self, name: &str) -> usize {
        self.sets.get(name).map_or(0, std::collections::BTreeSet::len)
    }

    pub fn flag(&mut self, key: &str, v: bool) {
        let e = self.flags.entry(key.to_string()).or_insert(true);
        *e = *e && v;
    }

    pub fn sample(&mut self, v: Value) {
        if self.samples.len() < self.max_samples {
            self.samples.push(v);
        }
    }

    pub fn note(&mut self, s: impl Into<String>) {
        self.notes.push(s.into());
    }

    pub fn has_note_for(&self, prefix: &str) -> bool {
        self.notes.iter().any(|n| n.starts_with(prefix))
    }

    /// A violation of the property. `key` identifies the failing input/call site (matched against
    /// known_findings.jsonl by the check script); `replay` is what `--replay` needs.
    pub fn violation(&mut self, key: &str, what: &str, replay: Value) {
        self.violations += 1;
        if self.violations <= 200 {
            emit(&json!({"kind":"violation","property":self.id,"key":key,"what":what,"replay":replay}));
        }
    }

    pub fn violations(&self) -> u64 {
        self.violations
    }

    /// A failure of the machinery itself (vacuous exploration, nondeterministic replay …).
    pub fn machinery(&mut self, what: &str) {
        emit(&json!({"kind":"machinery","property":self.id,"what":what}));
    }

    pub fn finish(self) {
        let sets: BTreeMap<String, Vec<String>> = self
            .sets
            .iter()
            .map(|(k, v)| (k.clone(), v.iter().cloned().collect()))
            .collect();
        emit(&json!({
            "kind":"report","property":self.id,
            "counters":self.counters,"sets":sets,"flags":self.flags,
            "samples":self.samples,"violations":self.violations,"notes":self.notes,
            "wall_s":self.start.elapsed().as_secs_f64(),
            "worker": format!("{}/{}", worker().0, worker().1),
        }));
        for p in prss_reuse_panics().iter().take(5) {
            emit(&json!({"kind":"violation","property":"C06","key":"prss-index-reuse","what":p,"replay":{"in_check":self.id}}));
        }
    }
}

/// Runs `f(i)` for i in 0..n on `threads` OS threads (static striding); results in index order.
pub fn par_map<T: Send>(n: usize, threads: usize, f: impl Fn(usize) -> T + Sync) -> Vec<T> {
    let threads = threads.max(1).min(n.max(1));
    let mut out: Vec<Option<T>> = (0..n).map(|_| None).collect();
    let chunks: Vec<Vec<(usize, T)>> = std::thread::scope(|s| {
        let hs: Vec<_> = (0..threads)
            .map(|t| {
                let f = &f;
                s.spawn(move || {
                    let mut v = Vec::new();
                    let mut i = t;
                    while i < n {
                        v.push((i, f(i)));
                        i += threads;
                    }
                    v
                })
            })
            .collect();
        hs.into_iter().map(|h| h.join().expect("par_map worker panicked")).collect()
    });
    for c in chunks {
        for (i, v) in c {
            out[i] = Some(v);
        }
    }
    out.into_iter().map(|o| o.unwrap()).collect()
}

pub fn ncpu() -> usize {
    std::env::var("VERIF_THREADS")
        .ok()
        .and_then(|s| s.parse().ok())
        .unwrap_or_else(|| std::thread::available_parallelism().map_or(8, std::num::NonZero::get))
}

/// splitmix64 – deterministic, dependency-free PRNG for harness-side choices.
#[derive(Clone)]
pub struct SplitMix(pub u64);

impl SplitMix {
    pub fn next(&mut self) -> u64 {
        self.0 = self.0.wrapping_add(0x9E37_79B9_7F4A_7C15);
        let mut z = self.0;
        z = (z ^ (z >> 30)).wrapping_mul(0xBF58_476D_1CE4_E5B9);
        z = (z ^ (z >> 27)).wrapping_mul(0x94D0_49BB_1331_11EB);
        z ^ (z >> 31)
    }
    pub fn below(&mut self, n: u64) -> u64 {
        self.next() % n.max(1)
    }
}

pub fn fnv(bytes: &[u8]) -> u64 {
    let mut h: u64 = 0xcbf2_9ce4_8422_2325;
    for b in bytes {
        h ^= u64::from(*b);
        h = h.wrapping_mul(0x0000_0100_0000_01b3);
    }
    h
}
