// C02 (component: opening a value): reveal and partial reveal in both proof-carrying contexts, every
// helper excluded in turn, one tampered message per run. Every honest helper that is meant to learn
// the value must either fail or learn the true value - whatever position the tampering helper has
// relative to the excluded one. (module path: crate::verif::c02r; config A)

use std::time::Duration;

use rand::{SeedableRng, rngs::StdRng};
use serde_json::json;

use super::{
    common::{self, Report},
    fault::{self, BoxFut, Fault, FaultKind, Out},
};
use crate::{
    ff::{Fp31, U128Conversions, boolean_array::BA8},
    helpers::{Role, in_memory_config::{DynStreamInterceptor, passthrough}},
    protocol::{
        RecordId,
        basics::Reveal,
        context::{Context, TEST_DZKP_STEPS, UpgradableContext, Validator, dzkp_validator::DZKPValidator, upgrade::Upgradable},
    },
    secret_sharing::{IntoShares, SharedValue, replicated::semi_honest::AdditiveShare},
    test_fixture::{TestWorld, TestWorldConfig},
};

#[derive(Clone, Copy, Debug, PartialEq)]
pub enum Kind {
    /// MAC-upgraded sharing of an Fp31 value
    Mac,
    /// Boolean-array sharing in the DZKP malicious context
    Dzkp,
}

const VALUE: u128 = 0x15;

async fn world_run(kind: Kind, excluded: Option<usize>, seed: u64, interceptor: DynStreamInterceptor, overall: Duration, grace: Duration) -> Vec<Out<Option<u128>>> {
    let mut config = TestWorldConfig::default();
    config.seed = seed;
    config.stream_interceptor = interceptor;
    config.timeout = None;
    let world = TestWorld::new_with(&config);
    let mut rng = StdRng::seed_from_u64(seed ^ 0x2e);
    let ex = excluded.map(|i| Role::all()[i]);
    let mut futs: Vec<BoxFut<'_, Option<u128>>> = Vec::new();
    match kind {
        Kind::Mac => {
            let shares: [AdditiveShare<Fp31>; 3] = Fp31::truncate_from(VALUE).share_with(&mut rng);
            for (ctx, share) in world.malicious_contexts().into_iter().zip(shares) {
                futs.push(Box::pin(async move {
                    let v = ctx.set_total_records(1).validator::<Fp31>();
                    let m_ctx = v.context();
                    let m = share.upgrade(m_ctx.clone(), RecordId::FIRST).await.map_err(|e| format!("{e:?}"))?;
                    let r = m.generic_reveal(m_ctx.narrow("open"), RecordId::FIRST, ex).await.map_err(|e| format!("{e:?}"))?;
                    Ok(r.map(|a| Fp31::from_array(&a).as_u128()))
                }));
            }
        }
        Kind::Dzkp => {
            let shares: [AdditiveShare<BA8>; 3] = BA8::truncate_from(VALUE).share_with(&mut rng);
            for (ctx, share) in world.malicious_contexts().into_iter().zip(shares) {
                futs.push(Box::pin(async move {
                    let v = ctx.set_total_records(1).dzkp_validator(TEST_DZKP_STEPS, 1);
                    let m_ctx = v.context();
                    let r = share.generic_reveal(m_ctx.narrow("open"), RecordId::FIRST, ex).await.map_err(|e| format!("{e:?}"))?;
                    Ok(r.map(|a| BA8::from_array(&a).as_u128()))
                }));
            }
        }
    }
    let out = fault::run_all(futs, overall, grace).await;
    drop(world);
    out
}

#[test]
fn run() {
    let mut r = Report::new("C02");
    let rt = fault::runtime(4);
    let seed = common::seed() + 220;
    for kind in [Kind::Mac, Kind::Dzkp] {
        for excluded in [None, Some(0usize), Some(1), Some(2)] {
            let name = format!("{kind:?}:excluded={}", excluded.map_or("none".to_string(), |e| format!("H{}", e + 1)));
            // honest run + census
            let (icp, cen) = fault::census_interceptor();
            let honest = rt.block_on(world_run(kind, excluded, seed, icp, Duration::from_secs(60), Duration::from_secs(5)));
            r.inc("evaluations");
            for h in 0..3 {
                let want = if Some(h) == excluded { Some(None) } else { Some(Some(VALUE)) };
                if honest[h].ok().copied() != want {
                    r.violation(&format!("reveal:honest:{name}"), &format!("helper {h} obtained {:?}", honest[h]), json!({"part":"reveal","kind":format!("{kind:?}"),"excluded":excluded}));
                }
            }
            let census = cen.lock().unwrap().clone();
            let mut faults = Vec::new();
            for (id, chunks) in &census.channels {
                if !id.gate.contains("/open") {
                    continue;
                }
                for (ci, (len, _)) in chunks.iter().enumerate() {
                    for b in 0..*len {
                        for m in [0x01u8, 0x02, 0x10, 0x80] {
                            faults.push(Fault { channel: id.clone(), chunk: ci, kind: FaultKind::Xor { byte: b, mask: m } });
                        }
                    }
                    if kind == Kind::Mac {
                        for e in 1..31u128 {
                            faults.push(Fault { channel: id.clone(), chunk: ci, kind: FaultKind::Add { elem: 0, width: 1, e, modulus: 31 } });
                        }
                    }
                }
            }
            r.add("reveal_channels", census.channels.keys().filter(|id| id.gate.contains("/open")).count() as u64);
            let outs: Vec<(Vec<Out<Option<u128>>>, u64)> = rt.block_on(async {
                let mut all = Vec::new();
                for chunk in faults.chunks(16) {
                    all.extend(
                        futures::future::join_all(chunk.iter().map(|f| {
                            let (icp, changed) = fault::fault_interceptor(f.clone());
                            async move {
                                let o = world_run(kind, excluded, seed, icp, Duration::from_secs(20), Duration::from_millis(1500)).await;
                                (o, changed.load(std::sync::atomic::Ordering::SeqCst))
                            }
                        }))
                        .await,
                    );
                }
                all
            });
            for (f, (o, changed)) in faults.iter().zip(outs) {
                r.inc("evaluations");
                if changed == 0 {
                    continue;
                }
                r.inc("distinct_nontrivial");
                r.inc("reveal_faults");
                let corrupt = f.channel.source;
                let mut rejected = false;
                for h in 0..3 {
                    if h == corrupt || Some(h) == excluded {
                        continue;
                    }
                    match &o[h] {
                        Out::Ok(Some(v)) if *v == VALUE => {}
                        Out::Ok(Some(v)) => r.violation(
                            &format!("reveal:accepted-different-value:{name}"),
                            &format!("helper {corrupt} altered its message to helper {} ({:?}); honest helper {h} accepted the value {v:#x} instead of {VALUE:#x}", f.channel.dest, f.kind),
                            json!({"part":"reveal","kind":format!("{kind:?}"),"excluded":excluded,"fault":f.to_json()}),
                        ),
                        Out::Ok(None) => r.violation(&format!("reveal:no-value:{name}"), &format!("honest helper {h} finished without a value"), json!({"part":"reveal","fault":f.to_json()})),
                        _ => rejected = true,
                    }
                }
                r.inc(if rejected { "reveal_faults_rejected" } else { "reveal_faults_harmless" });
                r.set("reveal_settings", name.clone());
            }
        }
    }
    let _ = passthrough;
    r.sample(json!({"setting":"partial reveal with H3 excluded, H1 alters its message to H2","oracle":"H2 fails or learns the true value"}));
    r.flag("exhaustive", true);
    r.finish();
}
