// C16 (validated_seq_join): the stream adapter that releases an item only after the record's batch
// has been validated. Three helpers multiply `records` 64-bit Boolean vectors through
// `DZKPValidator::validated_seq_join` with `rpb` records per batch; every item the stream yields is
// collected (not try_collect: the consumer looks at individual items). Honest run: every item Ok.
// Tampered runs: one bit of one multiplication message is flipped on the wire (census of the
// multiplication channels x every chunk x first/last byte); then on every helper the items of one
// batch carry one verdict - a batch that failed validation releases none of its records with Ok -
// and at least one honest helper fails the batch that contains the flipped record.
// (module path: crate::verif::c16v; config A)

use std::{
    sync::{Arc, Mutex, atomic::Ordering},
    time::Duration,
};

use futures::{StreamExt, stream};
use rand::{SeedableRng, rngs::StdRng};
use serde_json::json;

use super::{
    common::{self, Report},
    fault::{self, BoxFut, Fault, FaultKind, Out},
};
use crate::{
    ff::boolean_array::BA64,
    ff::boolean::Boolean,
    helpers::in_memory_config::DynStreamInterceptor,
    protocol::{
        RecordId,
        basics::SecureMul,
        context::{Context, TEST_DZKP_STEPS, UpgradableContext, dzkp_validator::DZKPValidator},
    },
    secret_sharing::{
        IntoShares, SharedValue,
        replicated::{ReplicatedSecretSharing, semi_honest::AdditiveShare},
    },
    test_fixture::{TestWorld, TestWorldConfig},
};

type Sh = AdditiveShare<Boolean, 64>;

#[derive(Clone, Copy, Debug)]
struct CaseV {
    records: usize,
    rpb: usize,
    seed: u64,
}

/// per helper: the verdict (true = Ok) of every item the stream yielded, in order
type Items = Vec<Vec<bool>>;

async fn world_run(c: CaseV, interceptor: DynStreamInterceptor, overall: Duration) -> (Vec<Out<()>>, Items) {
    let mut config = TestWorldConfig::default();
    config.seed = c.seed;
    config.stream_interceptor = interceptor;
    config.timeout = None;
    let world = TestWorld::new_with(&config);
    let mut rng = StdRng::seed_from_u64(c.seed ^ 0xc16);
    let mut inputs: [Vec<(Sh, Sh)>; 3] = std::array::from_fn(|_| Vec::new());
    for rec in 0..c.records {
        let mk = |v: u64, rng: &mut StdRng| -> [Sh; 3] {
            let mut arr = BA64::ZERO;
            for i in 0..64 {
                use crate::ff::ArrayAccess;
                arr.set(i, Boolean::from((v >> i) & 1 == 1));
            }
            let s: [AdditiveShare<BA64>; 3] = arr.share_with(rng);
            s.map(|x| AdditiveShare::new_arr(x.left(), x.right()))
        };
        let a = mk(0x0123_4567_89ab_cdef ^ (rec as u64 * 0x9e37), &mut rng);
        let b = mk(0xfedc_ba98_7654_3210 ^ (rec as u64 * 0x79b9), &mut rng);
        for h in 0..3 {
            inputs[h].push((a[h].clone(), b[h].clone()));
        }
    }
    let collected: Arc<Mutex<Items>> = Arc::new(Mutex::new(vec![Vec::new(); 3]));
    let mut futs: Vec<BoxFut<'_, ()>> = Vec::new();
    for (h, (ctx, inp)) in world.malicious_contexts().into_iter().zip(inputs).enumerate() {
        let col = Arc::clone(&collected);
        futs.push(Box::pin(async move {
            let validator = ctx.set_total_records(c.records).dzkp_validator(TEST_DZKP_STEPS, c.rpb);
            let mctx = validator.context().narrow("mul");
            let work = stream::iter(inp.into_iter().enumerate().map(|(rec, (a, b))| {
                let mctx = mctx.clone();
                async move { a.multiply(&b, mctx, RecordId::from(rec)).await }
            }));
            let mut out = std::pin::pin!(validator.validated_seq_join(work));
            while let Some(item) = out.next().await {
                col.lock().unwrap()[h].push(item.is_ok());
            }
            Ok(())
        }));
    }
    let out = fault::run_all(futs, overall, Duration::from_secs(3)).await;
    drop(world);
    let items = collected.lock().unwrap().clone();
    (out, items)
}

#[test]
fn run() {
    let mut r = Report::new("C16");
    let thorough = common::thorough();
    let rt = fault::runtime(8);
    let seed = common::seed() + 1600;
    let mut cases = vec![CaseV { records: 4, rpb: 2, seed }, CaseV { records: 4, rpb: 4, seed: seed + 1 }, CaseV { records: 6, rpb: 2, seed: seed + 2 }];
    if thorough {
        cases.extend([CaseV { records: 8, rpb: 4, seed: seed + 3 }, CaseV { records: 5, rpb: 4, seed: seed + 4 }, CaseV { records: 3, rpb: 1, seed: seed + 5 }]);
    }
    for c in cases {
        // honest run + census
        let (icp, census) = fault::census_interceptor();
        let (out, items) = rt.block_on(world_run(c, icp, Duration::from_secs(60)));
        r.inc("evaluations");
        r.inc("states");
        r.inc("validated_join_honest_runs");
        let replay = json!({"part":"validated-join","records":c.records,"rpb":c.rpb,"seed":c.seed});
        for h in 0..3 {
            if !matches!(out[h], Out::Ok(())) || items[h] != vec![true; c.records] {
                r.violation("validated-join:honest", &format!("{c:?}: helper {h} ended {:?} and its stream yielded verdicts {:?}; every item of an honest run must be Ok", out[h].class(), items[h]), replay.clone());
            }
        }
        let census = census.lock().unwrap().clone();
        let mut faults = Vec::new();
        for (id, chunks) in &census.channels {
            if !id.gate.contains("/mul") {
                continue;
            }
            for (ci, (len, _)) in chunks.iter().enumerate() {
                if *len == 0 {
                    continue;
                }
                let bytes: Vec<usize> = if thorough { (0..*len).collect() } else { vec![0, len - 1] };
                for b in bytes {
                    faults.push(Fault { channel: id.clone(), chunk: ci, kind: FaultKind::Xor { byte: b, mask: 1 } });
                }
            }
        }
        r.add("validated_join_faults", faults.len() as u64);
        let outs: Vec<(Fault, Vec<Out<()>>, Items, u64)> = rt.block_on(async {
            let mut all = Vec::new();
            for chunk in faults.chunks(12) {
                all.extend(
                    futures::future::join_all(chunk.iter().map(|f| {
                        let f = f.clone();
                        async move {
                            let (icp, changed) = fault::fault_interceptor(f.clone());
                            let (o, items) = world_run(c, icp, Duration::from_secs(20)).await;
                            (f, o, items, changed.load(Ordering::SeqCst))
                        }
                    }))
                    .await,
                );
            }
            all
        });
        for (f, o, items, changed) in outs {
            r.inc("evaluations");
            r.inc("states");
            r.add("transitions", c.records as u64 * 3);
            if changed == 0 {
                continue;
            }
            r.inc("distinct_nontrivial");
            let corrupt = f.channel.source;
            let replay = json!({"part":"validated-join","records":c.records,"rpb":c.rpb,"seed":c.seed,"fault":f.to_json()});
            let mut some_honest_failed = false;
            for h in 0..3 {
                if h == corrupt {
                    continue;
                }
                // one verdict per batch, among the items this helper's stream handed out
                for b in 0..c.records.div_ceil(c.rpb) {
                    let members: Vec<bool> = (b * c.rpb..((b + 1) * c.rpb).min(c.records)).filter_map(|i| items[h].get(i).copied()).collect();
                    if members.iter().any(|v| *v) && members.iter().any(|v| !*v) {
                        r.violation(
                            "validated-join:released-from-failed-batch",
                            &format!("{c:?}, helper {corrupt} flipped a bit of a multiplication message: honest helper {h}'s stream yielded verdicts {:?} for the records of batch {b} - some records of a batch that failed validation were released with Ok", members),
                            replay.clone(),
                        );
                    }
                }
                if items[h].iter().any(|v| !*v) || !matches!(o[h], Out::Ok(())) {
                    some_honest_failed = true;
                }
            }
            if some_honest_failed {
                r.inc("validated_join_faults_rejected");
            } else {
                r.violation("validated-join:tamper-accepted", &format!("{c:?}, helper {corrupt} flipped a bit of a multiplication message ({:?}) and both honest helpers' streams yielded Ok for every record", f.kind), replay);
            }
        }
    }
    r.sample(json!({"case":{"records":4,"rpb":2},"fault":"one bit of one multiplication message","oracle":"per helper and batch one verdict; no record of a failed batch is yielded as Ok"}));
    r.flag("exhaustive", true);
    r.finish();
}
