// C13 / E5: gateway channels on the in-memory transport (tokio, current-thread runtime so that the
// poll order of joined futures is the enumerated one): every send order x every window-respecting
// receive order x message width x active work x read size x determinate/indeterminate total;
// end-of-channel behaviour; cross-channel isolation over all helper pairs, two gates and shard
// channels at once. Scheduling is explored in c13s.rs (config B).
// (module path: crate::verif::c13; config A)

use std::time::Duration;

use futures::{FutureExt, StreamExt, future::join_all};
use serde_json::json;

use super::common::{self, Report};
use crate::{
    ff::{
        Fp32BitPrime, Serializable, U128Conversions,
        boolean_array::{BA8, BA20, BA64, BA112, BA256},
    },
    helpers::{Direction, GatewayConfig, MpcMessage, Role, TotalRecords},
    protocol::{
        RecordId,
        context::{Context, ShardedContext},
    },
    sharding::ShardIndex,
    test_fixture::{TestWorld, TestWorldConfig, WithShards},
};

pub trait Pat: MpcMessage + Clone + PartialEq + std::fmt::Debug {
    const NAME: &'static str;
    fn pat(v: u128) -> Self;
}
impl Pat for BA8 {
    const NAME: &'static str = "BA8/1B";
    fn pat(v: u128) -> Self {
        BA8::truncate_from(v)
    }
}
impl Pat for BA20 {
    const NAME: &'static str = "BA20/3B";
    fn pat(v: u128) -> Self {
        BA20::truncate_from(v * 4099 + 1)
    }
}
impl Pat for Fp32BitPrime {
    const NAME: &'static str = "Fp32/4B";
    fn pat(v: u128) -> Self {
        Fp32BitPrime::truncate_from(v * 0x0101_0101 + 7)
    }
}
impl Pat for BA64 {
    const NAME: &'static str = "BA64/8B";
    fn pat(v: u128) -> Self {
        BA64::truncate_from(v * 0x0101_0101_0101_0101 + 3)
    }
}
impl Pat for BA112 {
    const NAME: &'static str = "BA112/14B";
    fn pat(v: u128) -> Self {
        BA112::truncate_from(v * 0x0001_0203_0405_0607_0809_0a0b_0c0d + 5)
    }
}
impl Pat for BA256 {
    const NAME: &'static str = "BA256/32B";
    fn pat(v: u128) -> Self {
        let mut buf = generic_array::GenericArray::<u8, typenum::U32>::default();
        for (i, b) in buf.iter_mut().enumerate() {
            *b = (v as u8).wrapping_mul(31).wrapping_add(i as u8 * 7 + 1);
        }
        <BA256 as Serializable>::deserialize(&buf).unwrap()
    }
}

#[derive(Clone, Debug)]
pub struct Case13 {
    pub k: usize,
    pub indeterminate: bool,
    pub send_order: Vec<usize>,
    pub recv_order: Vec<usize>,
    /// receivers are polled before the senders
    pub recv_first: bool,
    /// receive requests are all outstanding at once (join) instead of awaited one after another
    pub recv_concurrent: bool,
    pub active: usize,
    pub tag: u128,
}

fn case_json(c: &Case13, ty: &str, active: usize, read: usize) -> serde_json::Value {
    json!({"type":ty,"active":active,"read_size":read,"k":c.k,"indeterminate":c.indeterminate,"send_order":c.send_order,"recv_order":c.recv_order,"recv_first":c.recv_first,"recv_concurrent":c.recv_concurrent})
}

/// all permutations of 0..k
pub fn perms(k: usize) -> Vec<Vec<usize>> {
    fn rec(cur: &mut Vec<usize>, used: &mut Vec<bool>, k: usize, out: &mut Vec<Vec<usize>>) {
        if cur.len() == k {
            out.push(cur.clone());
            return;
        }
        for i in 0..k {
            if !used[i] {
                used[i] = true;
                cur.push(i);
                rec(cur, used, k, out);
                cur.pop();
                used[i] = false;
            }
        }
    }
    let mut out = Vec::new();
    rec(&mut Vec::new(), &mut vec![false; k], k, &mut out);
    out
}

/// Receive requests for different records are served only while the requests for all lower records
/// are outstanding too (UnorderedReceiver lets the request for the next record drive the stream), so
/// "any order within the active window" = the records are taken in consecutive blocks of `active`
/// ids, all requests of a block outstanding at once and polled in any order.
pub fn window_ok(order: &[usize], active: usize) -> bool {
    order.windows(2).all(|w| w[0] / active <= w[1] / active)
}

// a deadline that is hit is a violation here, so it is generous (a case takes microseconds); after a few
// deadline violations the remaining cases of the run are skipped instead of waiting for each of them

/// Joins two futures the way two separate tasks would run: each gets its own waker (FuturesUnordered
/// polls a child only when that child's own waker was woken), `first` is polled first. A wake-up
/// delivered to a stale waker is therefore not papered over by the other side's activity.
async fn join_as_tasks<A, B>(first: impl std::future::Future<Output = A>, second: impl std::future::Future<Output = B>) -> (A, B) {
    use futures::stream::FuturesUnordered;
    enum E<A, B> {
        A(A),
        B(B),
    }
    let mut fu: FuturesUnordered<std::pin::Pin<Box<dyn std::future::Future<Output = E<A, B>> + '_>>> = FuturesUnordered::new();
    fu.push(Box::pin(async { E::A(first.await) }));
    fu.push(Box::pin(async { E::B(second.await) }));
    let (mut a, mut b) = (None, None);
    while let Some(x) = fu.next().await {
        match x {
            E::A(v) => a = Some(v),
            E::B(v) => b = Some(v),
        }
    }
    (a.unwrap(), b.unwrap())
}

const STEP_T: Duration = Duration::from_secs(15);
static DEADLINES_HIT: std::sync::atomic::AtomicUsize = std::sync::atomic::AtomicUsize::new(0);

async fn settle() {
    for _ in 0..40 {
        tokio::task::yield_now().await;
    }
}

/// One channel H1 -> H2 on its own gate. Returns a description of the first broken clause.
async fn chan_case<M: Pat, C: Context>(sctx: C, rctx: C, c: &Case13) -> Result<(), String> {
    let total: TotalRecords = if c.indeterminate { TotalRecords::Indeterminate } else { TotalRecords::specified(c.k).unwrap() };
    let sctx = sctx.set_total_records(total);
    let rctx = rctx.set_total_records(total);
    let tx = sctx.send_channel::<M>(Role::H2);
    let rx = rctx.recv_channel::<M>(Role::H1);
    let val = |i: usize| M::pat(c.tag * 8 + i as u128 + 1);
    let sends = async {
        let r = join_all(c.send_order.iter().map(|&i| {
            let tx = &tx;
            async move { tx.send(RecordId::from(i), val(i)).await.map_err(|e| format!("send({i}) failed: {e:?}")) }
        }))
        .await;
        r.into_iter().collect::<Result<Vec<()>, String>>()
    };
    let recvs = async {
        if c.recv_concurrent {
            let mut v = Vec::new();
            for block in c.recv_order.chunk_by(|a, b| a / c.active == b / c.active) {
                v.extend(
                    join_all(block.iter().map(|&j| {
                        let rx = &rx;
                        async move { (j, rx.receive(RecordId::from(j)).await) }
                    }))
                    .await,
                );
            }
            v
        } else {
            let mut v = Vec::new();
            for &j in &c.recv_order {
                v.push((j, rx.receive(RecordId::from(j)).await));
            }
            v
        }
    };
    let both = async {
        if c.recv_first {
            let (r, s) = join_as_tasks(recvs, sends).await;
            (s, r)
        } else {
            join_as_tasks(sends, recvs).await
        }
    };
    let (s, r) = tokio::time::timeout(STEP_T, both).await.map_err(|_| {
        DEADLINES_HIT.fetch_add(1, std::sync::atomic::Ordering::SeqCst);
        "the exchange did not complete (deadlock) although no more than the window of records was outstanding".to_string()
    })?;
    s?;
    for (j, got) in r {
        match got {
            Ok(m) if m == val(j) => {}
            Ok(m) => return Err(format!("receive({j}) returned {m:?}, the message sent for record {j} was {:?}", val(j))),
            Err(e) => return Err(format!("receive({j}) failed: {e:?}")),
        }
    }
    // --- end of channel ---------------------------------------------------------------------------
    if c.indeterminate {
        settle().await;
        let mut pending = Box::pin(rx.receive(RecordId::from(c.k)));
        if let Some(x) = (&mut pending).now_or_never() {
            return Err(format!("indeterminate channel: receive({}) resolved to {x:?} before the channel was closed", c.k));
        }
        tokio::time::timeout(STEP_T, tx.close(RecordId::from(c.k))).await.map_err(|_| "close() did not return".to_string())?;
        match tokio::time::timeout(STEP_T, pending).await {
            // (any error: the property says the channel is closed, not which error reports it)
            Ok(Err(_)) => {}
            Ok(x) => return Err(format!("after close({}) receive({}) returned {x:?} instead of end-of-stream", c.k, c.k)),
            Err(_) => return Err(format!("after close({}) the receiver never saw the end of the stream", c.k)),
        }
    } else {
        match tokio::time::timeout(STEP_T, rx.receive(RecordId::from(c.k))).await {
            Ok(Err(_)) => {}
            Ok(x) => return Err(format!("all {} declared records were sent; receive({}) returned {x:?} instead of end-of-stream", c.k, c.k)),
            Err(_) => return Err(format!("all {} declared records were sent but the channel did not close (receive({}) still pending)", c.k, c.k)),
        }
        for beyond in [c.k, c.k + 1, c.k + 5] {
            let fut = std::panic::AssertUnwindSafe(tokio::time::timeout(STEP_T, tx.send(RecordId::from(beyond), val(0)))).catch_unwind();
            match fut.await {
                // (any error value: the property says sending beyond the count is an error)
                Ok(Ok(Err(_))) => {}
                Ok(Ok(x)) => return Err(format!("send({beyond}) on a channel of {} records returned {x:?} instead of an error", c.k)),
                Ok(Err(_)) => return Err(format!("send({beyond}) on a channel of {} records blocked instead of failing", c.k)),
                Err(_) => return Err(format!("send({beyond}) on a channel of {} records panicked instead of failing", c.k)),
            }
        }
    }
    Ok(())
}

/// the channel must not close (and the last receive must not resolve) before the last declared
/// record was sent
async fn early_close_case<M: Pat, C: Context>(sctx: C, rctx: C, k: usize, active: usize, tag: u128) -> Result<(), String> {
    let sctx = sctx.set_total_records(TotalRecords::specified(k).unwrap());
    let rctx = rctx.set_total_records(TotalRecords::specified(k).unwrap());
    let tx = sctx.send_channel::<M>(Role::H2);
    let rx = rctx.recv_channel::<M>(Role::H1);
    let val = |i: usize| M::pat(tag * 8 + i as u128 + 1);
    let mut sends = Box::pin(join_all((0..k - 1).map(|i| {
        let tx = &tx;
        async move { tx.send(RecordId::from(i), val(i)).await }
    })));
    let mut recvs = Box::pin(async {
        let ids: Vec<usize> = (0..k).collect();
        let mut v = Vec::new();
        for block in ids.chunks(active) {
            v.extend(
                join_all(block.iter().map(|&j| {
                    let rx = &rx;
                    async move { rx.receive(RecordId::from(j)).await }
                }))
                .await,
            );
        }
        v
    });
    let mut sends_done = k == 1;
    for _ in 0..60 {
        if !sends_done {
            if let std::task::Poll::Ready(r) = futures::poll!(&mut sends) {
                for x in r {
                    x.map_err(|e| format!("{e:?}"))?;
                }
                sends_done = true;
            }
        }
        if let std::task::Poll::Ready(r) = futures::poll!(&mut recvs) {
            return Err(format!("the receive requests for records 0..{k} all resolved ({r:?}) before record {} was sent", k - 1));
        }
        tokio::task::yield_now().await;
    }
    if !sends_done {
        return Err(format!("sending the first {} of {k} records did not complete while the receiver was polling", k - 1));
    }
    tokio::time::timeout(STEP_T, tx.send(RecordId::from(k - 1), val(k - 1))).await.map_err(|_| "last send blocked".to_string())?.map_err(|e| format!("{e:?}"))?;
    let got = tokio::time::timeout(STEP_T, recvs).await.map_err(|_| "receives did not complete after the last record was sent (deadlock)".to_string())?;
    for (j, m) in got.into_iter().enumerate() {
        if m.as_ref().ok() != Some(&val(j)) {
            return Err(format!("receive({j}) returned {m:?}"));
        }
    }
    Ok(())
}

/// a receive request is polled once before any data exists (with a waker that is then dropped) and
/// awaited later from the task proper: the latest waker must be the one that is woken
async fn repoll_case<M: Pat, C: Context>(sctx: C, rctx: C, k: usize, active: usize, tag: u128) -> Result<(), String> {
    let sctx = sctx.set_total_records(TotalRecords::specified(k).unwrap());
    let rctx = rctx.set_total_records(TotalRecords::specified(k).unwrap());
    let tx = sctx.send_channel::<M>(Role::H2);
    let rx = rctx.recv_channel::<M>(Role::H1);
    let val = |i: usize| M::pat(tag * 8 + i as u128 + 1);
    let first = k.min(active);
    let mut early: Vec<_> = (0..first).rev().map(|j| Box::pin(rx.receive(RecordId::from(j)))).collect();
    for f in &mut early {
        if let Some(x) = f.as_mut().now_or_never() {
            return Err(format!("a receive resolved to {x:?} before anything was sent"));
        }
    }
    let recvs = async {
        let mut v: Vec<(usize, _)> = Vec::new();
        let got = join_all(early).await;
        for (n, m) in got.into_iter().enumerate() {
            v.push((first - 1 - n, m));
        }
        let rest: Vec<usize> = (first..k).collect();
        for block in rest.chunks(active) {
            v.extend(join_all(block.iter().map(|&j| { let rx = &rx; async move { (j, rx.receive(RecordId::from(j)).await) } })).await);
        }
        v
    };
    let sends = join_all((0..k).map(|i| { let tx = &tx; async move { tx.send(RecordId::from(i), val(i)).await } }));
    let (got, s) = tokio::time::timeout(STEP_T, join_as_tasks(recvs, sends)).await.map_err(|_| {
        DEADLINES_HIT.fetch_add(1, std::sync::atomic::Ordering::SeqCst);
        "a receive request polled before the data arrived was never woken when it did (deadlock)".to_string()
    })?;
    for x in s {
        x.map_err(|e| format!("{e:?}"))?;
    }
    for (j, m) in got {
        if m.as_ref().ok() != Some(&val(j)) {
            return Err(format!("receive({j}) returned {m:?}"));
        }
    }
    Ok(())
}

fn world_cfg(active: usize, read: usize, seed: u64) -> TestWorldConfig {
    let mut config = TestWorldConfig::default();
    config.gateway_config = GatewayConfig { active: active.try_into().unwrap(), read_size: read.try_into().unwrap(), ..Default::default() };
    config.seed = seed;
    config.timeout = None;
    config
}

fn cases(k: usize, active: usize, full: bool, tag0: &mut u128) -> Vec<Case13> {
    let all = perms(k);
    let send_orders: Vec<Vec<usize>> = if full { all.clone() } else { vec![all[0].clone(), all[all.len() - 1].clone(), all[all.len() / 2].clone()] };
    let recv_orders: Vec<Vec<usize>> = all.iter().filter(|p| window_ok(p, active)).cloned().collect();
    let recv_orders: Vec<Vec<usize>> = if full { recv_orders } else { vec![recv_orders[0].clone(), recv_orders[recv_orders.len() - 1].clone(), recv_orders[recv_orders.len() / 2].clone()] };
    let mut out = Vec::new();
    for so in &send_orders {
        for ro in &recv_orders {
            for indeterminate in [false, true] {
                for recv_first in [false, true] {
                    for recv_concurrent in [false, true] {
                        // requests awaited one after another are only meaningful in record order
                        if !recv_concurrent && ro.windows(2).any(|w| w[0] > w[1]) {
                            continue;
                        }
                        *tag0 += 1;
                        out.push(Case13 { k, indeterminate, send_order: so.clone(), recv_order: ro.clone(), recv_first, recv_concurrent, active, tag: *tag0 % 13 });
                    }
                }
            }
        }
    }
    out
}

macro_rules! for_types {
    ($ti:expr, $f:ident, $($args:expr),*) => {
        match $ti {
            0 => $f::<BA8, _>($($args),*).await,
            1 => $f::<BA20, _>($($args),*).await,
            2 => $f::<Fp32BitPrime, _>($($args),*).await,
            3 => $f::<BA64, _>($($args),*).await,
            4 => $f::<BA112, _>($($args),*).await,
            _ => $f::<BA256, _>($($args),*).await,
        }
    };
}
const TYPE_NAMES: [&str; 6] = [BA8::NAME, BA20::NAME, <Fp32BitPrime as Pat>::NAME, BA64::NAME, BA112::NAME, <BA256 as Pat>::NAME];

/// all directed helper pairs x two gates (x shard channels on the same gates when sharded) at once;
/// the payload encodes the channel
async fn isolation<const S: usize>(active: usize, read: usize, k: usize, seed: u64) -> Result<u64, String> {
    let world: TestWorld<WithShards<S>> = TestWorld::with_shards(world_cfg(active, read, seed));
    let ctxs = world.contexts();
    let mut futs: Vec<std::pin::Pin<Box<dyn std::future::Future<Output = Result<u64, String>> + '_>>> = Vec::new();
    let code = |h_from: usize, h_to: usize, shard_from: usize, shard_to: usize, gate: usize, kind: usize, i: usize| -> u128 {
        ((((((h_from * 3 + h_to) * 5 + shard_from) * 5 + shard_to) * 2 + gate) * 2 + kind) * 8 + i) as u128 + 1
    };
    for (h, per_shard) in ctxs.iter().enumerate() {
        for (s, ctx) in per_shard.iter().enumerate() {
            for g in 0..2usize {
                let gctx = ctx.narrow(&format!("iso{g}")).set_total_records(TotalRecords::specified(k).unwrap());
                for dir in [Direction::Left, Direction::Right] {
                    let peer = gctx.role().peer(dir);
                    let ph = Role::all().iter().position(|r| *r == peer).unwrap();
                    let c1 = gctx.clone();
                    futs.push(Box::pin(async move {
                        let tx = c1.send_channel::<BA64>(peer);
                        for i in (0..k).rev() {
                            // reverse order inside the window
                            let _ = i;
                        }
                        let r = join_all((0..k).rev().map(|i| {
                            let tx = &tx;
                            async move { tx.send(RecordId::from(i), BA64::truncate_from(code(h, ph, s, s, g, 0, i))).await }
                        }))
                        .await;
                        r.into_iter().collect::<Result<Vec<()>, _>>().map_err(|e| format!("{e:?}"))?;
                        Ok(0)
                    }));
                    let c2 = gctx.clone();
                    futs.push(Box::pin(async move {
                        let rx = c2.recv_channel::<BA64>(peer);
                        let mut n = 0;
                        for i in 0..k {
                            let m = rx.receive(RecordId::from(i)).await.map_err(|e| format!("{e:?}"))?;
                            let want = code(ph, h, s, s, g, 0, i);
                            if m.as_u128() != want {
                                return Err(format!("helper {h} shard {s} gate iso{g}: receive({i}) from helper {ph} returned payload {} (expected {want}) - a message leaked between channels", m.as_u128()));
                            }
                            n += 1;
                        }
                        Ok(n)
                    }));
                }
                for other in 0..S {
                    if other == s {
                        continue;
                    }
                    let c1 = gctx.clone();
                    futs.push(Box::pin(async move {
                        let tx = c1.shard_send_channel::<BA64>(ShardIndex::from(other as u32));
                        for i in 0..k {
                            tx.send(RecordId::from(i), BA64::truncate_from(code(h, h, s, other, g, 1, i))).await.map_err(|e| format!("{e:?}"))?;
                        }
                        Ok(0)
                    }));
                    let c2 = gctx.clone();
                    futs.push(Box::pin(async move {
                        let mut rx = std::pin::pin!(c2.shard_recv_channel::<BA64>(ShardIndex::from(other as u32)));
                        let mut n = 0;
                        for i in 0..k {
                            let m = rx.next().await.ok_or_else(|| format!("shard stream from {other} ended after {i} of {k} records"))?.map_err(|e| format!("{e:?}"))?;
                            let want = code(h, h, other, s, g, 1, i);
                            if m.as_u128() != want {
                                return Err(format!("helper {h} shard {s} gate iso{g}: record {i} from shard {other} carries payload {} (expected {want}) - a message leaked between channels", m.as_u128()));
                            }
                            n += 1;
                        }
                        if let Some(x) = rx.next().await {
                            return Err(format!("shard stream from {other} yielded {x:?} after its {k} declared records"));
                        }
                        Ok(n)
                    }));
                }
            }
        }
    }
    let r = tokio::time::timeout(Duration::from_secs(20), join_all(futs)).await.map_err(|_| "isolation scenario did not complete".to_string())?;
    let mut n = 0;
    for x in r {
        n += x?;
    }
    drop(ctxs);
    drop(world);
    Ok(n)
}

#[test]
fn run() {
    let mut r = Report::new("C13");
    let thorough = common::thorough();
    let rt = tokio::runtime::Builder::new_current_thread().enable_time().build().unwrap();
    let seed = common::seed() + 130;
    let actives: &[usize] = &[2, 4, 16];
    let reads: Vec<usize> = if thorough { vec![1, 2, 3, 5, 16, 31, 64, 2048] } else { vec![1, 5, 16, 2048] };
    let mut tag = 0u128;
    let mut first_sample = true;
    for &active in actives {
        for &read in &reads {
            let res: Vec<(usize, Case13, Result<(), String>)> = rt.block_on(async {
                let world = TestWorld::new_with(world_cfg(active, read, seed));
                let ctxs = world.contexts();
                let mut out = Vec::new();
                let mut n = 0usize;
                for ti in 0..6usize {
                    let kmax = if thorough { 6 } else { 5 };
                    for k in 1..=kmax {
                        // full permutation products for the narrow types and k <= 3 (4), selected orders beyond
                        let full = k <= if thorough { 5 } else { 4 };
                        for c in cases(k, active, full, &mut tag) {
                            if DEADLINES_HIT.load(std::sync::atomic::Ordering::SeqCst) >= 3 {
                                break;
                            }
                            n += 1;
                            let s = ctxs[0].narrow(&format!("c{n}"));
                            let rc = ctxs[1].narrow(&format!("c{n}"));
                            let res = std::panic::AssertUnwindSafe(async { for_types!(ti, chan_case, s, rc, &c) }).catch_unwind().await.unwrap_or_else(|_| Err("panicked".into()));
                            if std::env::var("VERIF_VERBOSE").is_ok() {
                                if let Err(e) = &res {
                                    eprintln!("{} {c:?}: {e}", TYPE_NAMES[ti]);
                                }
                            }
                            out.push((ti, c, res));
                        }
                        if DEADLINES_HIT.load(std::sync::atomic::Ordering::SeqCst) < 3 {
                            n += 1;
                            let s = ctxs[0].narrow(&format!("c{n}"));
                            let rc = ctxs[1].narrow(&format!("c{n}"));
                            let res = std::panic::AssertUnwindSafe(async { for_types!(ti, repoll_case, s, rc, k, active, 5) }).catch_unwind().await.unwrap_or_else(|_| Err("panicked".into()));
                            out.push((ti, Case13 { k, indeterminate: false, send_order: (0..k).collect(), recv_order: (0..k.min(active)).rev().collect(), recv_first: true, recv_concurrent: true, active, tag: 5 }, res));
                        }
                        if k >= 2 && DEADLINES_HIT.load(std::sync::atomic::Ordering::SeqCst) < 3 {
                            n += 1;
                            let s = ctxs[0].narrow(&format!("c{n}"));
                            let rc = ctxs[1].narrow(&format!("c{n}"));
                            let res = std::panic::AssertUnwindSafe(async { for_types!(ti, early_close_case, s, rc, k, active, 3) }).catch_unwind().await.unwrap_or_else(|_| Err("panicked".into()));
                            out.push((ti, Case13 { k, indeterminate: false, send_order: (0..k).collect(), recv_order: vec![k - 1], recv_first: true, recv_concurrent: false, active, tag: 3 }, res));
                        }
                    }
                }
                drop(ctxs);
                drop(world);
                out
            });
            for (ti, c, res) in res {
                r.inc("evaluations");
                r.inc("states");
                r.add("transitions", 2 * c.k as u64 + 4);
                if c.send_order != c.recv_order {
                    r.inc("distinct_nontrivial");
                }
                r.inc("channel_cases");
                r.set("configs", format!("{}-a{active}-r{read}", TYPE_NAMES[ti]));
                if first_sample && c.k == 3 && c.send_order != c.recv_order {
                    first_sample = false;
                    r.sample(case_json(&c, TYPE_NAMES[ti], active, read));
                }
                if let Err(e) = res {
                    let kind = if e.contains("TooManyRecords") || e.contains("beyond") || e.contains("on a channel of") {
                        "send-beyond-count"
                    } else if e.contains("deadlock") || e.contains("blocked") {
                        "deadlock"
                    } else if e.contains("end-of-stream") || e.contains("close") || e.contains("before") {
                        "close"
                    } else {
                        "delivery"
                    };
                    r.violation(&format!("gateway:{kind}:{}", TYPE_NAMES[ti]), &e, json!({"part":"channels","case":case_json(&c, TYPE_NAMES[ti], active, read)}));
                }
            }
        }
    }
    // ---- isolation -------------------------------------------------------------------------------
    for (shards, active, read, k) in [(1usize, 2usize, 1usize, 3usize), (2, 2, 8, 3), (3, 4, 16, 5), (2, 16, 2048, 8), (5, 2, 16, 2)] {
        if !thorough && shards == 5 {
            continue;
        }
        let res = rt.block_on(async {
            std::panic::AssertUnwindSafe(async {
                match shards {
                    1 => isolation::<1>(active, read, k, seed).await,
                    2 => isolation::<2>(active, read, k, seed).await,
                    3 => isolation::<3>(active, read, k, seed).await,
                    _ => isolation::<5>(active, read, k, seed).await,
                }
            })
            .catch_unwind()
            .await
            .unwrap_or_else(|_| Err("panicked".into()))
        });
        r.inc("evaluations");
        r.inc("states");
        match res {
            Ok(n) => {
                r.add("isolation_receives", n);
                r.add("transitions", n);
                r.add("distinct_nontrivial", 1);
            }
            Err(e) => r.violation("gateway:isolation", &e, json!({"part":"channels","isolation":{"shards":shards,"active":active,"read":read,"k":k}})),
        }
    }
    r.flag("exhaustive", true);
    r.finish();
}
