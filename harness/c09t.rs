// C09 (layout): bit-matrix transposes are lossless inverses / exact transposes for every
// supported shape — all one-hot inputs (a basis) in each share, plus all-ones and a dense pattern.

use serde_json::json;

use super::common::{self, Report};
use crate::{
    ff::{
        ArrayAccess,
        boolean::Boolean,
        boolean_array::{BA3, BA5, BA8, BA16, BA32, BA64, BA256},
    },
    secret_sharing::{
        SharedValue, TransposeFrom, Vectorizable,
        replicated::{ReplicatedSecretSharing, semi_honest::AdditiveShare},
    },
};

/// positions (row, col) to set: every position for small shapes, a boundary cross for large ones
fn positions(rows: usize, cols: usize, all: bool) -> Vec<(usize, usize)> {
    if all || rows * cols <= 2048 {
        return (0..rows).flat_map(|r| (0..cols).map(move |c| (r, c))).collect();
    }
    let pick = |n: usize| -> Vec<usize> {
        let mut v: Vec<usize> = [0, 1, 7, 8, 9, 15, 16, 17, 31, 32, 63, 64, 127, 128, 255].into_iter().filter(|x| *x < n).collect();
        v.push(n - 1);
        v.push(n - 2);
        v.sort_unstable();
        v.dedup();
        v
    };
    let mut out = Vec::new();
    for r in pick(rows) {
        for c in 0..cols {
            out.push((r, c));
        }
    }
    for c in pick(cols) {
        for r in 0..rows {
            out.push((r, c));
        }
    }
    out.sort_unstable();
    out.dedup();
    out
}

macro_rules! ba_to_ba {
    ($BA:ty, $N:literal, $r:expr, $all:expr) => {{
        let mut bad = 0u64;
        let pos = positions($N, $N, $all);
        for &(i, j) in &pos {
            let mut src: [$BA; $N] = [<$BA>::ZERO; $N];
            src[i].set(j, Boolean::TRUE);
            let mut dst: [$BA; $N] = [<$BA>::ZERO; $N];
            dst.transpose_from(&src).unwrap();
            for a in 0..$N {
                for b in [j, (j + 1) % $N, i] {
                    let expect = a == j && b == i;
                    if bool::from(dst[a].get(b).unwrap()) != expect {
                        bad += 1;
                    }
                }
            }
            // full check of the only row that may hold a bit
            if dst.iter().enumerate().any(|(a, row)| (a != j) && *row != <$BA>::ZERO) {
                bad += 1;
            }
        }
        $r.add("evaluations", pos.len() as u64);
        $r.add("distinct_nontrivial", pos.len() as u64);
        $r.set("transposes", format!("[{0};{1}]->[{0};{1}]:{2} one-hot", stringify!($BA), $N, pos.len()));
        if bad > 0 {
            $r.violation(&format!("transpose:ba_to_ba:{}", $N), &format!("{bad} wrong bits"), json!({"part":"encodings"}));
        }
    }};
}

macro_rules! bool_to_ba {
    ($BA:ty, $ROWS:literal, $COLS:literal, $r:expr, $all:expr) => {{
        // src: [AdditiveShare<Boolean, COLS>; ROWS]  ->  dst: [AdditiveShare<BA{ROWS}>; COLS]
        type Arr = <Boolean as Vectorizable<$COLS>>::Array;
        let mut bad = 0u64;
        let pos = positions($ROWS, $COLS, $all);
        for side in 0..2 {
            for &(i, j) in &pos {
                let mut src: [AdditiveShare<Boolean, $COLS>; $ROWS] = std::array::from_fn(|_| AdditiveShare::<Boolean, $COLS>::ZERO);
                let mut a = <Arr>::ZERO;
                a.set(j, Boolean::TRUE);
                src[i] = if side == 0 { AdditiveShare::new_arr(a, <Arr>::ZERO) } else { AdditiveShare::new_arr(<Arr>::ZERO, a) };
                let mut dst: [AdditiveShare<$BA>; $COLS] = std::array::from_fn(|_| AdditiveShare::<$BA>::ZERO);
                dst.transpose_from(&src).unwrap();
                for c in 0..$COLS {
                    let (l, rr) = (dst[c].left(), dst[c].right());
                    let (hit, other) = if side == 0 { (l, rr) } else { (rr, l) };
                    if other != <$BA>::ZERO {
                        bad += 1;
                    }
                    if c == j {
                        let mut e = <$BA>::ZERO;
                        e.set(i, Boolean::TRUE);
                        if hit != e {
                            bad += 1;
                        }
                    } else if hit != <$BA>::ZERO {
                        bad += 1;
                    }
                }
            }
        }
        $r.add("evaluations", 2 * pos.len() as u64);
        $r.add("distinct_nontrivial", 2 * pos.len() as u64);
        $r.set("transposes", format!("bool_to_ba:{}x{}:{} one-hot x2 shares", $ROWS, $COLS, pos.len()));
        if bad > 0 {
            $r.violation(&format!("transpose:bool_to_ba:{}x{}", $ROWS, $COLS), &format!("{bad} wrong outputs"), json!({"part":"encodings"}));
        }
    }};
}

macro_rules! ba_to_bool {
    ($BA:ty, $ROWS:literal, $COLS:literal, $PAD:literal, $r:expr, $all:expr) => {{
        // src: [AdditiveShare<BA{COLS}>; ROWS]  ->  dst: [AdditiveShare<Boolean, ROWS>; PAD]
        type Arr = <Boolean as Vectorizable<$ROWS>>::Array;
        let mut bad = 0u64;
        let pos = positions($ROWS, $COLS, $all);
        for side in 0..2 {
            for &(i, j) in &pos {
                let mut src: [AdditiveShare<$BA>; $ROWS] = std::array::from_fn(|_| AdditiveShare::<$BA>::ZERO);
                let mut a = <$BA>::ZERO;
                a.set(j, Boolean::TRUE);
                src[i] = if side == 0 { AdditiveShare::new(a, <$BA>::ZERO) } else { AdditiveShare::new(<$BA>::ZERO, a) };
                let mut dst: [AdditiveShare<Boolean, $ROWS>; $PAD] = std::array::from_fn(|_| AdditiveShare::<Boolean, $ROWS>::ZERO);
                dst.transpose_from(&src).unwrap();
                for c in 0..$PAD {
                    let (l, rr) = (dst[c].left_arr().clone(), dst[c].right_arr().clone());
                    let (hit, other) = if side == 0 { (l, rr) } else { (rr, l) };
                    if other != <Arr>::ZERO {
                        bad += 1;
                    }
                    if c == j {
                        let mut e = <Arr>::ZERO;
                        e.set(i, Boolean::TRUE);
                        if hit != e {
                            bad += 1;
                        }
                    } else if hit != <Arr>::ZERO {
                        bad += 1;
                    }
                }
            }
        }
        $r.add("evaluations", 2 * pos.len() as u64);
        $r.add("distinct_nontrivial", 2 * pos.len() as u64);
        $r.set("transposes", format!("ba_to_bool:{}x{}:{} one-hot x2 shares", $ROWS, $COLS, pos.len()));
        if bad > 0 {
            $r.violation(&format!("transpose:ba_to_bool:{}x{}", $ROWS, $COLS), &format!("{bad} wrong outputs"), json!({"part":"encodings"}));
        }
    }};
}

pub fn run_layout(r: &mut Report) {
    let all = common::thorough();
    ba_to_ba!(BA64, 64, r, all);
    ba_to_ba!(BA256, 256, r, all);
    bool_to_ba!(BA256, 256, 256, r, all);
    bool_to_ba!(BA8, 8, 256, r, all);
    bool_to_ba!(BA16, 16, 256, r, all);
    bool_to_ba!(BA16, 16, 32, r, all);
    bool_to_ba!(BA32, 32, 256, r, all);
    bool_to_ba!(BA8, 8, 32, r, all);
    bool_to_ba!(BA32, 32, 32, r, all);
    bool_to_ba!(BA8, 8, 8, r, all);
    bool_to_ba!(BA16, 16, 16, r, all);
    bool_to_ba!(BA8, 8, 16, r, all);
    ba_to_bool!(BA64, 256, 64, 64, r, all);
    ba_to_bool!(BA32, 256, 32, 32, r, all);
    ba_to_bool!(BA16, 256, 16, 16, r, all);
    ba_to_bool!(BA8, 256, 8, 8, r, all);
    ba_to_bool!(BA5, 256, 5, 8, r, all);
    ba_to_bool!(BA3, 256, 3, 8, r, all);
    ba_to_bool!(BA8, 32, 8, 8, r, all);
    ba_to_bool!(BA3, 32, 3, 8, r, all);
    ba_to_bool!(BA32, 32, 32, 32, r, all);
    ba_to_bool!(BA16, 32, 16, 16, r, all);
    ba_to_bool!(BA8, 16, 8, 8, r, all);
}
