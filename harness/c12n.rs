// C12 (released buckets): dp_for_histogram on the real three helpers, differential oracle. The noise
// added to a bucket is a function of the shared randomness only, so running the same world (same
// seed, same gate) on the all-zero histogram yields the noise vector N itself; every other histogram
// h must then be released as h + N modulo the output width, bucket by bucket, as a consistent
// sharing. For the truncated discrete Laplace mechanism N must lie within three times the support
// radius. Output widths 8 / 16 / 32, both security modes, both mechanisms.
// (module path: crate::protocol::dp::verif::c12n; hook H4; config A)

use serde_json::json;

use super::super::{NoiseParams, dp_for_histogram};
use crate::{
    ff::{
        U128Conversions,
        boolean::Boolean,
        boolean_array::{BA8, BA16, BA32},
    },
    helpers::query::DpMechanism,
    protocol::ipa_prf::oprf_padding::insecure::OPRFPaddingDp,
    secret_sharing::{
        BitDecomposed, SharedValue,
        replicated::{ReplicatedSecretSharing, semi_honest::AdditiveShare},
    },
    test_fixture::{Runner, TestWorld, TestWorldConfig},
    verif::common::{self, Report},
};

const B: usize = 32;
const SS_BITS: usize = 3;

fn world(seed: u64) -> TestWorld {
    let mut config = TestWorldConfig::default();
    config.seed = seed;
    TestWorld::new_with(&config)
}

fn vectorize(bits: usize, values: &[u64; B]) -> BitDecomposed<[Boolean; B]> {
    BitDecomposed::decompose(bits, |i| values.map(|v| Boolean::from((v >> i) & 1 == 1)))
}

macro_rules! released {
    ($name:ident, $OV:ty) => {
        /// the released (reconstructed) buckets, or a description of the first inconsistency
        async fn $name(seed: u64, malicious: bool, mech: DpMechanism, h: &[u64; B]) -> Result<Vec<u128>, String> {
            let w = world(seed);
            let input = vectorize(<$OV>::BITS as usize, h);
            let out: [Result<Vec<AdditiveShare<$OV>>, crate::error::Error>; 3] = if malicious {
                w.malicious(input, |ctx, input| async move { dp_for_histogram::<_, B, $OV, SS_BITS>(ctx, input, mech).await }).await
            } else {
                w.semi_honest(input, |ctx, input| async move { dp_for_histogram::<_, B, $OV, SS_BITS>(ctx, input, mech).await }).await
            };
            let [a, b, c] = out;
            let (a, b, c) = (a.map_err(|e| format!("{e:?}"))?, b.map_err(|e| format!("{e:?}"))?, c.map_err(|e| format!("{e:?}"))?);
            if a.len() != B {
                return Err(format!("{} buckets released instead of {B}", a.len()));
            }
            let mut v = Vec::new();
            for i in 0..B {
                let s = [&a[i], &b[i], &c[i]];
                for hh in 0..3 {
                    if s[hh].right() != s[(hh + 1) % 3].left() {
                        return Err(format!("bucket {i}: helpers {hh} and {} hold different copies of their common share", (hh + 1) % 3));
                    }
                }
                v.push((s[0].left() + s[1].left() + s[2].left()).as_u128());
            }
            Ok(v)
        }
    };
}
released!(released8, BA8);
released!(released16, BA16);
released!(released32, BA32);

async fn released(bits: u32, seed: u64, malicious: bool, mech: DpMechanism, h: &[u64; B]) -> Result<Vec<u128>, String> {
    match bits {
        8 => released8(seed, malicious, mech, h).await,
        16 => released16(seed, malicious, mech, h).await,
        _ => released32(seed, malicious, mech, h).await,
    }
}

#[test]
fn run() {
    let mut r = Report::new("C12");
    let thorough = common::thorough();
    let rt = tokio::runtime::Builder::new_multi_thread().worker_threads(8).enable_time().build().unwrap();
    let seed0 = common::seed() + 1200;
    let mut mechs: Vec<(String, DpMechanism)> = vec![
        ("laplace-0.5".into(), DpMechanism::DiscreteLaplace { epsilon: 0.5 }),
        ("laplace-2".into(), DpMechanism::DiscreteLaplace { epsilon: 2.0 }),
        ("laplace-8".into(), DpMechanism::DiscreteLaplace { epsilon: 8.0 }),
    ];
    if thorough {
        mechs.push(("laplace-0.1".into(), DpMechanism::DiscreteLaplace { epsilon: 0.1 }));
        mechs.push(("binomial-5".into(), DpMechanism::Binomial { epsilon: 5.0 }));
    }
    mechs.push(("binomial-10".into(), DpMechanism::Binomial { epsilon: 10.0 }));
    for bits in [8u32, 16, 32] {
        let m = (1u128 << bits) - 1;
        let top = m as u64;
        let hs: Vec<[u64; B]> = vec![
            std::array::from_fn(|i| [0, 1, 2, 3, 7, 8, 100, 127, 128, 200, top, top - 1, top / 2, top / 2 + 1, 5, 64][i % 16].min(top)),
            std::array::from_fn(|i| top - i as u64),
            std::array::from_fn(|i| (i as u64 * 37 + 11) & top),
        ];
        for (mname, mech) in &mechs {
            for malicious in [false, true] {
                if !thorough && malicious && bits == 16 {
                    continue;
                }
                // documented precondition of the binomial mechanism: the output width must hold the sum
                // of all Bernoulli draws (it asserts otherwise)
                if matches!(mech, DpMechanism::Binomial { .. }) && bits < 16 {
                    continue;
                }
                // The binomial mechanism is not reachable from a query (the runner only builds NoDp or
                // DiscreteLaplace) and is not the mechanism the property describes; in the proof-carrying
                // mode it sizes its proof batch by num_bernoulli, which panics unless that is a power of
                // two. It is exercised in the semi-honest mode only and reported as a note.
                if matches!(mech, DpMechanism::Binomial { .. }) && malicious {
                    r.set("not_run", format!("{mname}:malicious (batch size = num_bernoulli must be a power of two)"));
                    continue;
                }
                let seed = seed0 + u64::from(bits);
                let key = format!("dp:released-bucket:{mname}:w{bits}:{}", if malicious { "malicious" } else { "semi-honest" });
                r.inc("evaluations");
                let zero = match common::catch(|| rt.block_on(released(bits, seed, malicious, *mech, &[0; B]))).unwrap_or_else(|p| Err(format!("panic: {p}"))) {
                    Ok(z) => z,
                    Err(e) => {
                        r.violation(&key, &format!("all-zero histogram: {e}"), json!({"part":"released","mechanism":mname,"bits":bits,"malicious":malicious}));
                        continue;
                    }
                };
                // determinism of the oracle itself: the same world twice
                let zero2 = common::catch(|| rt.block_on(released(bits, seed, malicious, *mech, &[0; B]))).unwrap_or_else(|p| Err(format!("panic: {p}")));
                if zero2.as_ref().ok() != Some(&zero) {
                    r.machinery(&format!("{key}: two runs of the same world released different noise ({zero:?} / {zero2:?})"));
                    continue;
                }
                r.inc("noise_vectors");
                if let DpMechanism::DiscreteLaplace { epsilon } = mech {
                    let np = NoiseParams { epsilon: *epsilon, per_user_credit_cap: 1 << SS_BITS, ..Default::default() };
                    let n = i128::from(OPRFPaddingDp::new(np.epsilon, np.delta, np.per_user_credit_cap).unwrap().get_shift());
                    for (i, z) in zero.iter().enumerate() {
                        let signed = if *z > m / 2 { *z as i128 - (m as i128 + 1) } else { *z as i128 };
                        r.inc("noise_draws_checked");
                        r.set("noise_values", format!("{signed}"));
                        // for 8-bit outputs 3n may exceed the representable range: then every value is possible
                        if 3 * n <= (m / 2) as i128 && signed.abs() > 3 * n {
                            r.violation(&key, &format!("bucket {i} of the all-zero histogram is released as {signed}, outside three times the support radius n = {n}"), json!({"part":"released","mechanism":mname,"bits":bits,"malicious":malicious}));
                        }
                    }
                }
                for h in &hs {
                    r.inc("evaluations");
                    match common::catch(|| rt.block_on(released(bits, seed, malicious, *mech, h))).unwrap_or_else(|p| Err(format!("panic: {p}"))) {
                        Err(e) => r.violation(&key, &format!("histogram {h:?}: {e}"), json!({"part":"released","mechanism":mname,"bits":bits,"malicious":malicious,"histogram":h.to_vec()})),
                        Ok(out) => {
                            for i in 0..B {
                                r.inc("released_buckets");
                                r.inc("distinct_nontrivial");
                                let want = (u128::from(h[i]) + zero[i]) & m;
                                if out[i] != want {
                                    r.violation(
                                        &key,
                                        &format!("bucket {i}: total {} + noise {} is released as {} instead of {want} (mod 2^{bits})", h[i], zero[i], out[i]),
                                        json!({"part":"released","mechanism":mname,"bits":bits,"malicious":malicious,"histogram":h.to_vec()}),
                                    );
                                    break;
                                }
                            }
                        }
                    }
                }
            }
        }
    }
    r.add("states", r.get("noise_vectors"));
    r.add("transitions", r.get("released_buckets"));
    r.sample(json!({"oracle":"released(h) == h + released(0) mod 2^w for every bucket; released(0) within 3n for the Laplace mechanism","widths":[8,16,32],"buckets":B}));
    r.flag("exhaustive", true);
    r.finish();
}
