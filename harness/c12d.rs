// C12 (dummy records): apply_dp_padding on the three real helpers for both row types. The rows it adds
// must be consistent replicated sharings that contribute nothing: hybrid-report dummies carry value 0
// and breakdown key 0 and come in groups of equal match key whose size is between 1 and the
// cardinality cap; aggregation dummies carry value 0 and a breakdown key below the bucket count. The
// number of groups per cardinality (of rows per bucket) stays within three draws of the documented
// support 0..2n (one draw per helper pair). The input rows are still there.
// (module path: crate::verif::c12d; config A)

use std::collections::BTreeMap;

use rand::{SeedableRng, rngs::StdRng};
use serde_json::json;

use super::common::{self, Report};
use crate::{
    ff::{
        U128Conversions,
        boolean_array::{BA3, BA8, BA64},
    },
    protocol::ipa_prf::oprf_padding::{PaddingParameters, apply_dp_padding, insecure::OPRFPaddingDp},
    report::hybrid::{AggregateableHybridReport, IndistinguishableHybridReport},
    secret_sharing::{
        IntoShares,
        replicated::{ReplicatedSecretSharing, semi_honest::AdditiveShare},
    },
    test_fixture::{TestWorld, TestWorldConfig},
};

type Rep = IndistinguishableHybridReport<BA8, BA3>;
type Agg = AggregateableHybridReport<BA8, BA3>;

fn rec3<V: crate::secret_sharing::SharedValue + U128Conversions>(s: [&AdditiveShare<V>; 3]) -> Result<u128, String> {
    for h in 0..3 {
        if s[h].right() != s[(h + 1) % 3].left() {
            return Err(format!("helpers {h} and {} hold different copies of their common share", (h + 1) % 3));
        }
    }
    Ok((s[0].left() + s[1].left() + s[2].left()).as_u128())
}

async fn run_reports(seed: u64, malicious: bool, input: &[(u64, u8, u8)], params: PaddingParameters) -> Result<Vec<(u128, u128, u128)>, String> {
    let mut config = TestWorldConfig::default();
    config.seed = seed;
    let world = TestWorld::new_with(&config);
    let mut rng = StdRng::seed_from_u64(seed ^ 0xd);
    let mut inputs: [Vec<Rep>; 3] = std::array::from_fn(|_| Vec::new());
    for (mk, v, bk) in input {
        let a: [AdditiveShare<BA64>; 3] = BA64::truncate_from(u128::from(*mk)).share_with(&mut rng);
        let b: [AdditiveShare<BA3>; 3] = BA3::truncate_from(u128::from(*v)).share_with(&mut rng);
        let c: [AdditiveShare<BA8>; 3] = BA8::truncate_from(u128::from(*bk)).share_with(&mut rng);
        for h in 0..3 {
            inputs[h].push(Rep { match_key: a[h].clone(), value: b[h].clone(), breakdown_key: c[h].clone() });
        }
    }
    let outs: Vec<Result<Vec<Rep>, crate::error::Error>> = if malicious {
        futures::future::join_all(world.malicious_contexts().into_iter().zip(inputs).map(|(ctx, inp)| apply_dp_padding::<_, Rep, 256>(ctx, inp, &params))).await
    } else {
        futures::future::join_all(world.contexts().into_iter().zip(inputs).map(|(ctx, inp)| apply_dp_padding::<_, Rep, 256>(ctx, inp, &params))).await
    };
    let outs: Vec<Vec<Rep>> = outs.into_iter().collect::<Result<_, _>>().map_err(|e| format!("{e:?}"))?;
    if outs[0].len() != outs[1].len() || outs[1].len() != outs[2].len() {
        return Err(format!("the helpers hold {} / {} / {} rows after padding", outs[0].len(), outs[1].len(), outs[2].len()));
    }
    let mut rows = Vec::new();
    for i in 0..outs[0].len() {
        let mk = rec3([&outs[0][i].match_key, &outs[1][i].match_key, &outs[2][i].match_key]).map_err(|e| format!("row {i} match key: {e}"))?;
        let v = rec3([&outs[0][i].value, &outs[1][i].value, &outs[2][i].value]).map_err(|e| format!("row {i} value: {e}"))?;
        let bk = rec3([&outs[0][i].breakdown_key, &outs[1][i].breakdown_key, &outs[2][i].breakdown_key]).map_err(|e| format!("row {i} breakdown key: {e}"))?;
        rows.push((mk, v, bk));
    }
    Ok(rows)
}

async fn run_aggs(seed: u64, input: &[(u8, u8)], params: PaddingParameters) -> Result<Vec<(u128, u128)>, String> {
    let mut config = TestWorldConfig::default();
    config.seed = seed;
    let world = TestWorld::new_with(&config);
    let mut rng = StdRng::seed_from_u64(seed ^ 0xa);
    let mut inputs: [Vec<Agg>; 3] = std::array::from_fn(|_| Vec::new());
    for (v, bk) in input {
        let b: [AdditiveShare<BA3>; 3] = BA3::truncate_from(u128::from(*v)).share_with(&mut rng);
        let c: [AdditiveShare<BA8>; 3] = BA8::truncate_from(u128::from(*bk)).share_with(&mut rng);
        for h in 0..3 {
            inputs[h].push(Agg { match_key: (), value: b[h].clone(), breakdown_key: c[h].clone() });
        }
    }
    let outs: Vec<Result<Vec<Agg>, crate::error::Error>> = futures::future::join_all(world.contexts().into_iter().zip(inputs).map(|(ctx, inp)| apply_dp_padding::<_, Agg, 32>(ctx, inp, &params))).await;
    let outs: Vec<Vec<Agg>> = outs.into_iter().collect::<Result<_, _>>().map_err(|e| format!("{e:?}"))?;
    if outs[0].len() != outs[1].len() || outs[1].len() != outs[2].len() {
        return Err(format!("the helpers hold {} / {} / {} rows after padding", outs[0].len(), outs[1].len(), outs[2].len()));
    }
    let mut rows = Vec::new();
    for i in 0..outs[0].len() {
        let v = rec3([&outs[0][i].value, &outs[1][i].value, &outs[2][i].value]).map_err(|e| format!("row {i} value: {e}"))?;
        let bk = rec3([&outs[0][i].breakdown_key, &outs[1][i].breakdown_key, &outs[2][i].breakdown_key]).map_err(|e| format!("row {i} breakdown key: {e}"))?;
        rows.push((v, bk));
    }
    Ok(rows)
}

#[test]
fn run() {
    let mut r = Report::new("C12");
    let thorough = common::thorough();
    let rt = tokio::runtime::Builder::new_multi_thread().worker_threads(6).enable_time().build().unwrap();
    let seeds: Vec<u64> = (0..if thorough { 60 } else { 12 }).map(|k| common::seed() + 1300 + k).collect();
    use crate::protocol::ipa_prf::oprf_padding::{AggregationPadding, OPRFPadding};
    // relaxed(): oprf eps 10, delta 1e-4, cardinality cap 3, sensitivity 2; aggregation eps 10, delta 1e-4, sensitivity 3
    // (at epsilon 10 practically every draw is the centre n; the second set has visible variance)
    let sets: Vec<(&str, PaddingParameters, u128, u128)> = vec![
        ("relaxed", PaddingParameters::relaxed(), u128::from(OPRFPaddingDp::new(10.0, 1e-4, 2).unwrap().get_shift()), u128::from(OPRFPaddingDp::new(10.0, 1e-4, 3).unwrap().get_shift())),
        (
            "eps1",
            PaddingParameters {
                aggregation_padding: AggregationPadding::Parameters { aggregation_epsilon: 1.0, aggregation_delta: 1e-3, aggregation_padding_sensitivity: 2 },
                oprf_padding: OPRFPadding::Parameters { oprf_epsilon: 1.0, oprf_delta: 1e-3, matchkey_cardinality_cap: 3, oprf_padding_sensitivity: 2 },
            },
            u128::from(OPRFPaddingDp::new(1.0, 1e-3, 2).unwrap().get_shift()),
            u128::from(OPRFPaddingDp::new(1.0, 1e-3, 2).unwrap().get_shift()),
        ),
        (
            "cap1",
            PaddingParameters {
                aggregation_padding: AggregationPadding::NoAggPadding,
                oprf_padding: OPRFPadding::Parameters { oprf_epsilon: 10.0, oprf_delta: 1e-4, matchkey_cardinality_cap: 1, oprf_padding_sensitivity: 2 },
            },
            u128::from(OPRFPaddingDp::new(10.0, 1e-4, 2).unwrap().get_shift()),
            1,
        ),
        (
            "cap5",
            PaddingParameters {
                aggregation_padding: AggregationPadding::NoAggPadding,
                oprf_padding: OPRFPadding::Parameters { oprf_epsilon: 5.0, oprf_delta: 1e-4, matchkey_cardinality_cap: 5, oprf_padding_sensitivity: 2 },
            },
            u128::from(OPRFPaddingDp::new(5.0, 1e-4, 2).unwrap().get_shift()),
            1,
        ),
    ];
    let input: Vec<(u64, u8, u8)> = vec![(0x1111_2222_3333_4444, 5, 17), (0x1111_2222_3333_4444, 0, 200), (0xdead_beef, 7, 255)];
    for (pname, params, n_oprf, n_agg) in sets {
    let (n_oprf, n_agg) = (n_oprf, n_agg);
    let cap = match params.oprf_padding {
        OPRFPadding::Parameters { matchkey_cardinality_cap, .. } => matchkey_cardinality_cap as usize,
        OPRFPadding::NoOPRFPadding => 0,
    };
    let mut groups_total: BTreeMap<usize, u128> = BTreeMap::new();
    let mut runs_total = 0u64;
    for &seed in &seeds {
        for malicious in [false, true] {
            r.inc("evaluations");
            let key = format!("dp:dummy-records:reports:{pname}:{}", if malicious { "malicious" } else { "semi-honest" });
            let replay = json!({"part":"dummies","kind":"reports","seed":seed,"malicious":malicious});
            let rows = match common::catch(|| rt.block_on(run_reports(seed, malicious, &input, params))).unwrap_or_else(|p| Err(format!("panic: {p}"))) {
                Ok(x) => x,
                Err(e) => {
                    r.violation(&key, &e, replay);
                    continue;
                }
            };
            r.inc("padding_runs");
            let want: Vec<(u128, u128, u128)> = input.iter().map(|(a, b, c)| (u128::from(*a), u128::from(*b), u128::from(*c))).collect();
            if rows.len() < want.len() || rows[..want.len()] != want[..] {
                r.violation(&key, &format!("the input rows are not the first {} rows after padding (got {:?})", want.len(), &rows[..want.len().min(rows.len())]), replay.clone());
                continue;
            }
            let dummies = &rows[want.len()..];
            r.add("dummy_rows", dummies.len() as u64);
            r.add("distinct_nontrivial", dummies.len() as u64);
            let mut groups: BTreeMap<u128, usize> = BTreeMap::new();
            let mut bad = None;
            for (i, (mk, v, bk)) in dummies.iter().enumerate() {
                if *v != 0 || *bk != 0 {
                    bad = Some(format!("dummy row {i} carries value {v} and breakdown key {bk}: it would contribute to a bucket"));
                }
                *groups.entry(*mk).or_default() += 1;
            }
            let mut per_card: BTreeMap<usize, u128> = BTreeMap::new();
            for (mk, size) in &groups {
                if *size > cap && !want.iter().any(|w| w.0 == *mk) {
                    bad = Some(format!("{size} dummy rows share the match key {mk:#x}: more than the cardinality cap {cap}"));
                }
                *per_card.entry(*size).or_default() += 1;
                if want.iter().any(|w| w.0 == *mk) {
                    bad = Some(format!("a dummy row uses the match key {mk:#x} of a real report"));
                }
            }
            runs_total += 1;
            for (card, cnt) in &per_card {
                *groups_total.entry(*card).or_default() += *cnt;
                r.set("groups_per_cardinality", format!("{pname}:c{card}:{cnt}"));
                if *cnt > 3 * 2 * n_oprf {
                    bad = Some(format!("{cnt} dummy groups of cardinality {card}: more than three draws from 0..={}", 2 * n_oprf));
                }
            }
            if let Some(b) = bad {
                r.violation(&key, &b, replay);
            }
        }
        // aggregation rows (32 buckets)
        r.inc("evaluations");
        let key = format!("dp:dummy-records:aggregation:{pname}");
        let replay = json!({"part":"dummies","kind":"aggregation","seed":seed});
        let ainput: Vec<(u8, u8)> = vec![(5, 3), (7, 31), (1, 0)];
        match common::catch(|| rt.block_on(run_aggs(seed, &ainput, params))).unwrap_or_else(|p| Err(format!("panic: {p}"))) {
            Err(e) => r.violation(&key, &e, replay),
            Ok(rows) => {
                r.inc("padding_runs");
                let want: Vec<(u128, u128)> = ainput.iter().map(|(a, b)| (u128::from(*a), u128::from(*b))).collect();
                if rows.len() < want.len() || rows[..want.len()] != want[..] {
                    r.violation(&key, "the input rows are not the first rows after padding", replay);
                    continue;
                }
                let dummies = &rows[want.len()..];
                r.add("dummy_rows", dummies.len() as u64);
                r.add("distinct_nontrivial", dummies.len() as u64);
                let mut per_bucket: BTreeMap<u128, u128> = BTreeMap::new();
                let mut bad = None;
                for (i, (v, bk)) in dummies.iter().enumerate() {
                    if *v != 0 {
                        bad = Some(format!("aggregation dummy row {i} carries value {v}"));
                    }
                    if *bk >= 32 {
                        bad = Some(format!("aggregation dummy row {i} has breakdown key {bk}, outside the 32 buckets"));
                    }
                    *per_bucket.entry(*bk).or_default() += 1;
                }
                for (bk, cnt) in &per_bucket {
                    r.set("rows_per_bucket", format!("{pname}:{cnt}"));
                    if *cnt > 3 * 2 * n_agg {
                        bad = Some(format!("{cnt} dummy rows for bucket {bk}: more than three draws from 0..={}", 2 * n_agg));
                    }
                }
                if let Some(b) = bad {
                    r.violation(&key, &b, replay);
                }
            }
        }
    }
    // every cardinality up to the cap must occur among the dummy groups: each of the three passes of each
    // run draws its number from 0..=2n, and all of them being 0 over all runs has negligible probability
    for card in 1..=cap {
        if runs_total > 0 && groups_total.get(&card).copied().unwrap_or(0) == 0 {
            r.violation(
                &format!("dp:dummy-records:cardinality-missing:{pname}"),
                &format!("no dummy match key of cardinality {card} in {runs_total} padding runs (cardinality cap {cap})"),
                json!({"part":"dummies","kind":"reports","params":pname,"cardinality":card}),
            );
        }
    }
    }
    r.add("states", r.get("padding_runs"));
    r.add("transitions", r.get("dummy_rows"));
    r.sample(json!({"params":"PaddingParameters::relaxed()","oracle":"dummy rows: consistent sharings, value 0, breakdown key 0 (reports) / < buckets (aggregation), group sizes 1..=cap, counts within three draws of the support",}));
    r.flag("exhaustive", true);
    r.finish();
}
