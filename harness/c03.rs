// C03 / E5+E3: DZKP batches. (A) real `multiply` over vectorised Booleans for a grid of segment
// widths x record counts x gates x validate APIs: honest acceptance, then every sampled bit of every
// record's transmitted product share flipped (E3) must be rejected. (B) the recording half driven
// through the public `DZKPUpgraded::push` in an arbitrary record order with one recorded bit
// flipped on one helper: must be rejected; unflipped: accepted.
// (module path: crate::verif::c03; config A)

use std::{collections::BTreeMap, sync::atomic::Ordering, time::Duration};

use rand::{SeedableRng, rngs::StdRng};
use serde_json::json;

use super::{
    common::{self, Report},
    fault::{self, BoxFut, Census, Fault, FaultKind, Out},
};
use crate::{
    ff::{ArrayAccess, U128Conversions, boolean::Boolean},
    helpers::{Direction, in_memory_config::{DynStreamInterceptor, passthrough}},
    protocol::{
        RecordId,
        basics::SecureMul,
        context::{
            Context, DZKPContext, TEST_DZKP_STEPS, UpgradableContext,
            dzkp_field::DZKPCompatibleField,
            dzkp_validator::{DZKPValidator, Segment},
        },
        prss::SharedRandomness,
    },
    secret_sharing::{
        IntoShares, SharedValue, Vectorizable,
        replicated::{ReplicatedSecretSharing, semi_honest::AdditiveShare},
    },
    test_fixture::{TestWorld, TestWorldConfig},
};

#[derive(Clone, Debug)]
pub struct Case3 {
    /// segment width in bits (= vectorisation of Boolean)
    pub width: usize,
    pub records: usize,
    pub gates: usize,
    /// 0 = validate() once at the end; k>0 = validate_record with k records per batch
    pub batch: usize,
    /// "real": SecureMul::multiply; "split-fwd"/"split-rev"/"split-mix": harness wire half + push in that order
    pub mode: &'static str,
    pub seed: u64,
    /// recorded-bit flip: (helper, record, array 0..7, bit)
    pub flip: Option<(usize, usize, usize, usize)>,
}

type Outputs = Vec<Out<Vec<u128>>>;

fn operands(c: &Case3, rec: usize, gate: usize) -> (u128, u128) {
    let m = if c.width >= 128 { u128::MAX } else { (1u128 << c.width) - 1 };
    let mut r = common::SplitMix(c.seed ^ (rec as u64 * 131 + gate as u64 * 7 + 1));
    let a = (u128::from(r.next()) << 64 | u128::from(r.next())) & m;
    let b = (u128::from(r.next()) << 64 | u128::from(r.next())) & m;
    match rec % 4 {
        0 => (a, b),
        1 => (m, m),
        2 => (0, b),
        _ => (a, a ^ m),
    }
}

macro_rules! world_n {
    ($name:ident, $N:literal, $BA:ty) => {
        async fn $name(c: &Case3, interceptor: DynStreamInterceptor, overall: Duration, grace: Duration) -> Outputs {
            type Arr = <Boolean as Vectorizable<$N>>::Array;
            type Sh = AdditiveShare<Boolean, $N>;
            let mut config = TestWorldConfig::default();
            config.seed = c.seed;
            config.stream_interceptor = interceptor;
            config.timeout = None;
            let world = TestWorld::new_with(&config);
            let mut rng = StdRng::seed_from_u64(c.seed ^ 0xc03);
            // inputs[h][gate][rec] = (a, b)
            let mut inputs: [Vec<Vec<(Sh, Sh)>>; 3] = std::array::from_fn(|_| (0..c.gates).map(|_| Vec::new()).collect());
            for g in 0..c.gates {
                for rec in 0..c.records {
                    let (a, b) = operands(c, rec, g);
                    let mk = |v: u128, rng: &mut StdRng| -> [Sh; 3] {
                        let mut arr = <$BA>::ZERO;
                        for i in 0..$N {
                            arr.set(i, Boolean::from((v >> (i % 128)) & 1 == 1));
                        }
                        let s: [AdditiveShare<$BA>; 3] = arr.share_with(rng);
                        s.map(|x| AdditiveShare::new_arr(x.left(), x.right()))
                    };
                    let sa = mk(a, &mut rng);
                    let sb = mk(b, &mut rng);
                    for h in 0..3 {
                        inputs[h][g].push((sa[h].clone(), sb[h].clone()));
                    }
                }
            }
            let mut futs: Vec<BoxFut<'_, Vec<u128>>> = Vec::new();
            for (h, (ctx, inp)) in world.malicious_contexts().into_iter().zip(inputs).enumerate() {
                let c = c.clone();
                futs.push(Box::pin(async move {
                    // records_per_batch must be a power of two (the context derives its active-work window from it)
                    let rpb = if c.batch == 0 { c.records.next_power_of_two() } else { c.batch };
                    let mut validator = ctx.set_total_records(c.records).dzkp_validator(TEST_DZKP_STEPS, rpb);
                    let mctx = validator.context();
                    let order: Vec<usize> = match c.mode {
                        "split-rev" => (0..c.records).rev().collect(),
                        "split-mix" => (0..c.records).filter(|i| i % 2 == 0).chain((0..c.records).filter(|i| i % 2 == 1).rev()).collect(),
                        _ => (0..c.records).collect(),
                    };
                    let mut results: Vec<Option<Sh>> = vec![None; c.records * c.gates];
                    if c.mode == "real" {
                        let prods = futures::future::try_join_all((0..c.gates).flat_map(|g| (0..c.records).map(move |r| (g, r))).map(|(g, rec)| {
                            let gctx = mctx.narrow(&format!("gate{g}"));
                            let (a, b) = inp[g][rec].clone();
                            let batch = c.batch;
                            async move {
                                let z = a.multiply(&b, gctx.clone(), RecordId::from(rec)).await?;
                                if batch > 0 && g == 0 {
                                    gctx.validate_record(RecordId::from(rec)).await?;
                                }
                                Ok::<_, crate::error::Error>(((g, rec), z))
                            }
                        }))
                        .await
                        .map_err(|e| format!("{e:?}"))?;
                        for ((g, rec), z) in prods {
                            results[g * c.records + rec] = Some(z);
                        }
                        if c.batch == 0 {
                            validator.validate().await.map_err(|e| format!("{e:?}"))?;
                        }
                    } else {
                        // wire half for every record first (in record order), then the recording
                        // half in the order under test
                        let mut recorded = Vec::new();
                        for g in 0..c.gates {
                            let gctx = mctx.narrow(&format!("gate{g}"));
                            let mut per = Vec::new();
                            let zs = futures::future::try_join_all((0..c.records).map(|rec| {
                                let gctx = gctx.clone();
                                let (a, b) = inp[g][rec].clone();
                                async move {
                                    let rid = RecordId::from(rec);
                                    let (pl, pr): (Arr, Arr) = gctx.prss().generate::<(Arr, Arr), _>(rid);
                                    let z_left = a.left_arr().clone() * b.left_arr() + a.left_arr().clone() * b.right_arr() + a.right_arr().clone() * b.left_arr() + &pl - &pr;
                                    let role = gctx.role();
                                    gctx.send_channel::<Arr>(role.peer(Direction::Left)).send(rid, &z_left).await?;
                                    let z_right: Arr = gctx.recv_channel(role.peer(Direction::Right)).receive(rid).await?;
                                    Ok::<_, crate::error::Error>((a, b, pl, pr, z_left, z_right))
                                }
                            }))
                            .await
                            .map_err(|e| format!("{e:?}"))?;
                            for z in zs {
                                per.push(z);
                            }
                            recorded.push((gctx, per));
                        }
                        for (g, (gctx, per)) in recorded.iter().enumerate() {
                            for &rec in &order {
                                let (a, b, pl, pr, zl, zr) = &per[rec];
                                let mut arrs: [Arr; 7] = [a.left_arr().clone(), a.right_arr().clone(), b.left_arr().clone(), b.right_arr().clone(), pl.clone(), pr.clone(), zr.clone()];
                                if let Some((fh, frec, farr, fbit)) = c.flip {
                                    if fh == h && frec == rec && g == 0 {
                                        let cur = bool::from(arrs[farr].get(fbit).unwrap());
                                        arrs[farr].set(fbit, Boolean::from(!cur));
                                    }
                                }
                                let seg = Segment::from_entries(
                                    <Boolean as DZKPCompatibleField<$N>>::as_segment_entry(&arrs[0]),
                                    <Boolean as DZKPCompatibleField<$N>>::as_segment_entry(&arrs[1]),
                                    <Boolean as DZKPCompatibleField<$N>>::as_segment_entry(&arrs[2]),
                                    <Boolean as DZKPCompatibleField<$N>>::as_segment_entry(&arrs[3]),
                                    <Boolean as DZKPCompatibleField<$N>>::as_segment_entry(&arrs[4]),
                                    <Boolean as DZKPCompatibleField<$N>>::as_segment_entry(&arrs[5]),
                                    <Boolean as DZKPCompatibleField<$N>>::as_segment_entry(&arrs[6]),
                                );
                                gctx.push(RecordId::from(rec), seg);
                                results[g * c.records + rec] = Some(AdditiveShare::new_arr(zl.clone(), zr.clone()));
                            }
                        }
                        validator.validate().await.map_err(|e| format!("{e:?}"))?;
                    }
                    // the helper's left share of every product, as an integer (low 128 bits)
                    Ok(results
                        .into_iter()
                        .map(|z| {
                            let z = z.unwrap();
                            let mut v = 0u128;
                            for i in 0..$N.min(128) {
                                if bool::from(z.left_arr().get(i).unwrap()) {
                                    v |= 1 << i;
                                }
                            }
                            v
                        })
                        .collect())
                }));
            }
            let out = fault::run_all(futs, overall, grace).await;
            drop(world);
            out
        }
    };
}

use crate::ff::boolean_array::{BA3, BA8, BA20, BA64, BA256};
world_n!(world_3, 3, BA3);
world_n!(world_8, 8, BA8);
world_n!(world_20, 20, BA20);
world_n!(world_64, 64, BA64);
world_n!(world_256, 256, BA256);

async fn dispatch(c: &Case3, i: DynStreamInterceptor, overall: Duration, grace: Duration) -> Outputs {
    match c.width {
        3 => world_3(c, i, overall, grace).await,
        8 => world_8(c, i, overall, grace).await,
        20 => world_20(c, i, overall, grace).await,
        64 => world_64(c, i, overall, grace).await,
        _ => world_256(c, i, overall, grace).await,
    }
}

/// honest oracle: all helpers Ok and the XOR of the three left shares is a AND b (low 128 bits)
fn check_honest(c: &Case3, out: &Outputs) -> Result<(), String> {
    for h in 0..3 {
        if !matches!(out[h], Out::Ok(_)) {
            return Err(format!("helper {h} did not accept an honest batch: {:?}", out[h]));
        }
    }
    let m = if c.width >= 128 { u128::MAX } else { (1u128 << c.width) - 1 };
    for g in 0..c.gates {
        for rec in 0..c.records {
            let i = g * c.records + rec;
            let got = out[0].ok().unwrap()[i] ^ out[1].ok().unwrap()[i] ^ out[2].ok().unwrap()[i];
            let (a, b) = operands(c, rec, g);
            if got != (a & b) & m {
                return Err(format!("record {rec} gate {g}: product reconstructs to {got:#x}, expected {:#x}", a & b & m));
            }
        }
    }
    Ok(())
}

fn case_json(c: &Case3) -> serde_json::Value {
    json!({"width":c.width,"records":c.records,"gates":c.gates,"batch":c.batch,"mode":c.mode,"seed":c.seed,"flip":c.flip.map(|f| vec![f.0,f.1,f.2,f.3])})
}

fn honest_grid(seed: u64, thorough: bool) -> Vec<Case3> {
    let mut v = Vec::new();
    for &width in &[3usize, 8, 20, 64, 256] {
        // record counts chosen so that the number of 256-bit blocks sweeps 1..5 (17 in thorough)
        let per_block = (256 / width.next_power_of_two()).max(1);
        let mut counts: Vec<usize> = vec![1, 2, per_block.saturating_sub(1).max(1), per_block, per_block + 1, 2 * per_block, 2 * per_block + 1, 4 * per_block, 4 * per_block + 1];
        if thorough {
            counts.extend([5 * per_block, 15 * per_block + 1, 16 * per_block, 17 * per_block]);
        }
        counts.sort_unstable();
        counts.dedup();
        counts.retain(|n| *n <= if thorough { 2200 } else { 600 });
        for &records in &counts {
            for gates in [1usize, 2] {
                if gates == 2 && records > 2 * per_block + 1 {
                    continue;
                }
                for batch in [0usize, 1, 2, 4] {
                    if batch > 0 && (records < batch || gates > 1 || records > 4 * per_block + 1) {
                        continue;
                    }
                    v.push(Case3 { width, records, gates, batch, mode: "real", seed: seed + v.len() as u64, flip: None });
                }
                for mode in ["split-fwd", "split-rev", "split-mix"] {
                    if records <= 2 * per_block + 1 {
                        v.push(Case3 { width, records, gates, batch: 0, mode, seed: seed + v.len() as u64, flip: None });
                    }
                }
            }
        }
    }
    v
}

/// recorded-bit flips: (case, flip) list
fn flip_cases(seed: u64, thorough: bool) -> Vec<Case3> {
    let mut v = Vec::new();
    for (width, records) in [(3usize, 70usize), (8, 33), (20, 17), (64, 5), (256, 2)] {
        for mode in ["split-fwd", "split-rev"] {
            let recs: Vec<usize> = if thorough { (0..records).collect() } else { vec![0, 1, records / 2, records - 2, records - 1] };
            for &rec in &recs {
                let bits: Vec<usize> = if thorough { (0..width).collect() } else { vec![0, width - 1] };
                for &bit in &bits {
                    for arr in 0..7 {
                        for helper in 0..3 {
                            if !thorough && (arr + helper + rec) % 3 != 0 {
                                continue;
                            }
                            v.push(Case3 { width, records, gates: 1, batch: 0, mode, seed: seed + 500, flip: Some((helper, rec, arr, bit)) });
                        }
                    }
                }
            }
        }
    }
    v
}

fn wire_cases(seed: u64) -> Vec<Case3> {
    vec![
        Case3 { width: 20, records: 17, gates: 1, batch: 0, mode: "real", seed: seed + 900, flip: None },
        Case3 { width: 3, records: 70, gates: 1, batch: 0, mode: "real", seed: seed + 901, flip: None },
        Case3 { width: 64, records: 5, gates: 2, batch: 0, mode: "real", seed: seed + 902, flip: None },
        Case3 { width: 8, records: 6, gates: 1, batch: 2, mode: "real", seed: seed + 903, flip: None },
    ]
}

fn wire_faults(rt: &tokio::runtime::Runtime, c: &Case3, thorough: bool) -> Option<(Census, Vec<Fault>)> {
    let census = |c: &Case3| -> Census {
        let (i, cen) = fault::census_interceptor();
        let _ = rt.block_on(dispatch(c, i, Duration::from_secs(60), Duration::from_secs(5)));
        let cc = cen.lock().unwrap().clone();
        cc
    };
    let c1 = census(c);
    let c2 = census(c);
    if c1.channels != c2.channels {
        return None;
    }
    let mut faults = Vec::new();
    for (id, chunks) in &c1.channels {
        for (ci, (len, _)) in chunks.iter().enumerate() {
            if *len == 0 {
                continue;
            }
            // every byte of multiplication messages (they carry the recorded product shares), a
            // spread of bytes of the (long) proof messages
            let is_mul = id.gate.contains("gate");
            let bytes: Vec<usize> = if is_mul || thorough || *len <= 64 { (0..*len).collect() } else { (0..*len).step_by((*len / 24).max(1)).chain([*len - 1]).collect() };
            for b in bytes {
                let masks: &[u8] = if thorough || (is_mul && *len <= 64) { &[1, 2, 4, 8, 16, 32, 64, 128] } else { &[0x01, 0x80] };
                for m in masks {
                    faults.push(Fault { channel: id.clone(), chunk: ci, kind: FaultKind::Xor { byte: b, mask: *m } });
                }
            }
        }
    }
    Some((c1, faults))
}

fn child_main(rt: &tokio::runtime::Runtime, seed: u64, thorough: bool) {
    // recorded-bit flips
    if let Some((lo, hi)) = fault::child_range("flips") {
        let cases = flip_cases(seed, thorough);
        let idxs: Vec<usize> = (lo..hi.min(cases.len())).collect();
        rt.block_on(async {
            for chunk in idxs.chunks(16) {
                futures::future::join_all(chunk.iter().map(|i| {
                    let c = cases[*i].clone();
                    async move {
                        let o = dispatch(&c, passthrough(), Duration::from_secs(20), Duration::from_millis(1500)).await;
                        let rejected = o.iter().any(|x| !matches!(x, Out::Ok(_)));
                        let who: Vec<&str> = o.iter().map(Out::class).collect();
                        fault::child_emit(*i, &json!({"class": if rejected { "rejected" } else { "VIOLATION:recorded-flip-accepted" }, "who": who,
                            "what": format!("width {} records {} order {}: helper {} recorded bit {} of array {} of record {} flipped; all three helpers accepted the batch", c.width, c.records, c.mode, c.flip.unwrap().0, c.flip.unwrap().3, c.flip.unwrap().2, c.flip.unwrap().1)}));
                    }
                }))
                .await;
            }
        });
    }
    for (ci, c) in wire_cases(seed).iter().enumerate() {
        let Some((lo, hi)) = fault::child_range(&format!("wire{ci}")) else { return };
        if lo == hi {
            continue;
        }
        let Some((_, faults)) = wire_faults(rt, c, thorough) else { return };
        let idxs: Vec<usize> = (lo..hi.min(faults.len())).collect();
        rt.block_on(async {
            for chunk in idxs.chunks(16) {
                futures::future::join_all(chunk.iter().map(|i| {
                    let f = faults[*i].clone();
                    async move {
                        let (icp, changed) = fault::fault_interceptor(f.clone());
                        let o = dispatch(c, icp, Duration::from_secs(20), Duration::from_millis(1500)).await;
                        let ch = changed.load(Ordering::SeqCst);
                        let rejected = o.iter().any(|x| !matches!(x, Out::Ok(_)));
                        // only the product-share messages belong to "a multiplication in the batch": a
                        // flipped bit there makes the batch inconsistent and must be rejected. The batch
                        // stays consistent when a proof / challenge / verification message is corrupted
                        // (unused recursion slots are padding), so acceptance there is not a violation.
                        let is_mul = f.channel.gate.contains("/gate");
                        let class = if ch == 0 { "no-op" } else if rejected { "rejected" } else if is_mul { "VIOLATION:transmitted-flip-accepted" } else { "proof-message-flip-harmless" };
                        fault::child_emit(*i, &json!({"class": class, "what": format!("width {} records {}: {:?} on {} -> helper {} accepted by all three helpers", c.width, c.records, f.kind, f.channel.gate, f.channel.dest)}));
                    }
                }))
                .await;
            }
        });
    }
}

#[test]
fn run() {
    let thorough = common::thorough();
    let rt = fault::runtime(4);
    let seed = common::seed();
    if fault::is_child() {
        child_main(&rt, seed, thorough);
        return;
    }
    let mut r = Report::new("C03");
    // ---- honest acceptance ------------------------------------------------------------------------
    let grid = honest_grid(seed, thorough);
    let res: Vec<Outputs> = rt.block_on(async {
        let mut out = Vec::new();
        for chunk in grid.chunks(12) {
            out.extend(futures::future::join_all(chunk.iter().map(|c| dispatch(c, passthrough(), Duration::from_secs(120), Duration::from_secs(5)))).await);
        }
        out
    });
    for (c, o) in grid.iter().zip(&res) {
        r.inc("evaluations");
        r.inc("honest_batches");
        r.inc("distinct_nontrivial");
        r.set("honest_shapes", format!("w{}:{}:{}", c.width, c.mode, if c.batch == 0 { "validate".to_string() } else { format!("validate_record/{}", c.batch) }));
        if let Err(e) = check_honest(c, o) {
            r.violation(&format!("dzkp:honest-rejected:w{}:{}", c.width, c.mode), &format!("{} records, {} gates, batch {}: {e}", c.records, c.gates, c.batch), json!({"part":"dzkp","case":case_json(c)}));
        }
    }
    r.sample(json!({"honest_case":case_json(&grid[grid.len() / 2])}));
    // ---- recorded-bit flips ---------------------------------------------------------------------------
    let flips = flip_cases(seed, thorough);
    let fres = fault::run_isolated("verif::c03::run", "flips", flips.len(), 32, Duration::from_secs(60), Duration::from_secs(25), common::ncpu().min(12));
    let mut rejectors: BTreeMap<String, u64> = BTreeMap::new();
    for (c, v) in flips.iter().zip(fres) {
        r.inc("evaluations");
        r.inc("distinct_nontrivial");
        r.inc("recorded_flips");
        match v {
            Some(v) if v["class"] == "rejected" => {
                *rejectors.entry(format!("{}", v["who"])).or_default() += 1;
            }
            Some(v) => r.violation(&format!("dzkp:recorded-flip-accepted:w{}:{}", c.width, c.mode), v["what"].as_str().unwrap_or(""), json!({"part":"dzkp","case":case_json(c)})),
            None => r.add("recorded_flips_killed", 1),
        }
    }
    for (k, v) in rejectors {
        r.set("rejecting_helpers", format!("{k}x{v}"));
    }
    if let Some(c) = flips.first() {
        r.sample(json!({"recorded_flip_case":case_json(c)}));
    }
    // ---- transmitted-bit flips ------------------------------------------------------------------------
    for (ci, c) in wire_cases(seed).iter().enumerate() {
        let Some((census, faults)) = wire_faults(&rt, c, thorough) else {
            r.machinery(&format!("{c:?}: census not reproducible"));
            continue;
        };
        r.add("channels_in_census", census.channels.len() as u64);
        for id in census.channels.keys() {
            r.set("gates", id.gate.rsplit('/').next().unwrap_or("").to_string());
        }
        let res = fault::run_isolated("verif::c03::run", &format!("wire{ci}"), faults.len(), 32, Duration::from_secs(60), Duration::from_secs(25), common::ncpu().min(12));
        let mut hist: BTreeMap<String, u64> = BTreeMap::new();
        for (f, v) in faults.iter().zip(res) {
            r.inc("evaluations");
            let class = v.as_ref().map_or("never-produces-output-killed".to_string(), |v| v["class"].as_str().unwrap_or("?").to_string());
            if class != "no-op" {
                r.inc("distinct_nontrivial");
            }
            if let Some(kind) = class.strip_prefix("VIOLATION:") {
                let gate = f.channel.gate.rsplit('/').take(2).collect::<Vec<_>>().join("<");
                r.violation(&format!("dzkp:{kind}:w{}:{gate}", c.width), v.as_ref().and_then(|v| v["what"].as_str()).unwrap_or(""), json!({"part":"dzkp","case":case_json(c),"fault":f.to_json()}));
            } else {
                *hist.entry(class).or_default() += 1;
            }
        }
        for (k, v) in hist {
            r.add(&format!("wire_{k}"), v);
        }
    }
    r.flag("exhaustive", true);
    r.finish();
}
