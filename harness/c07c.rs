// C07 (bucket aggregation beyond one call): the same column of values aggregated
//  (a) by consecutive `aggregate_values` calls that share the per-depth record counters (this is
//      how the query aggregates a bucket in several proof chunks) - every pair of chunk lengths
//      1..=6 and a few triples, odd lengths included;
//  (b) end to end through `breakdown_reveal_aggregation` with more rows in a bucket than fit one
//      proof chunk, for row counts around every multiple of the chunk size;
//  (c) across shards through the histogram finalizer (`FinalizerContext::finalize`), for every
//      combination of boundary per-shard totals, where the leader must hold the saturated sum.
// Oracle everywhere: reconstructed output = saturating sum of the reconstructed inputs; a run that
// neither returns nor fails within a generous deadline is a violation (re-checked once alone).
// (module path: crate::verif::c07c; config A)

use std::time::Duration;

use futures::{StreamExt, TryFutureExt, stream};
use serde_json::json;

use super::{
    common::{self, Report},
    fault::{self, BoxFut, Out},
};
use crate::{
    error::Error,
    ff::{
        U128Conversions,
        boolean::Boolean,
        boolean_array::{BA3, BA5, BA8, BA16},
    },
    protocol::{
        RecordId,
        basics::{FinalizerContext, shard_fin::Histogram},
        context::TEST_DZKP_STEPS,
        hybrid::breakdown_reveal::breakdown_reveal_aggregation,
        ipa_prf::{
            aggregation::{AGGREGATE_DEPTH, aggregate_values},
            oprf_padding::PaddingParameters,
        },
    },
    secret_sharing::{BitDecomposed, TransposeFrom, replicated::semi_honest::AdditiveShare},
    test_fixture::{Reconstruct, Runner, TestWorld, TestWorldConfig, WithShards, hybrid::TestAggregateableHybridReport},
};

fn cfg(seed: u64) -> TestWorldConfig {
    let mut config = TestWorldConfig::default();
    config.seed = seed;
    config.timeout = None;
    config
}

/// runs one case under a deadline; a case that hits it is run once more, alone, with a longer one
/// cases that hit their first deadline; an arm stops issuing new groups once there were some
static STALLS: std::sync::atomic::AtomicU64 = std::sync::atomic::AtomicU64::new(0);

async fn guarded<T: Send>(mk: impl Fn() -> BoxFut<'static, T>, deadline: Duration) -> Out<T> {
    let first = fault::run_all(vec![mk()], deadline, Duration::from_secs(2)).await.pop().unwrap();
    if matches!(first, Out::Timeout) {
        STALLS.fetch_add(1, std::sync::atomic::Ordering::SeqCst);
        return fault::run_all(vec![mk()], deadline * 3, Duration::from_secs(2)).await.pop().unwrap();
    }
    first
}

type Col = BitDecomposed<AdditiveShare<Boolean, 16>>;

fn lane_value(call: usize, row: usize, lane: usize) -> u32 {
    // 3-bit values, different in every lane; lane 15 is all-ones so that BA3 saturates early
    if lane == 15 { 7 } else { ((call * 5 + row * 3 + lane * 2 + row * lane) % 8) as u32 }
}

fn open8(out: &[Col; 3]) -> Result<[u128; 16], String> {
    let mut vals = [0u128; 16];
    for bit in 0..out[0].len() {
        for h in 0..3 {
            let r: Vec<Boolean> = out[h][bit].right_arr().clone().into_iter().collect();
            let l: Vec<Boolean> = out[(h + 1) % 3][bit].left_arr().clone().into_iter().collect();
            if r != l {
                return Err(format!("helpers {h} and {} hold different copies of their common share", (h + 1) % 3));
            }
        }
        let a: Vec<Boolean> = out[0][bit].left_arr().clone().into_iter().collect();
        let b: Vec<Boolean> = out[1][bit].left_arr().clone().into_iter().collect();
        let c: Vec<Boolean> = out[2][bit].left_arr().clone().into_iter().collect();
        for l in 0..16 {
            vals[l] |= (a[l] + b[l] + c[l]).as_u128() << bit;
        }
    }
    Ok(vals)
}

macro_rules! chunk_calls {
    ($name:ident, $ov:ty) => {
        /// consecutive aggregations sharing the record counters; returns the opened result of each call
        async fn $name(lens: Vec<usize>, malicious: bool, seed: u64) -> Result<Vec<[u128; 16]>, String> {
            let inputs: Vec<Vec<Result<BitDecomposed<[Boolean; 16]>, Error>>> = lens
                .iter()
                .enumerate()
                .map(|(call, n)| (0..*n).map(|row| Ok(BitDecomposed::decompose(3, |i| std::array::from_fn(|l| Boolean::from((lane_value(call, row, l) >> i) & 1 == 1))))).collect())
                .collect();
            let w = TestWorld::new_with(&cfg(seed));
            let flat: Vec<Result<BitDecomposed<[Boolean; 16]>, Error>> = inputs.into_iter().flatten().collect();
            macro_rules! body {
                () => {{
                    let lens = lens.clone();
                    move |ctx, flat: Vec<Result<Col, Error>>| {
                        let lens = lens.clone();
                        async move {
                            let mut record_ids = [RecordId::FIRST; AGGREGATE_DEPTH];
                            let mut it = flat.into_iter();
                            let mut outs = Vec::new();
                            for n in lens {
                                let rows: Vec<Result<Col, Error>> = it.by_ref().take(n).collect();
                                outs.push(aggregate_values::<_, $ov, 16>(ctx_clone(&ctx), stream::iter(rows).boxed(), n, Some(&mut record_ids)).await);
                            }
                            outs
                        }
                    }
                }};
            }
            let res: [Vec<Result<Col, Error>>; 3] = if malicious { w.dzkp_malicious(flat.into_iter(), body!()).await } else { w.dzkp_semi_honest(flat.into_iter(), body!()).await };
            drop(w);
            let mut out = Vec::new();
            for call in 0..lens.len() {
                match (&res[0][call], &res[1][call], &res[2][call]) {
                    (Ok(a), Ok(b), Ok(c)) => out.push(open8(&[a.clone(), b.clone(), c.clone()])?),
                    (a, b, c) => return Err(format!("call {call} failed: {:?} / {:?} / {:?}", a.as_ref().err(), b.as_ref().err(), c.as_ref().err())),
                }
            }
            Ok(out)
        }
    };
}

fn ctx_clone<C: Clone>(c: &C) -> C {
    c.clone()
}

chunk_calls!(chunk_calls_ba8, BA8);
chunk_calls!(chunk_calls_ba3, BA3);

async fn consecutive_chunks(r: &mut Report, seed: u64, thorough: bool) {
    let max = if thorough { 8 } else { 6 };
    let mut plans: Vec<Vec<usize>> = Vec::new();
    for a in 1..=max {
        for b in 1..=max {
            plans.push(vec![a, b]);
        }
    }
    plans.extend([vec![1, 1, 1], vec![3, 3, 3], vec![5, 3, 2], vec![2, 5, 3], vec![7, 1, 4], vec![3, 2, 3, 2]]);
    if thorough {
        plans.extend([vec![9, 3, 5], vec![3, 5, 7, 9], vec![13, 11], vec![11, 13], vec![16, 15, 3]]);
    }
    for malicious in [false, true] {
        let mode = if malicious { "malicious" } else { "semi-honest" };
        // 8 cases at a time
        // the fixture's proof-carrying runner validates everything in one batch of bounded size
        // (`into_single_batch` asserts it): more than 12 rows in total only in the semi-honest mode
        let plans: Vec<Vec<usize>> = plans.iter().filter(|l| !malicious || l.iter().sum::<usize>() <= 12).cloned().collect();
        for group in plans.chunks(8) {
            if STALLS.load(std::sync::atomic::Ordering::SeqCst) > 0 {
                r.note("consecutive chunks: remaining cases skipped after a stall");
                break;
            }
            let outs = futures::future::join_all(group.iter().map(|lens| {
                let lens = lens.clone();
                async move {
                    let l8 = lens.clone();
                    let o8: Out<Vec<[u128; 16]>> = guarded(move || { let l = l8.clone(); Box::pin(chunk_calls_ba8(l, malicious, seed)) as BoxFut<'static, _> }, Duration::from_secs(40)).await;
                    let l3 = lens.clone();
                    let o3: Out<Vec<[u128; 16]>> = guarded(move || { let l = l3.clone(); Box::pin(chunk_calls_ba3(l, malicious, seed + 1)) as BoxFut<'static, _> }, Duration::from_secs(40)).await;
                    (lens, o8, o3)
                }
            }))
            .await;
            for (lens, o8, o3) in outs {
                for (bits, o) in [(8u32, o8), (3, o3)] {
                    r.inc("evaluations");
                    r.inc("distinct_nontrivial");
                    r.inc("consecutive_chunk_runs");
                    r.inc("states");
                    r.add("transitions", lens.iter().sum::<usize>() as u64);
                    let replay = json!({"part":"chunks","arm":"consecutive","lens":lens,"bits":bits,"malicious":malicious});
                    match o {
                        Out::Ok(vals) => {
                            for (call, got) in vals.iter().enumerate() {
                                for l in 0..16 {
                                    let sum: u128 = (0..lens[call]).map(|row| u128::from(lane_value(call, row, l))).sum();
                                    let want = sum.min((1u128 << bits) - 1);
                                    if got[l] != want {
                                        r.violation(
                                            &format!("aggregation:consecutive-chunks:wrong-sum:{mode}"),
                                            &format!("chunks of {lens:?} rows aggregated one after the other with shared record counters ({bits}-bit buckets, {mode}): chunk {call} lane {l} gives {}, expected {want}", got[l]),
                                            replay.clone(),
                                        );
                                        break;
                                    }
                                }
                            }
                        }
                        Out::Timeout => r.violation(
                            &format!("aggregation:consecutive-chunks:stall:{mode}"),
                            &format!("chunks of {lens:?} rows aggregated one after the other with shared record counters ({bits}-bit buckets, {mode}) did not finish within 40 s, nor within 120 s when run again alone"),
                            replay,
                        ),
                        x => r.violation(&format!("aggregation:consecutive-chunks:failed:{mode}"), &format!("chunks of {lens:?} rows ({bits}-bit buckets, {mode}): {x:?}"), replay),
                    }
                }
            }
        }
    }
}

macro_rules! bra_run {
    ($name:ident, $v:ty, $hv:ty) => {
        /// `rows` per bucket: bucket -> values; returns the 32 opened buckets
        async fn $name(rows: Vec<(usize, Vec<u32>)>, malicious: bool, seed: u64) -> Result<Vec<u128>, String> {
            let mut inputs: Vec<TestAggregateableHybridReport> = Vec::new();
            // interleave the buckets so that the input order is not grouped
            let longest = rows.iter().map(|x| x.1.len()).max().unwrap_or(0);
            for i in 0..longest {
                for (bk, vals) in &rows {
                    if let Some(v) = vals.get(i) {
                        inputs.push(TestAggregateableHybridReport { match_key: (), value: *v, breakdown_key: (*bk).try_into().unwrap() });
                    }
                }
            }
            let world: TestWorld<WithShards<1>> = TestWorld::with_shards(&cfg(seed));
            macro_rules! f {
                () => {
                    |ctx, reports| async move {
                        breakdown_reveal_aggregation::<_, BA5, $v, $hv, 32>(ctx, reports, &PaddingParameters::no_padding())
                            .map_ok(|d: BitDecomposed<AdditiveShare<Boolean, 32>>| Vec::<AdditiveShare<$hv>>::transposed_from(&d).unwrap())
                            .await
                            .map_err(|e| format!("{e:?}"))
                    }
                };
            }
            let res: Vec<[Result<Vec<AdditiveShare<$hv>>, String>; 3]> = if malicious { world.malicious(inputs.into_iter(), f!()).await } else { world.semi_honest(inputs.into_iter(), f!()).await };
            drop(world);
            let [a, b, c] = res.into_iter().next().unwrap();
            let (a, b, c) = (a?, b?, c?);
            for i in 0..a.len() {
                use crate::secret_sharing::replicated::ReplicatedSecretSharing;
                if a[i].right() != b[i].left() || b[i].right() != c[i].left() || c[i].right() != a[i].left() {
                    return Err(format!("bucket {i}: neighbouring helpers hold different copies of their common share"));
                }
            }
            let opened: Vec<$hv> = [a, b, c].reconstruct();
            Ok(opened.iter().map(|v| v.as_u128()).collect())
        }
    };
}

bra_run!(bra_v8_hv16, BA8, BA16);
bra_run!(bra_v3_hv8, BA3, BA8);
bra_run!(bra_v8_hv8, BA8, BA8);

async fn breakdown_chunks(r: &mut Report, seed: u64, thorough: bool) {
    // proof chunk for 32 buckets of 8-bit values under the test proof size: 16 rows; of 3-bit values: 64
    let chunk8 = crate::protocol::ipa_prf::aggregation::aggregate_values_proof_chunk(32, 8);
    let chunk3 = crate::protocol::ipa_prf::aggregation::aggregate_values_proof_chunk(32, 3);
    r.set("proof_chunk_rows", format!("V=8bit:{chunk8} V=3bit:{chunk3}"));
    let around = |c: usize, mult: &[usize]| -> Vec<usize> {
        let mut v = Vec::new();
        for m in mult {
            for d in [-1i64, 0, 1] {
                let n = (c * m) as i64 + d;
                if n >= 0 {
                    v.push(n as usize);
                }
            }
        }
        v
    };
    #[derive(Clone)]
    struct Case {
        which: u8,
        n: usize,
        malicious: bool,
    }
    let mut cases = Vec::new();
    let mut n8: Vec<usize> = around(chunk8, if thorough { &[1, 2, 3, 4, 5, 6, 7, 8] } else { &[1, 2, 3, 4] });
    n8.extend([1, 2, 3, 5, 60]);
    // every chunk count that becomes odd after a number of halvings
    n8.extend([chunk8 + chunk8 / 2, chunk8 * 3 + chunk8 / 4 * 3, chunk8 * 2 - 4]);
    n8.sort_unstable();
    n8.dedup();
    for &n in &n8 {
        for malicious in [false, true] {
            if malicious && !thorough && n > 4 * chunk8 + 1 {
                continue;
            }
            cases.push(Case { which: 0, n, malicious });
            if n <= chunk8 * 2 + 1 {
                cases.push(Case { which: 2, n, malicious });
            }
        }
    }
    for n in around(chunk3, if thorough { &[1, 2, 3] } else { &[1, 2] }) {
        for malicious in [false, true] {
            if malicious && !thorough && n > 2 * chunk3 + 1 {
                continue;
            }
            cases.push(Case { which: 1, n, malicious });
        }
    }
    let stalls_before = STALLS.load(std::sync::atomic::Ordering::SeqCst);
    for group in cases.chunks(6) {
        if STALLS.load(std::sync::atomic::Ordering::SeqCst) > stalls_before {
            r.note("breakdown aggregation: remaining cases skipped after a stall");
            break;
        }
        let outs = futures::future::join_all(group.iter().map(|c| {
            let c = c.clone();
            async move {
                // bucket 1: n rows; bucket 7: two rows that overflow 8 bits; bucket 31: one row
                let vmax: u32 = if c.which == 1 { 7 } else { 255 };
                let rows: Vec<(usize, Vec<u32>)> = vec![(1, (0..c.n).map(|i| (100 + i as u32 * 7) % (vmax + 1)).collect()), (7, vec![vmax, 1]), (31, vec![vmax / 2])];
                let rows2 = rows.clone();
                let c2 = c.clone();
                let o: Out<Vec<u128>> = guarded(
                    move || {
                        let rows = rows2.clone();
                        match c2.which {
                            0 => Box::pin(bra_v8_hv16(rows, c2.malicious, seed)) as BoxFut<'static, _>,
                            1 => Box::pin(bra_v3_hv8(rows, c2.malicious, seed)) as BoxFut<'static, _>,
                            _ => Box::pin(bra_v8_hv8(rows, c2.malicious, seed)) as BoxFut<'static, _>,
                        }
                    },
                    Duration::from_secs(90),
                )
                .await;
                (c, rows, o)
            }
        }))
        .await;
        for (c, rows, o) in outs {
            r.inc("evaluations");
            r.inc("distinct_nontrivial");
            r.inc("breakdown_aggregation_runs");
            r.inc("states");
            r.add("transitions", c.n as u64 + 3);
            let (vbits, hvbits) = match c.which { 0 => (8, 16), 1 => (3, 8), _ => (8, 8) };
            let mode = if c.malicious { "malicious" } else { "semi-honest" };
            let replay = json!({"part":"chunks","arm":"breakdown","rows_in_bucket_1":c.n,"value_bits":vbits,"bucket_bits":hvbits,"malicious":c.malicious});
            let mut want = vec![0u128; 32];
            for (bk, vals) in &rows {
                want[*bk] = vals.iter().map(|v| u128::from(*v)).sum::<u128>().min((1u128 << hvbits) - 1);
            }
            match o {
                Out::Ok(got) if got == want => {}
                Out::Ok(got) => {
                    let b = (0..32).find(|i| got.get(*i) != want.get(*i)).unwrap_or(0);
                    r.violation(
                        &format!("aggregation:breakdown:wrong-sum:{mode}"),
                        &format!("{} rows of {vbits}-bit values in bucket 1 (+3 rows elsewhere), {hvbits}-bit buckets, {mode}: bucket {b} holds {:?}, expected {}", c.n, got.get(b), want[b]),
                        replay,
                    );
                }
                Out::Timeout => r.violation(
                    &format!("aggregation:breakdown:stall:{mode}"),
                    &format!("{} rows of {vbits}-bit values in one bucket ({hvbits}-bit buckets, {mode}): breakdown_reveal_aggregation did not finish within 90 s, nor within 270 s when run again alone", c.n),
                    replay,
                ),
                x => r.violation(&format!("aggregation:breakdown:failed:{mode}"), &format!("{} rows of {vbits}-bit values in one bucket ({hvbits}-bit buckets, {mode}): {x:?}", c.n), replay),
            }
        }
    }
}

const BOUNDARY: [u128; 7] = [0, 1, 100, 127, 128, 200, 255];

async fn merge_run<const S: usize>(lanes: Vec<Vec<u128>>, malicious: bool, seed: u64) -> Result<(Vec<u128>, Vec<usize>), String> {
    // item i goes to shard i % S (round robin): lane l of shard s is item l * S + s
    let mut items = Vec::new();
    for l in 0..16 {
        for s in 0..S {
            items.push(BA8::truncate_from(lanes[l][s]));
        }
    }
    let world: TestWorld<WithShards<S>> = TestWorld::with_shards(&cfg(seed));
    let res: Vec<[Result<Histogram<BA8, 16>, String>; 3]> = if malicious {
        world
            .malicious(items.into_iter(), |ctx, input: Vec<AdditiveShare<BA8>>| async move {
                let input = Histogram::<BA8, 16>::new(&input).map_err(|e| format!("{e:?}"))?;
                ctx.finalize(TEST_DZKP_STEPS, input).await.map_err(|e| format!("{e:?}"))
            })
            .await
    } else {
        world
            .semi_honest(items.into_iter(), |ctx, input: Vec<AdditiveShare<BA8>>| async move {
                let input = Histogram::<BA8, 16>::new(&input).map_err(|e| format!("{e:?}"))?;
                ctx.finalize(TEST_DZKP_STEPS, input).await.map_err(|e| format!("{e:?}"))
            })
            .await
    };
    drop(world);
    let mut leader = Vec::new();
    let mut follower_lens = Vec::new();
    for (s, per) in res.into_iter().enumerate() {
        let [a, b, c] = per;
        let hs = [a?, b?, c?];
        let opened: Vec<BA8> = hs.reconstruct();
        if s == 0 {
            leader = opened.iter().map(|v| v.as_u128()).collect();
        } else {
            follower_lens.push(opened.len());
        }
    }
    Ok((leader, follower_lens))
}

async fn shard_merge(r: &mut Report, seed: u64, _thorough: bool) {
    let stalls_before = STALLS.load(std::sync::atomic::Ordering::SeqCst);
    for shards in [2usize, 3] {
        // every combination of boundary per-shard values, 16 combinations (lanes) per run
        let mut combos: Vec<Vec<u128>> = vec![Vec::new()];
        for _ in 0..shards {
            combos = combos.into_iter().flat_map(|c| BOUNDARY.iter().map(move |b| { let mut c = c.clone(); c.push(*b); c })).collect();
        }
        for malicious in [false, true] {
            let mode = if malicious { "malicious" } else { "semi-honest" };
            let groups: Vec<Vec<Vec<u128>>> = combos.chunks(16).map(|g| { let mut g = g.to_vec(); while g.len() < 16 { g.push(vec![0; shards]); } g }).collect();
            for batch in groups.chunks(6) {
                if STALLS.load(std::sync::atomic::Ordering::SeqCst) > stalls_before {
                    r.note("shard merge: remaining cases skipped after a stall");
                    break;
                }
                let outs = futures::future::join_all(batch.iter().map(|lanes| {
                    let lanes = lanes.clone();
                    async move {
                        let l2 = lanes.clone();
                        let o: Out<(Vec<u128>, Vec<usize>)> = guarded(
                            move || {
                                let l = l2.clone();
                                if shards == 2 { Box::pin(merge_run::<2>(l, malicious, seed)) as BoxFut<'static, _> } else { Box::pin(merge_run::<3>(l, malicious, seed)) as BoxFut<'static, _> }
                            },
                            Duration::from_secs(60),
                        )
                        .await;
                        (lanes, o)
                    }
                }))
                .await;
                for (lanes, o) in outs {
                    r.add("evaluations", 16);
                    r.add("distinct_nontrivial", 16);
                    r.add("shard_merge_cases", 16);
                    r.inc("states");
                    r.add("transitions", 16);
                    let replay = json!({"part":"chunks","arm":"shard-merge","shards":shards,"malicious":malicious,"lanes":lanes.iter().map(|l| l.iter().map(|x| *x as u64).collect::<Vec<_>>()).collect::<Vec<_>>()});
                    match o {
                        Out::Ok((leader, followers)) => {
                            for l in 0..16 {
                                let want = lanes[l].iter().sum::<u128>().min(255);
                                if leader.get(l) != Some(&want) {
                                    r.violation(
                                        &format!("aggregation:shard-merge:wrong-sum:{mode}"),
                                        &format!("per-shard bucket totals {:?} ({shards} shards, 8-bit buckets, {mode}): the leader holds {:?} after the merge, expected {want}", lanes[l], leader.get(l)),
                                        replay.clone(),
                                    );
                                    break;
                                }
                            }
                            if followers.iter().any(|n| *n != 0) {
                                r.note(format!("followers hold {followers:?} values after the merge"));
                            }
                        }
                        Out::Timeout => r.violation(&format!("aggregation:shard-merge:stall:{mode}"), &format!("merging the histograms of {shards} shards ({mode}) did not finish within 60 s, nor within 180 s when run again alone"), replay),
                        x => r.violation(&format!("aggregation:shard-merge:failed:{mode}"), &format!("merging the histograms of {shards} shards ({mode}): {x:?}"), replay),
                    }
                }
            }
        }
    }
}

#[test]
fn run() {
    let mut r = Report::new("C07");
    let thorough = common::thorough();
    let seed = common::seed() + 770;
    let rt = fault::runtime(8);
    rt.block_on(async {
        consecutive_chunks(&mut r, seed, thorough).await;
        breakdown_chunks(&mut r, seed + 10, thorough).await;
        shard_merge(&mut r, seed + 20, thorough).await;
    });
    r.sample(json!({"arm":"consecutive","lens":[3,3],"oracle":"each call's opened lanes = saturating column sums; no stall"}));
    r.flag("exhaustive", true);
    r.finish();
}
