// Hook H12 (ipa-core/src/protocol/prss/mod.rs): the position of a sequential generator is a private
// field; reaching its end by drawing would take 2^32 draws.

#[cfg(all(not(feature = "shuttle"), feature = "descriptive-gate"))]
mod c06p {
    include!(concat!(env!("IPA_VERIF_DIR"), "/c06p.rs"));
}
