// C05 / E5+E3: sharded shuffle. Honest: every row count 0..n x shard count x distribution,
// multiset preservation + consistent sharings. Tamper (malicious): census of every helper-to-helper
// channel x corrupt helper x fault alphabet; an honest helper must fail, or the honest helpers'
// outputs must still be the input multiset. (module path: crate::verif::c05; config A)

use std::{collections::BTreeMap, sync::atomic::Ordering, time::Duration};

use rand::{SeedableRng, rngs::StdRng};
use serde_json::json;

use super::{
    common::{self, Report},
    fault::{self, BoxFut, Census, ChannelId, Fault, FaultKind, Out},
};
use crate::{
    ff::{
        U128Conversions,
        boolean_array::{BA32, BA64},
    },
    helpers::in_memory_config::{DynStreamInterceptor, passthrough},
    protocol::ipa_prf::shuffle::ShardedShuffle,
    secret_sharing::{
        IntoShares,
        replicated::{ReplicatedSecretSharing, semi_honest::AdditiveShare},
    },
    test_fixture::{TestWorld, TestWorldConfig, WithShards},
};

type Row = AdditiveShare<BA64>;

#[derive(Clone, Debug)]
pub struct Case5 {
    pub shards: usize,
    pub malicious: bool,
    /// plaintext row values (pairwise distinct, non-zero)
    pub rows: Vec<u64>,
    /// shard of each input row
    pub assign: Vec<usize>,
    pub seed: u64,
}

/// outputs[helper][shard]
type Outputs = Vec<Vec<Out<Vec<Row>>>>;

async fn run_world<const S: usize>(c: &Case5, interceptor: DynStreamInterceptor, overall: Duration, grace: Duration) -> Outputs {
    let mut config = TestWorldConfig::default();
    config.seed = c.seed;
    config.stream_interceptor = interceptor;
    config.timeout = None;
    let world: TestWorld<WithShards<S>> = TestWorld::with_shards(&config);
    let mut rng = StdRng::seed_from_u64(c.seed ^ 0x5eed);
    // per helper, per shard input
    let mut inputs: [Vec<Vec<Row>>; 3] = std::array::from_fn(|_| (0..S).map(|_| Vec::new()).collect());
    for (v, sh) in c.rows.iter().zip(&c.assign) {
        let shares: [Row; 3] = BA64::truncate_from(u128::from(*v)).share_with(&mut rng);
        for (h, s) in shares.into_iter().enumerate() {
            inputs[h][*sh].push(s);
        }
    }
    let mut futs: Vec<BoxFut<'_, Vec<Row>>> = Vec::new();
    if c.malicious {
        let ctxs = world.malicious_contexts();
        for (h, per_shard) in ctxs.into_iter().enumerate() {
            for (s, ctx) in per_shard.into_iter().enumerate() {
                let inp = std::mem::take(&mut inputs[h][s]);
                futs.push(Box::pin(async move { ctx.sharded_shuffle(inp).await.map_err(|e| format!("{e:?}")) }));
            }
        }
    } else {
        let ctxs = world.contexts();
        for (h, per_shard) in ctxs.into_iter().enumerate() {
            for (s, ctx) in per_shard.into_iter().enumerate() {
                let inp = std::mem::take(&mut inputs[h][s]);
                futs.push(Box::pin(async move { ctx.sharded_shuffle(inp).await.map_err(|e| format!("{e:?}")) }));
            }
        }
    }
    let flat = fault::run_all(futs, overall, grace).await;
    let mut it = flat.into_iter();
    let out: Outputs = (0..3).map(|_| (0..S).map(|_| it.next().unwrap()).collect()).collect();
    drop(world);
    out
}

async fn dispatch(c: &Case5, i: DynStreamInterceptor, overall: Duration, grace: Duration) -> Outputs {
    match c.shards {
        1 => run_world::<1>(c, i, overall, grace).await,
        2 => run_world::<2>(c, i, overall, grace).await,
        3 => run_world::<3>(c, i, overall, grace).await,
        _ => run_world::<5>(c, i, overall, grace).await,
    }
}

/// multiset of values reconstructed from helpers j=(corrupt+1)%3 and k=(corrupt+2)%3 only, or an
/// explanation of why they are not a consistent sharing
fn honest_multiset(out: &Outputs, corrupt: usize, shards: usize) -> Result<Vec<u64>, String> {
    let (j, k) = ((corrupt + 1) % 3, (corrupt + 2) % 3);
    let mut all = Vec::new();
    for s in 0..shards {
        let (Some(a), Some(b)) = (out[j][s].ok(), out[k][s].ok()) else { return Err("not ok".into()) };
        if a.len() != b.len() {
            return Err(format!("shard {s}: honest helpers hold {} and {} rows", a.len(), b.len()));
        }
        for (x, y) in a.iter().zip(b) {
            if x.right() != y.left() {
                return Err(format!("shard {s}: honest helpers' overlapping share copies differ"));
            }
            all.push((x.left() + x.right() + y.right()).as_u128() as u64);
        }
    }
    all.sort_unstable();
    Ok(all)
}

fn check_honest(c: &Case5, out: &Outputs) -> Result<Vec<usize>, String> {
    for h in 0..3 {
        for s in 0..c.shards {
            if !matches!(out[h][s], Out::Ok(_)) {
                return Err(format!("honest run: helper {h} shard {s}: {:?}", out[h][s].class()));
            }
        }
    }
    let mut want = c.rows.clone();
    want.sort_unstable();
    for corrupt in 0..3 {
        let got = honest_multiset(out, corrupt, c.shards)?;
        if got != want {
            return Err(format!("rows after the shuffle {got:?} != input rows {want:?} (helpers other than {corrupt})"));
        }
    }
    // order per shard (for the non-vacuity statistics)
    let lens: Vec<usize> = (0..c.shards).map(|s| out[0][s].ok().unwrap().len()).collect();
    Ok(lens)
}

fn distributions(n: usize, shards: usize) -> Vec<(String, Vec<usize>)> {
    let mut v = vec![("round-robin".to_string(), (0..n).map(|i| i % shards).collect::<Vec<_>>())];
    for s in 0..shards {
        v.push((format!("all-on-{s}"), vec![s; n]));
    }
    for seed in 0..3u64 {
        let mut r = common::SplitMix(seed * 77 + n as u64);
        v.push((format!("random-{seed}"), (0..n).map(|_| r.below(shards as u64) as usize).collect()));
    }
    v.dedup_by(|a, b| a.1 == b.1);
    v
}

fn case_json(c: &Case5) -> serde_json::Value {
    json!({"shards":c.shards,"malicious":c.malicious,"rows":c.rows,"assign":c.assign,"seed":c.seed})
}


fn tamper_cases(seed: u64) -> Vec<Case5> {
    let mut v: Vec<Case5> = [1usize, 2]
        .into_iter()
        .map(|shards| Case5 { shards, malicious: true, rows: vec![11, 22, 33], assign: (0..3).map(|i| i % shards).collect(), seed: seed + 99 })
        .collect();
    // few rows on many shards: some shard receives rows of an intermediate table and ends up without
    // output rows, another holds nothing at all - the verification has to run there too
    for k in 0..3u64 {
        v.push(Case5 { shards: 3, malicious: true, rows: vec![44, 55], assign: vec![(k % 3) as usize, ((k + 1) % 3) as usize], seed: seed + 200 + k });
    }
    v.push(Case5 { shards: 2, malicious: true, rows: vec![66], assign: vec![1], seed: seed + 210 });
    v
}

/// census (twice; must agree) and the deterministic fault list derived from it
fn tamper_faults(rt: &tokio::runtime::Runtime, c: &Case5, thorough: bool) -> Option<(Census, Vec<Fault>)> {
    let census = |c: &Case5| -> Census {
        let (i, cen) = fault::census_interceptor();
        let _ = rt.block_on(dispatch(c, i, Duration::from_secs(30), Duration::from_secs(5)));
        let c = cen.lock().unwrap().clone();
        c
    };
    let c1 = census(c);
    let c2 = census(c);
    if c1.channels != c2.channels {
        return None;
    }
    let mut faults: Vec<Fault> = Vec::new();
    for (id, chunks) in &c1.channels {
        for (ci, (len, _)) in chunks.iter().enumerate() {
            if *len == 0 {
                continue;
            }
            // 8-byte chunks are row counts: a high-order flip makes the receiver loop / allocate for
            // 2^k rows (it never produces output, which the property allows, but the run can only be
            // stopped by killing the process) - the quick tier flips their low byte only
            let bytes: Vec<usize> = if thorough { (0..*len).collect() } else if *len == 8 { vec![0] } else { vec![0, 1, len / 2, len - 1] };
            let masks: &[u8] = if thorough { &[1, 2, 4, 8, 16, 32, 64, 128] } else { &[0x01, 0x80] };
            for b in bytes {
                for m in masks {
                    faults.push(Fault { channel: id.clone(), chunk: ci, kind: FaultKind::Xor { byte: b, mask: *m } });
                }
            }
            faults.push(Fault { channel: id.clone(), chunk: ci, kind: FaultKind::Zero });
            if *len == 8 {
                for v in [0u64, 1, 2, 3, 4, 100] {
                    faults.push(Fault { channel: id.clone(), chunk: ci, kind: FaultKind::SetU64 { value: v } });
                }
            }
        }
    }
    Some((c1, faults))
}

fn judge_fault(c: &Case5, f: &Fault, out: &Outputs, changed: u64) -> serde_json::Value {
    if changed == 0 {
        return json!({"class":"no-op"});
    }
    let mut want = c.rows.clone();
    want.sort_unstable();
    let corrupt = f.channel.source;
    let honest = [(corrupt + 1) % 3, (corrupt + 2) % 3];
    let detected = honest.iter().any(|h| (0..c.shards).any(|s| !matches!(out[*h][s], Out::Ok(_))));
    if detected {
        let timeout_only = honest.iter().all(|h| (0..c.shards).all(|s| matches!(out[*h][s], Out::Ok(_) | Out::Timeout)));
        return json!({"class": if timeout_only { "never-produces-output" } else { "rejected" }});
    }
    match honest_multiset(out, corrupt, c.shards) {
        Ok(got) if got == want => json!({"class":"harmless"}),
        Ok(got) => json!({"class":"VIOLATION:tamper-accepted","what":format!("helper {corrupt} altered {:?}; both honest helpers returned rows {got:?} != input {want:?}", f.kind)}),
        Err(e) => json!({"class":"VIOLATION:tamper-inconsistent","what":format!("helper {corrupt} altered {:?}; no honest helper failed but {e}", f.kind)}),
    }
}

fn child_main(rt: &tokio::runtime::Runtime, seed: u64, thorough: bool) {
    for (ci, c) in tamper_cases(seed).iter().enumerate() {
        let Some((lo, hi)) = fault::child_range(&format!("tamper{ci}")) else { return };
        if lo == hi {
            continue;
        }
        let Some((_, faults)) = tamper_faults(rt, c, thorough) else { return };
        let idxs: Vec<usize> = (lo..hi.min(faults.len())).collect();
        rt.block_on(async {
            for chunk in idxs.chunks(12) {
                futures::future::join_all(chunk.iter().map(|i| {
                    let f = faults[*i].clone();
                    async move {
                        let (icp, changed) = fault::fault_interceptor(f.clone());
                        let o = dispatch(c, icp, Duration::from_secs(8), Duration::from_millis(1200)).await;
                        fault::child_emit(*i, &judge_fault(c, &f, &o, changed.load(Ordering::SeqCst)));
                    }
                }))
                .await;
            }
        });
    }
}

#[test]
fn run() {
    let mut r = Report::new("C05");
    let thorough = common::thorough();
    let rt = fault::runtime(4);
    let seed = common::seed();
    if fault::is_child() {
        child_main(&rt, seed, thorough);
        return;
    }
    // ---- honest grid ---------------------------------------------------------------------------
    let max_n = if thorough { 12 } else { 6 };
    let mut cases = Vec::new();
    for shards in [1usize, 2, 3, 5] {
        for n in 0..=max_n {
            for (_, assign) in distributions(n, shards) {
                for malicious in [false, true] {
                    if !thorough && n > 4 && shards == 5 && malicious {
                        continue;
                    }
                    cases.push(Case5 { shards, malicious, rows: (0..n).map(|i| 1000 + 37 * i as u64).collect(), assign: assign.clone(), seed: seed + n as u64 });
                }
            }
        }
    }
    let (w_i, w_n) = common::worker();
    let mine: Vec<Case5> = cases.into_iter().enumerate().filter(|(i, _)| i % w_n == w_i).map(|(_, c)| c).collect();
    let honest_results: Vec<(Case5, Outputs)> = rt.block_on(async {
        let mut out = Vec::new();
        for chunk in mine.chunks(16) {
            let rs = futures::future::join_all(chunk.iter().map(|c| dispatch(c, passthrough(), Duration::from_secs(30), Duration::from_secs(5)))).await;
            out.extend(chunk.iter().cloned().zip(rs));
        }
        out
    });
    let mut reordered = 0u64;
    for (c, out) in &honest_results {
        r.inc("evaluations");
        r.inc("honest_runs");
        if c.rows.len() >= 2 {
            r.inc("distinct_nontrivial");
        }
        match check_honest(c, out) {
            Ok(lens) => {
                r.set("output_shapes", format!("S{}:{lens:?}", c.shards));
                // non-vacuity: does the order change?
                if c.shards == 1 && c.rows.len() >= 6 {
                    let a = out[0][0].ok().unwrap();
                    let b = out[1][0].ok().unwrap();
                    let c3 = out[2][0].ok().unwrap();
                    let vals: Vec<u64> = (0..a.len()).map(|i| (a[i].left() + b[i].left() + c3[i].left()).as_u128() as u64).collect();
                    if vals != c.rows {
                        reordered += 1;
                    }
                }
            }
            Err(e) => {
                let empty = (0..c.shards).any(|s| !c.assign.contains(&s));
                let mode = if c.malicious { "malicious" } else { "semi-honest" };
                r.violation(&format!("shuffle:honest:{mode}:S{}:{}", c.shards, if empty { "empty-shard" } else { "all-shards-have-rows" }), &e, json!({"part":"shuffle","case":case_json(c)}));
            }
        }
    }
    r.add("honest_runs_reordered", reordered);
    // ---- order of disclosure (malicious): a helper parts with its share of the MAC keys only after every
    // table addressed to it has been sent. The tags are linear in the keys, so a helper that learns
    // the keys while it can still choose a table could alter a row and its tag consistently.
    {
        use crate::helpers::in_memory_config::InspectContext;
        let mut order_cases = Vec::new();
        for shards in [1usize, 2, 3] {
            for n in [2usize, 3, 6] {
                order_cases.push(Case5 { shards, malicious: true, rows: (0..n as u64).map(|i| 500 + 37 * i).collect(), assign: (0..n).map(|i| i % shards).collect(), seed: seed + 7 + n as u64 });
            }
        }
        for c in &order_cases {
            let log: std::sync::Arc<std::sync::Mutex<Vec<(Option<u32>, usize, usize, String)>>> = Default::default();
            let l2 = std::sync::Arc::clone(&log);
            let icp: DynStreamInterceptor = std::sync::Arc::new(move |ctx: &InspectContext, _data: &mut Vec<u8>| {
                if let InspectContext::MpcMessage { shard, source, dest, gate } = ctx {
                    let idx = |h: &crate::helpers::HelperIdentity| crate::helpers::HelperIdentity::make_three().iter().position(|x| x == h).unwrap();
                    l2.lock().unwrap().push((shard.map(u32::from), idx(source), idx(dest), gate.as_ref().to_string()));
                }
            });
            let out = rt.block_on(dispatch(c, icp, Duration::from_secs(30), Duration::from_secs(5)));
            r.inc("evaluations");
            r.inc("disclosure_order_runs");
            if check_honest(c, &out).is_err() {
                continue; // reported by the honest grid above
            }
            let log = log.lock().unwrap();
            for shard in log.iter().map(|x| x.0).collect::<std::collections::BTreeSet<_>>() {
                for y in 0..3usize {
                    let first_key = log.iter().position(|m| m.0 == shard && m.1 == y && m.3.contains("reveal_m_a_c_key"));
                    let last_table = log.iter().rposition(|m| m.0 == shard && m.2 == y && (m.3.ends_with("transfer_x_y") || m.3.ends_with("transfer_c")));
                    r.inc("disclosure_order_points");
                    if let (Some(k), Some(t)) = (first_key, last_table) {
                        if k < t {
                            r.violation(
                                "shuffle:keys-disclosed-before-tables",
                                &format!("{} rows on {} shards: helper {y} (shard {shard:?}) sent its share of the MAC keys (message {k} of the run, {}) before the last table addressed to it was sent (message {t}, {} from helper {})", c.rows.len(), c.shards, log[k].3, log[t].3, log[t].1),
                                json!({"part":"shuffle","case":case_json(c),"order":"keys-before-tables"}),
                            );
                        }
                    } else if first_key.is_none() {
                        r.note(format!("S{} helper {y}: no key-disclosure message seen (gate names changed?)", c.shards));
                    }
                }
            }
        }
    }
    r.sample(json!({"honest_case":case_json(&Case5{shards:3,malicious:true,rows:vec![1000,1037,1074],assign:vec![0,0,2],seed})}));

    // ---- tamper enumeration (malicious) ----------------------------------------------------------
    for (ci, c) in tamper_cases(seed).iter().enumerate() {
        let Some((census, faults)) = tamper_faults(&rt, c, thorough) else {
            r.machinery(&format!("S{}: two honest runs with the same seed produced different channel censuses", c.shards));
            continue;
        };
        r.add("channels_in_census", census.channels.len() as u64);
        let res = fault::run_isolated("verif::c05::run", &format!("tamper{ci}"), faults.len(), 24, Duration::from_secs(if thorough { 60 } else { 25 }), Duration::from_secs(10), common::ncpu().min(12));
        let mut hist: BTreeMap<String, u64> = BTreeMap::new();
        for (f, v) in faults.iter().zip(res) {
            r.inc("evaluations");
            let (class, what) = match &v {
                Some(v) => (v["class"].as_str().unwrap_or("?").to_string(), v["what"].as_str().unwrap_or("").to_string()),
                None => ("never-produces-output-killed".to_string(), String::new()),
            };
            if class != "no-op" {
                r.inc("distinct_nontrivial");
            }
            if let Some(kind) = class.strip_prefix("VIOLATION:") {
                r.violation(&format!("shuffle:{kind}:{}", f.channel.gate), &what, json!({"part":"shuffle","case":case_json(c),"fault":f.to_json()}));
            } else {
                if class == "harmless" && !f.channel.gate.contains("generate_tags") {
                    // outside the tag-generation multiplications (whose vectors carry unused lanes) every
                    // byte sent belongs to a table, a row count or a verification hash
                    r.violation(
                        &format!("shuffle:alteration-unnoticed:{}", f.channel.gate.rsplit('/').next().unwrap_or("")),
                        &format!("helper {} altered {:?} of a message on {} and both honest helpers returned rows without failing", f.channel.source, f.kind, f.channel.gate),
                        json!({"part":"shuffle","case":case_json(c),"fault":f.to_json()}),
                    );
                    continue;
                }
                if class == "harmless" {
                    // where unnoticed alterations without effect happen (reported in the evidence)
                    r.set("harmless_alterations", format!("S{}:{}:{}", c.shards, f.channel.gate.rsplit('/').next().unwrap_or(""), match f.kind { FaultKind::Xor { .. } => "bit-flip", FaultKind::Zero => "zeroed", _ => "count-replaced" }));
                    if std::env::var("VERIF_VERBOSE").is_ok() {
                        eprintln!("harmless: {}", f.to_json());
                    }
                }
                *hist.entry(class).or_default() += 1;
            }
        }
        for (k, v) in hist {
            r.add(&format!("tamper_{k}"), v);
        }
        if let Some((id, ch)) = census.channels.iter().next() {
            r.sample(json!({"census_channel":{"shard":id.shard,"source":id.source,"dest":id.dest,"gate":id.gate,"chunks":ch.len()}}));
        }
    }
    r.flag("exhaustive", true);
    r.finish();
}
