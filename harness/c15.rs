// C15 / E1: seq_join / seq_try_join_all / parallel_join on a waker-tracking executor with every
// completion order the window permits, every single in-window dependency, source-Pending
// deviations and every error position. (module path: crate::verif::c15; config A)

use std::{
    future::Future,
    num::NonZeroUsize,
    pin::Pin,
    sync::{Arc, Mutex},
    task::{Context, Poll, Waker},
};

use futures::{Stream, StreamExt};
use serde_json::json;

use super::{
    common::{self, Report},
    explore::{self, Choices, MiniExec},
};
use crate::seq_join::{SeqJoin, seq_join, seq_try_join_all};

#[derive(Default)]
struct Shared {
    n: usize,
    fired: Vec<bool>,
    created: Vec<bool>,
    polled: Vec<bool>,
    resolved: Vec<bool>,
    wakers: Vec<Option<Waker>>,
    /// dep[i] = Some(j): task i can complete only after task j's future has resolved
    dep: Vec<Option<usize>>,
    errs: Vec<bool>,
    source_pending_in_poll: bool,
    source_done: bool,
    poll_order: Vec<usize>,
}

struct Gate {
    i: usize,
    sh: Arc<Mutex<Shared>>,
}

impl Future for Gate {
    type Output = Result<usize, usize>;
    fn poll(self: Pin<&mut Self>, cx: &mut Context<'_>) -> Poll<Self::Output> {
        let mut s = self.sh.lock().unwrap();
        let i = self.i;
        s.polled[i] = true;
        s.poll_order.push(i);
        let ready = match s.dep[i] {
            Some(j) => s.resolved[j],
            None => s.fired[i],
        };
        if ready {
            s.resolved[i] = true;
            // completion of i may unblock tasks that depend on it
            let deps: Vec<usize> = (0..s.n).filter(|k| s.dep[*k] == Some(i)).collect();
            for k in deps {
                if let Some(w) = s.wakers[k].take() {
                    w.wake();
                }
            }
            if s.errs[i] { Poll::Ready(Err(i)) } else { Poll::Ready(Ok(i)) }
        } else {
            s.wakers[i] = Some(cx.waker().clone());
            Poll::Pending
        }
    }
}

struct Source {
    next: usize,
    sh: Arc<Mutex<Shared>>,
    cx: *mut Choices,
}
unsafe impl Send for Source {}

impl Stream for Source {
    type Item = Gate;
    fn poll_next(mut self: Pin<&mut Self>, task: &mut Context<'_>) -> Poll<Option<Gate>> {
        let cx = unsafe { &mut *self.cx };
        let n = self.sh.lock().unwrap().n;
        if self.next >= n {
            self.sh.lock().unwrap().source_done = true;
            return Poll::Ready(None);
        }
        if cx.deviate(2) == 1 {
            self.sh.lock().unwrap().source_pending_in_poll = true;
            task.waker().wake_by_ref();
            return Poll::Pending;
        }
        let i = self.next;
        self.next += 1;
        self.sh.lock().unwrap().created[i] = true;
        Poll::Ready(Some(Gate { i, sh: Arc::clone(&self.sh) }))
    }
    fn size_hint(&self) -> (usize, Option<usize>) {
        let n = self.sh.lock().unwrap().n;
        (n - self.next, Some(n - self.next))
    }
}

#[derive(Clone, Copy, Debug, PartialEq)]
pub enum Variant {
    Join,
    TryJoin,
    Parallel,
}

#[derive(Clone, Debug)]
pub struct Cfg15 {
    pub n: usize,
    pub w: usize,
    pub variant: Variant,
    pub dep: Option<(usize, usize)>,
    pub err: Option<usize>,
    pub bound: u32,
    /// the input iterator under-reports its length (size_hint lower bound 0)
    pub inexact: bool,
}

struct Par(NonZeroUsize);
impl SeqJoin for Par {
    fn active_work(&self) -> NonZeroUsize {
        self.0
    }
}

#[derive(Default)]
pub struct Obs15 {
    pub orders: std::collections::BTreeSet<String>,
    pub max_in_flight: usize,
    pub window_checks: u64,
}

pub fn run_one(c: &Cfg15, cx: &mut Choices, obs: &mut Obs15) -> Result<(), String> {
    let n = c.n;
    let sh = Arc::new(Mutex::new(Shared {
        n,
        fired: vec![false; n],
        created: vec![false; n],
        polled: vec![false; n],
        resolved: vec![false; n],
        wakers: (0..n).map(|_| None).collect(),
        dep: (0..n).map(|i| c.dep.and_then(|(a, b)| (a == i).then_some(b))).collect(),
        errs: (0..n).map(|i| c.err == Some(i)).collect(),
        ..Shared::default()
    }));
    let out: Arc<Mutex<Vec<Result<usize, usize>>>> = Arc::new(Mutex::new(Vec::new()));
    let final_res: Arc<Mutex<Option<Result<Vec<usize>, usize>>>> = Arc::new(Mutex::new(None));
    let w = NonZeroUsize::new(c.w).unwrap();
    let mut ex = MiniExec::new();
    let cxp = cx as *mut Choices;
    let consumer = match c.variant {
        Variant::Join => {
            let mut st = seq_join(w, Source { next: 0, sh: Arc::clone(&sh), cx: cxp });
            let out2 = Arc::clone(&out);
            let sh2 = Arc::clone(&sh);
            let viol: Arc<Mutex<Option<String>>> = Arc::new(Mutex::new(None));
            let v2 = Arc::clone(&viol);
            let maxf = Arc::new(Mutex::new((0usize, 0u64)));
            let mf = Arc::clone(&maxf);
            let wv = c.w;
            let id = ex.spawn(futures::future::poll_fn(move |task| {
                loop {
                    sh2.lock().unwrap().source_pending_in_poll = false;
                    match Pin::new(&mut st).poll_next(task) {
                        Poll::Ready(Some(v)) => out2.lock().unwrap().push(v),
                        Poll::Ready(None) => return Poll::Ready(()),
                        Poll::Pending => {
                            // window oracle, evaluated at Pending returns only
                            let s = sh2.lock().unwrap();
                            let created = s.created.iter().filter(|b| **b).count();
                            let yielded = out2.lock().unwrap().len();
                            let in_flight = created - yielded;
                            let can_still = s.n - yielded;
                            let mut m = mf.lock().unwrap();
                            m.0 = m.0.max(in_flight);
                            m.1 += 1;
                            if !s.source_pending_in_poll && in_flight < wv.min(can_still) {
                                *v2.lock().unwrap() = Some(format!(
                                    "window: poll_next returned Pending with {in_flight} tasks in flight, window {wv}, {can_still} results outstanding, source not pending"
                                ));
                            }
                            if in_flight > wv {
                                *v2.lock().unwrap() = Some(format!("window: {in_flight} tasks are in flight, more than the window of {wv}"));
                            }
                            // every in-flight task must have been polled by now
                            for i in yielded..created {
                                if !s.polled[i] {
                                    *v2.lock().unwrap() = Some(format!("task {i} is in flight but was not polled before Pending was returned"));
                                }
                            }
                            return Poll::Pending;
                        }
                    }
                }
            }));
            (id, Some(viol), Some(maxf))
        }
        Variant::TryJoin => {
            let sh2 = Arc::clone(&sh);
            let gates: Vec<Gate> = (0..n).map(move |i| Gate { i, sh: Arc::clone(&sh2) }).collect();
            for i in 0..n {
                sh.lock().unwrap().created[i] = false;
            }
            // creation == the iterator yielding the gate; track through a mapping iterator
            let sh3 = Arc::clone(&sh);
            let it = gates.into_iter().map(move |g| {
                sh3.lock().unwrap().created[g.i] = true;
                g
            });
            let it: Box<dyn Iterator<Item = Gate> + Send> = if c.inexact { Box::new(it.filter(|_| true)) } else { Box::new(it) };
            let fut = seq_try_join_all(w, it);
            let fr = Arc::clone(&final_res);
            let id = ex.spawn(async move {
                let r = fut.await;
                *fr.lock().unwrap() = Some(r);
            });
            (id, None, None)
        }
        Variant::Parallel => {
            let sh2 = Arc::clone(&sh);
            let gates: Vec<Gate> = (0..n).map(move |i| Gate { i, sh: Arc::clone(&sh2) }).collect();
            for i in 0..n {
                sh.lock().unwrap().created[i] = true;
            }
            let fut = Par(w).parallel_join(gates);
            let fr = Arc::clone(&final_res);
            let id = ex.spawn(async move {
                let r = fut.await;
                *fr.lock().unwrap() = Some(r);
            });
            (id, None, None)
        }
    };
    let (cid, viol, maxf) = consumer;
    let mut fire_order = Vec::new();
    loop {
        if ex.is_done(cid) {
            break;
        }
        let woken = !ex.woken().is_empty();
        let fireable: Vec<usize> = {
            let s = sh.lock().unwrap();
            (0..n).filter(|i| s.created[*i] && !s.fired[*i] && s.dep[*i].is_none()).collect()
        };
        let options = usize::from(woken) + fireable.len();
        if options == 0 {
            let s = sh.lock().unwrap();
            return Err(format!(
                "stuck: consumer pending and not woken, no startable task left to complete; created={:?} fired={:?} resolved={:?} dep={:?} yielded={}",
                s.created, s.fired, s.resolved, c.dep, out.lock().unwrap().len()
            ));
        }
        let pick = cx.choose(options);
        if woken && pick == 0 {
            ex.poll(cid);
            if let Some(v) = viol.as_ref().and_then(|v| v.lock().unwrap().take()) {
                return Err(v);
            }
        } else {
            let j = fireable[pick - usize::from(woken)];
            fire_order.push(j);
            let wk = {
                let mut s = sh.lock().unwrap();
                s.fired[j] = true;
                s.wakers[j].take()
            };
            if let Some(wk) = wk {
                wk.wake();
            }
        }
        if ex.polls > 5000 {
            return Err("livelock: more than 5000 polls of the consumer".into());
        }
    }
    // result oracle
    match c.variant {
        Variant::Join => {
            let got = out.lock().unwrap().clone();
            let expect: Vec<Result<usize, usize>> = (0..n).map(|i| if c.err == Some(i) { Err(i) } else { Ok(i) }).collect();
            if got != expect {
                return Err(format!("outputs {got:?} != inputs in order {expect:?}"));
            }
            if let Some(m) = maxf {
                let m = m.lock().unwrap();
                obs.max_in_flight = obs.max_in_flight.max(m.0);
                obs.window_checks += m.1;
            }
        }
        Variant::TryJoin => {
            let got = final_res.lock().unwrap().take();
            let expect = match c.err {
                Some(e) => Err(e),
                None => Ok((0..n).collect::<Vec<_>>()),
            };
            if got != Some(expect.clone()) {
                return Err(format!("seq_try_join_all returned {got:?}, expected {expect:?}"));
            }
        }
        Variant::Parallel => {
            let got = final_res.lock().unwrap().take();
            let expect = match c.err {
                Some(e) => Err(e),
                None => Ok((0..n).collect::<Vec<_>>()),
            };
            if got != Some(expect.clone()) {
                return Err(format!("parallel_join returned {got:?}, expected {expect:?}"));
            }
        }
    }
    obs.orders.insert(format!("{fire_order:?}"));
    Ok(())
}

// ---- large windows: boundary values of `w` (around every power of two up to 2^17) ------------
// One execution per (w, variant): n = w + 3 tasks, task 0 waits for task w-1 (the last task of the
// first window). Oracle: after the first poll exactly min(w, n) tasks were taken from the source
// and every one of them was polled; completing task w-1 alone lets task 0 (and only it) come out;
// completing the rest yields 0..n in order. Cost O(n) per run.
struct LShared {
    fired: Vec<bool>,
    polled: Vec<bool>,
    resolved: Vec<bool>,
    wakers: Vec<Option<Waker>>,
    created: usize,
    dep0: Option<usize>,
}

struct LGate {
    i: usize,
    sh: Arc<Mutex<LShared>>,
}

impl Future for LGate {
    type Output = Result<usize, usize>;
    fn poll(self: Pin<&mut Self>, cx: &mut Context<'_>) -> Poll<Self::Output> {
        let mut s = self.sh.lock().unwrap();
        let i = self.i;
        s.polled[i] = true;
        let ready = match (i, s.dep0) {
            (0, Some(j)) => s.resolved[j],
            _ => s.fired[i],
        };
        if ready {
            s.resolved[i] = true;
            if s.dep0 == Some(i) {
                if let Some(w) = s.wakers[0].take() {
                    w.wake();
                }
            }
            Poll::Ready(Ok(i))
        } else {
            s.wakers[i] = Some(cx.waker().clone());
            Poll::Pending
        }
    }
}

pub fn large_window(w: usize, variant: Variant) -> Result<(), String> {
    let n = w + 3;
    let dep0 = (w >= 2).then_some(w - 1);
    let sh = Arc::new(Mutex::new(LShared {
        fired: vec![false; n],
        polled: vec![false; n],
        resolved: vec![false; n],
        wakers: (0..n).map(|_| None).collect(),
        created: 0,
        dep0,
    }));
    let out: Arc<Mutex<Vec<usize>>> = Arc::new(Mutex::new(Vec::new()));
    let done = Arc::new(Mutex::new(false));
    let shi = Arc::clone(&sh);
    let it = (0..n).map(move |i| {
        shi.lock().unwrap().created += 1;
        LGate { i, sh: Arc::clone(&shi) }
    });
    let nz = NonZeroUsize::new(w).unwrap();
    let mut ex = MiniExec::new();
    let (o2, d2) = (Arc::clone(&out), Arc::clone(&done));
    let cid = match variant {
        Variant::Join => {
            let mut st = seq_join(nz, futures::stream::iter(it));
            ex.spawn(async move {
                while let Some(v) = st.next().await {
                    o2.lock().unwrap().push(v.unwrap());
                }
                *d2.lock().unwrap() = true;
            })
        }
        _ => {
            let fut = seq_try_join_all(nz, it);
            ex.spawn(async move {
                let r = fut.await;
                *o2.lock().unwrap() = r.unwrap();
                *d2.lock().unwrap() = true;
            })
        }
    };
    let mut settle = |ex: &mut MiniExec| -> Result<(), String> {
        let mut k = 0;
        while !ex.is_done(cid) && !ex.woken().is_empty() {
            ex.poll(cid);
            k += 1;
            if k > 4 * n + 16 {
                return Err(format!("livelock: more than {} polls of the consumer", 4 * n + 16));
            }
        }
        Ok(())
    };
    settle(&mut ex)?;
    {
        let s = sh.lock().unwrap();
        if s.created != w.min(n) {
            return Err(format!("window: consumer is pending with {} tasks taken from the source, window {w}, {n} tasks available", s.created));
        }
        if let Some(i) = (0..s.created).find(|i| !s.polled[*i]) {
            return Err(format!("task {i} is in flight but was not polled before Pending was returned (window {w})"));
        }
    }
    // complete the last task of the first window only: task 0 waits for exactly that one
    let first = dep0.unwrap_or(0);
    let wk = {
        let mut s = sh.lock().unwrap();
        s.fired[first] = true;
        s.wakers[first].take()
    };
    if let Some(wk) = wk {
        wk.wake();
    }
    settle(&mut ex)?;
    if variant == Variant::Join {
        let got = out.lock().unwrap().clone();
        let expect: Vec<usize> = if w == 2 { vec![0, 1] } else { vec![0] };
        if got != expect {
            return Err(format!("stuck: task 0 waits for task {first} (inside the window of {w}); after completing it the stream has yielded {got:?}, expected {expect:?}"));
        }
        let s = sh.lock().unwrap();
        let in_flight = s.created - got.len();
        if in_flight != w {
            return Err(format!("window: {in_flight} tasks in flight after the first result, window {w}"));
        }
    }
    let wks: Vec<Waker> = {
        let mut s = sh.lock().unwrap();
        for f in s.fired.iter_mut() {
            *f = true;
        }
        s.wakers.iter_mut().filter_map(Option::take).collect()
    };
    for wk in wks {
        wk.wake();
    }
    settle(&mut ex)?;
    if !*done.lock().unwrap() {
        return Err(format!("stuck: all {n} tasks completed but the consumer is pending and not woken (window {w})"));
    }
    let got = out.lock().unwrap().clone();
    if got.len() != n || got.iter().enumerate().any(|(i, v)| i != *v) {
        let bad = got.iter().enumerate().find(|(i, v)| i != *v);
        return Err(format!("outputs are not the inputs in order: {} results, first mismatch {bad:?} (window {w})", got.len()));
    }
    Ok(())
}

pub fn large_windows() -> Vec<usize> {
    let mut ws = vec![1, 2, 3, 1000, 10_000, 50_000, 100_000];
    for k in 5..=17 {
        ws.extend([(1usize << k) - 1, 1 << k, (1 << k) + 1]);
    }
    ws.sort_unstable();
    ws.dedup();
    ws
}

fn cfg_json(c: &Cfg15) -> serde_json::Value {
    json!({"n":c.n,"w":c.w,"variant":format!("{:?}", c.variant),"dep":c.dep.map(|(a,b)| vec![a,b]),"err":c.err,"bound":c.bound,"inexact":c.inexact})
}

fn cfg_from(v: &serde_json::Value) -> Cfg15 {
    Cfg15 {
        n: v["n"].as_u64().unwrap() as usize,
        w: v["w"].as_u64().unwrap() as usize,
        variant: match v["variant"].as_str().unwrap() {
            "Join" => Variant::Join,
            "TryJoin" => Variant::TryJoin,
            _ => Variant::Parallel,
        },
        dep: v["dep"].as_array().map(|a| (a[0].as_u64().unwrap() as usize, a[1].as_u64().unwrap() as usize)),
        err: v["err"].as_u64().map(|e| e as usize),
        bound: v["bound"].as_u64().unwrap_or(0) as u32,
        inexact: v["inexact"].as_bool().unwrap_or(false),
    }
}

#[test]
fn run() {
    let mut r = Report::new("C15");
    if let Some(rep) = common::replay_arg() {
        if rep["part"] == "large-window" {
            let variant = if rep["variant"] == "Join" { Variant::Join } else { Variant::TryJoin };
            r.add("states", 1);
            if let Err(e) = large_window(rep["w"].as_u64().unwrap() as usize, variant) {
                r.violation("seq-join:replay", &e, rep.clone());
            }
            r.finish();
            return;
        }
        let c = cfg_from(&rep["config"]);
        let trace: Vec<u32> = rep["choices"].as_array().unwrap().iter().map(|x| x.as_u64().unwrap() as u32).collect();
        let mut obs = Obs15::default();
        r.add("states", 1);
        r.add("transitions", trace.len() as u64);
        if let Err(e) = explore::replay(&trace, |cx| run_one(&c, cx, &mut obs)) {
            r.violation("seq-join:replay", &e, rep.clone());
        }
        r.finish();
        return;
    }
    let thorough = common::thorough();
    let (max_n, max_w) = if thorough { (9, 8) } else { (6, 8) };
    let dep_n = if thorough { 6 } else { 5 };
    let mut cfgs = Vec::new();
    for n in 0..=max_n {
        for w in 1..=max_w {
            let bound = if thorough { if n <= 4 { 4 } else if n <= 5 { 3 } else if n <= 6 { 2 } else if n <= 7 { 1 } else { 0 } } else if n <= 4 { 2 } else if n <= 5 { 1 } else { 0 };
            cfgs.push(Cfg15 { n, w, variant: Variant::Join, dep: None, err: None, bound, inexact: false });
            // every single dependency (a waits for the completion of b) inside the window
            for a in 0..n {
                for b in 0..n {
                    if a != b && a.abs_diff(b) < w && n <= dep_n {
                        cfgs.push(Cfg15 { n, w, variant: Variant::Join, dep: Some((a, b)), err: None, bound: bound.min(1), inexact: false });
                    }
                }
            }
            if n <= dep_n {
                for inexact in [false, true] {
                    for a in 0..n {
                        for b in 0..n {
                            if a != b && a.abs_diff(b) < w {
                                cfgs.push(Cfg15 { n, w, variant: Variant::TryJoin, dep: Some((a, b)), err: None, bound: 0, inexact });
                            }
                        }
                    }
                }
                cfgs.push(Cfg15 { n, w, variant: Variant::TryJoin, dep: None, err: None, bound: 0, inexact: true });
                cfgs.push(Cfg15 { n, w, variant: Variant::TryJoin, dep: None, err: None, bound: 0, inexact: false });
                for e in 0..n {
                    cfgs.push(Cfg15 { n, w, variant: Variant::TryJoin, dep: None, err: Some(e), bound: 0, inexact: false });
                    if e + 1 < n && w >= 2 {
                        // the failing task waits for its successor inside the window
                        cfgs.push(Cfg15 { n, w, variant: Variant::TryJoin, dep: Some((e, e + 1)), err: Some(e), bound: 0, inexact: false });
                    }
                }
            }
        }
        if n <= dep_n {
            cfgs.push(Cfg15 { n, w: 2, variant: Variant::Parallel, dep: None, err: None, bound: 0, inexact: false });
            for e in 0..n {
                cfgs.push(Cfg15 { n, w: 2, variant: Variant::Parallel, dep: None, err: Some(e), bound: 0, inexact: false });
            }
        }
    }
    r.flag("exhaustive", true);
    let cap = if thorough { 200_000_000 } else { 5_000_000 };
    let results = common::par_map(cfgs.len(), common::ncpu(), |i| {
        let mut obs = Obs15::default();
        let st = explore::explore(cfgs[i].bound, cap, |cx| run_one(&cfgs[i], cx, &mut obs));
        (st, obs)
    });
    for (i, (st, obs)) in results.into_iter().enumerate() {
        let c = &cfgs[i];
        r.add("states", st.executions);
        r.add("evaluations", st.executions);
        r.add("transitions", st.choice_points);
        r.add("window_checks", obs.window_checks);
        r.max("depth", st.max_depth as u64);
        r.max("distinct_completion_orders", obs.orders.len() as u64);
        r.max("in_flight", obs.max_in_flight as u64);
        r.inc("configs");
        if c.n == 4 && c.w == 2 && c.variant == Variant::Join && c.dep.is_none() {
            r.sample(json!({"config":cfg_json(c),"executions":st.executions,"distinct_completion_orders":obs.orders.len(),"longest_choice_sequence":st.longest}));
        }
        if let Some(m) = st.machinery {
            r.machinery(&format!("{c:?}: {m}"));
        }
        if let Some((trace, e)) = st.failure {
            let kind = if e.starts_with("stuck") { "stuck" } else if e.starts_with("window") { "window" } else if e.contains("panic") { "panic" } else { "order" };
            r.violation(&format!("seq-join:{kind}:{:?}:n{}-w{}", c.variant, c.n, c.w), &e, json!({"part":"seqjoin","config":cfg_json(c),"choices":trace}));
        } else if !st.complete {
            r.flag("exhaustive", false);
            r.note(format!("{c:?}: cap hit after {} executions", st.executions));
        }
    }
    // boundary windows (one execution each, see `large_window`)
    let lw: Vec<(usize, Variant)> = large_windows().into_iter().flat_map(|w| [(w, Variant::Join), (w, Variant::TryJoin)]).collect();
    let lres = common::par_map(lw.len(), common::ncpu(), |i| large_window(lw[i].0, lw[i].1));
    for (i, res) in lres.into_iter().enumerate() {
        let (w, variant) = lw[i];
        r.inc("large_window_runs");
        r.add("states", 1);
        r.max("largest_window", w as u64);
        if let Err(e) = res {
            let kind = if e.starts_with("stuck") { "stuck" } else if e.starts_with("window") { "window" } else { "order" };
            r.violation(&format!("seq-join:{kind}:{variant:?}:large-w{w}"), &e, json!({"part":"large-window","w":w,"variant":format!("{variant:?}")}));
        }
    }
    r.finish();
}
