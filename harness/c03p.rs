// C03 (cheating prover): the batch check must reject an inconsistent multiplication whatever the
// sender does in its prover role afterwards. Component level: the three helpers hold the
// intermediates of 256*b honest bit multiplications; helper P flips one bit of the product share it
// transmits (its left neighbour records the flipped value) and then runs the real proof generation
// (a) unchanged, (b) lying about the table index of that multiplication in every possible way (u or v
// index xor 1..7 - mask 4 on u is exactly the left verifier's view), (c) additionally doctoring the
// first proof so that it has the sum the verifiers insist on, (d) adding +-1 to any single entry of
// the first proof. In every case with a flipped bit an honest helper must reject; without any
// deviation all three accept. The validation flow is the sequence of calls of Batch::validate.
// (module path: crate::protocol::ipa_prf::verif::c03p; hook H7; config A)

use rand::{Rng, SeedableRng, rngs::StdRng};
use serde_json::json;

use super::super::{
    CompressedProofGenerator, FirstProofGenerator, ProverTableIndices, VerifierTableIndices,
    malicious_security::{
        FIRST_RECURSION_FACTOR as FRF,
        lagrange::{CanonicalLagrangeDenominator, LagrangeTable},
        prover::{ProverLagrangeInput, ProverValues},
    },
    validation_protocol::{proof_generation::ProofBatch, validation::BatchToVerify},
};
use crate::{
    error::Error,
    ff::{Field, Fp61BitPrime, U128Conversions},
    helpers::Role,
    protocol::{
        RecordId, RecordIdRange,
        context::{
            Context,
            dzkp_field::{DZKPBaseField, TABLE_U, TABLE_V},
            dzkp_validator::{Array256Bit, MAX_PROOF_RECURSION, MultiplicationInputsBlock},
        },
        prss::SharedRandomness,
    },
    secret_sharing::SharedValue,
    test_fixture::{Runner, TestWorld, TestWorldConfig},
    verif::common::{self, Report},
};

fn role_index(role: Role) -> usize {
    match role {
        Role::H1 => 0,
        Role::H2 => 1,
        Role::H3 => 2,
    }
}

/// helper i holds (x_i, x_{i+1}), (y_i, y_{i+1}), (s_i, s_{i+1}) and z_{i+1} received from its right,
/// z_i = x_i y_i ^ x_i y_{i+1} ^ x_{i+1} y_i ^ s_i ^ s_{i+1}
fn honest_blocks(role: Role, blocks: usize, seed: u64) -> Vec<MultiplicationInputsBlock> {
    let mut rng = StdRng::seed_from_u64(seed);
    let me = role_index(role);
    (0..blocks)
        .map(|_| {
            let mut arrays = || -> [Array256Bit; 3] { [rng.r#gen::<[u8; 32]>().into(), rng.r#gen::<[u8; 32]>().into(), rng.r#gen::<[u8; 32]>().into()] };
            let x = arrays();
            let y = arrays();
            let s = arrays();
            let z = |i: usize| {
                let (l, r) = (i % 3, (i + 1) % 3);
                (x[l] & y[l]) ^ (x[l] & y[r]) ^ (x[r] & y[l]) ^ s[l] ^ s[r]
            };
            let (l, r) = (me, (me + 1) % 3);
            MultiplicationInputsBlock { x_left: x[l], x_right: x[r], y_left: y[l], y_right: y[r], prss_left: s[l], prss_right: s[r], z_right: z(r) }
        })
        .collect()
}

#[derive(Clone, Copy, Debug, PartialEq, Eq)]
pub enum Doctor {
    None,
    /// entry 0 of the first proof adjusted so that its first FRF entries add up to the expected sum
    FixFirstSum,
    /// +1 / -1 on one entry of the first proof
    AddEntry(usize, bool),
}

/// ProofBatch::generate with one hook after the first proof has been computed
fn generate_with<C: Context>(
    ctx: &C,
    mut prss_record_ids: RecordIdRange,
    uv_inputs: impl ProverLagrangeInput<Fp61BitPrime, FRF> + Clone,
    doctor: Doctor,
    expected_sum: Fp61BitPrime,
) -> (ProofBatch, ProofBatch, Fp61BitPrime, Fp61BitPrime) {
    const FLL: usize = FirstProofGenerator::LAGRANGE_LENGTH;
    const CRF: usize = CompressedProofGenerator::RECURSION_FACTOR;
    const CLL: usize = CompressedProofGenerator::LAGRANGE_LENGTH;
    const CPL: usize = CompressedProofGenerator::PROOF_LENGTH;

    let first_denominator = CanonicalLagrangeDenominator::<Fp61BitPrime, FRF>::new();
    let first_lagrange_table = LagrangeTable::<Fp61BitPrime, FRF, FLL>::from(first_denominator);
    let mut first_proof = FirstProofGenerator::compute_proof(uv_inputs.clone().extrapolate_y_values(&first_lagrange_table));
    match doctor {
        Doctor::None => {}
        Doctor::FixFirstSum => {
            let actual = first_proof[..FRF].iter().fold(Fp61BitPrime::ZERO, |acc, x| acc + *x);
            first_proof[0] += expected_sum - actual;
        }
        Doctor::AddEntry(i, plus) => {
            let i = i % first_proof.len();
            if plus {
                first_proof[i] += Fp61BitPrime::ONE;
            } else {
                first_proof[i] -= Fp61BitPrime::ONE;
            }
        }
    }
    let (mut uv_values, first_proof_from_left, my_first_proof_left_share) = FirstProofGenerator::gen_artefacts_from_recursive_step(ctx, &mut prss_record_ids, first_proof, uv_inputs);
    let mut my_proofs_left_shares = Vec::<[Fp61BitPrime; CPL]>::with_capacity(MAX_PROOF_RECURSION - 1);
    let mut shares_of_proofs_from_prover_left = Vec::<[Fp61BitPrime; CPL]>::with_capacity(MAX_PROOF_RECURSION - 1);
    let (my_p_mask, p_mask_from_right_prover) = ctx.prss().generate_fields(prss_record_ids.expect_next());
    let (q_mask_from_left_prover, my_q_mask) = ctx.prss().generate_fields(prss_record_ids.expect_next());
    let denominator = CanonicalLagrangeDenominator::<Fp61BitPrime, CRF>::new();
    let lagrange_table = LagrangeTable::<Fp61BitPrime, CRF, CLL>::from(denominator);
    let mut did_set_masks = false;
    while !did_set_masks {
        if uv_values.len() < CRF {
            did_set_masks = true;
            uv_values.set_masks(my_p_mask, my_q_mask).unwrap();
        }
        let my_proof = CompressedProofGenerator::compute_proof_from_uv(uv_values.iter(), &lagrange_table);
        let (uv_values_new, share_of_proof_from_prover_left, my_proof_left_share) =
            CompressedProofGenerator::gen_artefacts_from_recursive_step(ctx, &mut prss_record_ids, my_proof, ProverValues(uv_values.iter().copied()));
        shares_of_proofs_from_prover_left.push(share_of_proof_from_prover_left);
        my_proofs_left_shares.push(my_proof_left_share);
        uv_values = uv_values_new;
    }
    (
        ProofBatch { first_proof: my_first_proof_left_share, proofs: my_proofs_left_shares },
        ProofBatch { first_proof: first_proof_from_left, proofs: shares_of_proofs_from_prover_left },
        p_mask_from_right_prover,
        q_mask_from_left_prover,
    )
}

/// what one helper does during Batch::validate
async fn validate<C: Context>(ctx: C, blocks: &[MultiplicationInputsBlock], prover_indices: Vec<(u8, u8)>, doctor: Doctor) -> Result<(), Error> {
    let m = blocks.len() * 256;
    let sum_of_uv = Fp61BitPrime::truncate_from(u128::try_from(m).unwrap()) * Fp61BitPrime::MINUS_ONE_HALF;
    let (my_batch_left_shares, shares_of_batch_from_left_prover, p_mask, q_mask) =
        generate_with(&ctx.narrow("generate_proof"), RecordIdRange::ALL, ProverTableIndices(prover_indices.into_iter()), doctor, sum_of_uv);
    let batch_to_verify = BatchToVerify::generate_batch_to_verify(ctx.narrow("generate_proof"), RecordId::FIRST, my_batch_left_shares, shares_of_batch_from_left_prover, p_mask, q_mask).await;
    let (challenges_for_left_prover, challenges_for_right_prover) = batch_to_verify.generate_challenges(ctx.narrow("challenge"), RecordId::FIRST).await;
    let (p_r_right_prover, q_r_left_prover) = batch_to_verify.compute_p_and_q_r(
        &challenges_for_left_prover,
        &challenges_for_right_prover,
        VerifierTableIndices { input: blocks.iter().flat_map(MultiplicationInputsBlock::table_indices_from_right_prover), table: &TABLE_U },
        VerifierTableIndices { input: blocks.iter().flat_map(MultiplicationInputsBlock::table_indices_from_left_prover), table: &TABLE_V },
    );
    batch_to_verify.verify(ctx.narrow("verify"), RecordId::FIRST, sum_of_uv, p_r_right_prover, q_r_left_prover, &challenges_for_left_prover, &challenges_for_right_prover).await
}

#[derive(Clone, Copy, Debug)]
pub struct Strategy {
    pub blocks: usize,
    pub cheater: usize,
    /// (block, bit) of the transmitted product-share bit the cheater flips
    pub flip: Option<(usize, usize)>,
    pub u_mask: u8,
    pub v_mask: u8,
    pub doctor: Doctor,
}

async fn run_validation(s: Strategy, seed: u64) -> [bool; 3] {
    let mut config = TestWorldConfig::default();
    config.seed = seed;
    // the fixture's own 10 s limit would turn a deep batch on a busy machine into a panic
    config.timeout = None;
    let world = TestWorld::new_with(&config);
    world
        .semi_honest((), |ctx, ()| async move {
            let me = role_index(ctx.role());
            let mut my_blocks = honest_blocks(ctx.role(), s.blocks, seed ^ 0xc03);
            let mut prover_indices = my_blocks.iter().flat_map(MultiplicationInputsBlock::table_indices_prover).collect::<Vec<_>>();
            let mut doctor = Doctor::None;
            let (block, bit) = s.flip.unwrap_or((0, 0));
            if s.flip.is_some() && me == (s.cheater + 2) % 3 {
                // the left neighbour of the cheater records the product share that arrived over the wire
                let v = my_blocks[block].z_right[bit];
                my_blocks[block].z_right.set(bit, !v);
            }
            if me == s.cheater {
                prover_indices[256 * block + bit].0 ^= s.u_mask;
                prover_indices[256 * block + bit].1 ^= s.v_mask;
                doctor = s.doctor;
            }
            validate(ctx, &my_blocks, prover_indices, doctor).await.is_ok()
        })
        .await
}

#[test]
fn run() {
    let mut r = Report::new("C03");
    let thorough = common::thorough();
    let rt = tokio::runtime::Builder::new_multi_thread().worker_threads(8).enable_time().build().unwrap();
    let seed = common::seed() + 303;
    let mut strategies: Vec<Strategy> = Vec::new();
    for blocks in if thorough { vec![1usize, 2, 3, 5, 9] } else { vec![1usize, 2, 5] } {
        // honest baseline
        strategies.push(Strategy { blocks, cheater: 1, flip: None, u_mask: 0, v_mask: 0, doctor: Doctor::None });
        let bits: Vec<usize> = if thorough { vec![0, 1, 2, 3, 63, 64, 77, 127, 128, 200, 254, 255] } else { vec![0, 77, 255] };
        for block in [0, blocks - 1] {
            for &bit in &bits {
                for cheater in 0..3usize {
                    if !thorough && cheater != 1 && bit != 77 {
                        continue;
                    }
                    let flip = Some((block, bit));
                    let mut doctors = vec![Doctor::None, Doctor::FixFirstSum];
                    for u_mask in 0..8u8 {
                        for d in &doctors {
                            strategies.push(Strategy { blocks, cheater, flip, u_mask, v_mask: 0, doctor: *d });
                        }
                    }
                    for v_mask in 1..8u8 {
                        for u_mask in [0u8, 4] {
                            strategies.push(Strategy { blocks, cheater, flip, u_mask, v_mask, doctor: Doctor::FixFirstSum });
                        }
                    }
                    // single-entry tampering of the first proof on top of the natural cover-up
                    doctors.clear();
                    let entries: Vec<usize> = if thorough { (0..FirstProofGenerator::PROOF_LENGTH).collect() } else { vec![0, 1, FRF - 1, FRF, FirstProofGenerator::PROOF_LENGTH - 1] };
                    if bit == 77 || thorough {
                        for e in entries {
                            for plus in [true, false] {
                                strategies.push(Strategy { blocks, cheater, flip, u_mask: 4, v_mask: 0, doctor: Doctor::AddEntry(e, plus) });
                            }
                        }
                    }
                }
            }
        }
    }
    // honest batches at every proof-recursion depth: the number of recursive proofs grows by one each
    // time the number of multiplications passes 3 * 4^k (k = 4..11 are 3, 12, 48, ... 49 152 blocks of 256);
    // a batch on either side of every threshold must be accepted by all three helpers
    let mut deep: Vec<usize> = Vec::new();
    let mut thr = 3usize;
    while thr <= 49_152 {
        deep.extend([thr, thr + 1]);
        thr *= 4;
    }
    for blocks in deep {
        strategies.push(Strategy { blocks, cheater: 1, flip: None, u_mask: 0, v_mask: 0, doctor: Doctor::None });
    }
    let results: Vec<Result<[bool; 3], String>> = rt.block_on(async {
        let mut out = Vec::new();
        for chunk in strategies.chunks(16) {
            out.extend(
                futures::future::join_all(chunk.iter().map(|s| {
                    let s = *s;
                    async move { futures::FutureExt::catch_unwind(std::panic::AssertUnwindSafe(run_validation(s, seed))).await.map_err(|p| format!("panic: {}", p.downcast_ref::<String>().cloned().or_else(|| p.downcast_ref::<&str>().map(|s| (*s).to_string())).unwrap_or_default())) }
                }))
                .await,
            );
        }
        out
    });
    for (s, res) in strategies.iter().zip(results) {
        r.inc("evaluations");
        let replay = json!({"part":"prover","strategy":{"blocks":s.blocks,"cheater":s.cheater,"flip":s.flip.map(|f| vec![f.0,f.1]),"u_mask":s.u_mask,"v_mask":s.v_mask,"doctor":format!("{:?}", s.doctor)}});
        match res {
            Err(e) if s.flip.is_none() => r.violation("dzkp:honest-component-batch-panicked", &format!("{} blocks of consistent multiplications: {e}", s.blocks), replay),
            Err(e) => r.violation("dzkp:prover-strategy:panic", &format!("{s:?}: {e}"), replay),
            Ok(acc) => {
                if s.flip.is_none() {
                    r.inc("honest_component_batches");
                    if acc != [true; 3] {
                        r.violation("dzkp:honest-component-batch-rejected", &format!("{} blocks of consistent multiplications: accepted = {acc:?}", s.blocks), replay);
                    }
                } else {
                    r.inc("distinct_nontrivial");
                    r.inc("cheating_prover_strategies");
                    let honest: Vec<usize> = (0..3).filter(|h| *h != s.cheater).collect();
                    if honest.iter().all(|h| acc[*h]) {
                        let kind = match s.doctor {
                            Doctor::None => "index-lie",
                            Doctor::FixFirstSum => "sum-fix",
                            Doctor::AddEntry(..) => "entry-tamper",
                        };
                        r.violation(
                            &format!("dzkp:inconsistent-batch-accepted:{kind}"),
                            &format!("helper {} flipped the transmitted product share of multiplication {:?} in a batch of {} blocks and proved with u-index^{} v-index^{} {:?}: both honest helpers accepted", s.cheater, s.flip.unwrap(), s.blocks, s.u_mask, s.v_mask, s.doctor),
                            replay,
                        );
                    } else {
                        r.inc("cheating_prover_rejected");
                        r.set("rejecting_verifier", format!("cheater{}:{}", s.cheater, honest.iter().filter(|h| !acc[**h]).map(|h| format!("H{}", h + 1)).collect::<Vec<_>>().join("+")));
                    }
                }
            }
        }
    }
    r.sample(json!({"strategy":"helper 2 flips z of multiplication (1,77) on the way to helper 1, proves on helper 1's view (u-index ^ 4) and fixes the first proof's sum","oracle":"an honest helper rejects"}));
    r.flag("exhaustive", true);
    r.finish();
}
