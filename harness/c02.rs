// C02 / E3: one tampering helper can abort a query but never change its result. Census of every
// helper-to-helper channel of a malicious-mode hybrid attribution x fault alphabet; each channel's
// sender is the corrupt helper. (module path: crate::verif::c02; config A)

use std::{collections::BTreeMap, sync::atomic::Ordering, time::Duration};

use serde_json::json;

use super::{
    c01::{self, Case1, Outputs, Rep},
    common::{self, Report},
    fault::{self, Census, Fault, FaultKind, Out},
};

fn cases(seed: u64, thorough: bool, rt: &tokio::runtime::Runtime) -> Vec<Case1> {
    let (i, c) = (false, true);
    let basic: Vec<Rep> = vec![
        Rep { conversion: i, mk: 101, data: 3 },
        Rep { conversion: c, mk: 101, data: 5 },
        Rep { conversion: c, mk: 102, data: 2 },
        Rep { conversion: i, mk: 102, data: 200 },
        Rep { conversion: i, mk: 103, data: 3 },
        Rep { conversion: c, mk: 103, data: 7 },
        Rep { conversion: c, mk: 104, data: 4 },
        Rep { conversion: i, mk: 105, data: 9 },
        Rep { conversion: c, mk: 106, data: 7 },
        Rep { conversion: c, mk: 106, data: 7 },
        Rep { conversion: i, mk: 107, data: 255 },
        Rep { conversion: i, mk: 107, data: 1 },
    ];
    let n = basic.len();
    let mut v = vec![Case1 { shards: 1, malicious: true, hv_bits: 8, padding: false, reports: basic.clone(), assign: vec![0; n], seed: seed + 21 }];
    if thorough {
        v.push(Case1 { shards: 1, malicious: true, hv_bits: 8, padding: true, reports: basic.clone(), assign: vec![0; n], seed: seed + 22 });
        // two shards: the world seed decides which shard every match key is routed to; a seed is chosen
        // (deterministically, the same in the parent and in the child processes) for which no shard runs
        // out of rows - otherwise the honest run ends in the known dry-shard hang of C01
        for k in 0..40u64 {
            let c = Case1 { shards: 2, malicious: true, hv_bits: 8, padding: false, reports: basic.clone(), assign: (0..n).map(|i| i % 2).collect(), seed: seed + 23 + 1000 * k };
            if !c01::some_shard_runs_dry(&c, rt) {
                v.push(c);
                break;
            }
        }
    }
    v
}

fn plan(rt: &tokio::runtime::Runtime, c: &Case1, thorough: bool) -> Option<(Census, Outputs, Vec<Fault>)> {
    let census = |c: &Case1| -> (Census, Outputs) {
        let (i, cen) = fault::census_interceptor();
        let out = rt.block_on(c01::hybrid_world(c, i, Duration::from_secs(120), Duration::from_secs(5)));
        let cc = cen.lock().unwrap().clone();
        (cc, out)
    };
    let (c1, o1) = census(c);
    let (c2, _) = census(c);
    if c1.channels != c2.channels {
        return None;
    }
    let mut faults = Vec::new();
    // quick tier: the channels are grouped into families (gate with every number replaced by '#',
    // per sender and receiver) and the first, middle and last channel of each family is taken;
    // thorough: every channel
    let mut families: BTreeMap<(String, usize, usize), Vec<&fault::ChannelId>> = BTreeMap::new();
    for id in c1.channels.keys() {
        let mut fam = String::new();
        let mut in_digits = false;
        for ch in id.gate.chars() {
            if ch.is_ascii_digit() {
                if !in_digits {
                    fam.push('#');
                }
                in_digits = true;
            } else {
                in_digits = false;
                fam.push(ch);
            }
        }
        families.entry((fam, id.source, id.dest)).or_default().push(id);
    }
    let mut selected: std::collections::BTreeSet<&fault::ChannelId> = std::collections::BTreeSet::new();
    for v in families.values() {
        if thorough {
            selected.extend(v.iter().copied());
        } else {
            selected.insert(v[0]);
            selected.insert(v[v.len() / 2]);
            selected.insert(v[v.len() - 1]);
        }
    }
    for (id, chunks) in &c1.channels {
        if !selected.contains(id) {
            continue;
        }
        let picks: Vec<usize> = if thorough { (0..chunks.len()).collect() } else { vec![0] };
        for ci in picks {
            let len = chunks[ci].0;
            if len == 0 {
                continue;
            }
            if thorough {
                let bytes: Vec<usize> = if len <= 64 { (0..len).collect() } else { vec![0, 1, len / 2, len - 1] };
                for b in bytes {
                    for m in [0x01u8, 0x80] {
                        faults.push(Fault { channel: id.clone(), chunk: ci, kind: FaultKind::Xor { byte: b, mask: m } });
                    }
                }
                faults.push(Fault { channel: id.clone(), chunk: ci, kind: FaultKind::Zero });
            } else {
                faults.push(Fault { channel: id.clone(), chunk: ci, kind: FaultKind::Xor { byte: 0, mask: 0x01 } });
                if len > 1 {
                    faults.push(Fault { channel: id.clone(), chunk: ci, kind: FaultKind::Xor { byte: len - 1, mask: 0x01 } });
                }
            }
        }
    }
    Some((c1, o1, faults))
}

/// the histogram determined by the two honest helpers' leader-shard shares, or why they are inconsistent
fn honest_histogram(out: &Outputs, corrupt: usize) -> Result<Vec<u128>, String> {
    let (j, k) = ((corrupt + 1) % 3, (corrupt + 2) % 3);
    let (Some(a), Some(b)) = (out[j][0].ok(), out[k][0].ok()) else { return Err("not ok".into()) };
    if a.len() != b.len() {
        return Err(format!("output lengths {} and {}", a.len(), b.len()));
    }
    let mut h = Vec::new();
    for (x, y) in a.iter().zip(b) {
        if x.1 != y.0 {
            return Err("the honest helpers' overlapping share copies differ".into());
        }
        h.push(x.0 ^ x.1 ^ y.1);
    }
    Ok(h)
}

fn judge(c: &Case1, f: &Fault, out: &Outputs, changed: u64, want: &[u128]) -> serde_json::Value {
    if changed == 0 {
        return json!({"class":"no-op"});
    }
    let corrupt = f.channel.source;
    let hs = [(corrupt + 1) % 3, (corrupt + 2) % 3];
    if hs.iter().any(|h| (0..c.shards).any(|s| !matches!(out[*h][s], Out::Ok(_)))) {
        let timeout_only = hs.iter().all(|h| (0..c.shards).all(|s| matches!(out[*h][s], Out::Ok(_) | Out::Timeout)));
        return json!({"class": if timeout_only { "never-produces-output" } else { "rejected" }});
    }
    match honest_histogram(out, corrupt) {
        Ok(h) if h == want => json!({"class":"harmless"}),
        Ok(h) => {
            let nz = |v: &[u128]| v.iter().copied().enumerate().filter(|x| x.1 != 0).collect::<Vec<_>>();
            json!({"class":"VIOLATION:accepted-different-histogram","what":format!(
                "helper {corrupt} altered its message on {} (chunk {}, {:?}); both honest helpers finished and their shares determine {:?} instead of {:?}",
                f.channel.gate, f.chunk, f.kind, nz(&h), nz(want))})
        }
        Err(e) => json!({"class":"VIOLATION:accepted-inconsistent-shares","what":format!(
            "helper {corrupt} altered its message on {} ({:?}); both honest helpers finished but {e}", f.channel.gate, f.kind)}),
    }
}

fn child_main(rt: &tokio::runtime::Runtime, seed: u64, thorough: bool) {
    for (ci, c) in cases(seed, thorough, &rt).iter().enumerate() {
        let Some((lo, hi)) = fault::child_range(&format!("query{ci}")) else { return };
        if lo == hi {
            continue;
        }
        let Some((_, _, faults)) = plan(rt, c, thorough) else { return };
        let want = c01::reference(&c.reports, c.hv_bits);
        let idxs: Vec<usize> = (lo..hi.min(faults.len())).collect();
        rt.block_on(async {
            for chunk in idxs.chunks(8) {
                futures::future::join_all(chunk.iter().map(|i| {
                    let f = faults[*i].clone();
                    let want = &want;
                    async move {
                        let (icp, changed) = fault::fault_interceptor(f.clone());
                        let o = c01::hybrid_world(c, icp, Duration::from_secs(30), Duration::from_millis(1500)).await;
                        fault::child_emit(*i, &judge(c, &f, &o, changed.load(Ordering::SeqCst), want));
                    }
                }))
                .await;
            }
        });
    }
}

#[test]
fn run() {
    let thorough = common::thorough();
    let rt = fault::runtime(4);
    let seed = common::seed();
    if fault::is_child() {
        child_main(&rt, seed, thorough);
        return;
    }
    let mut r = Report::new("C02");
    for (ci, c) in cases(seed, thorough, &rt).iter().enumerate() {
        let Some((census, honest, faults)) = plan(&rt, c, thorough) else {
            r.machinery(&format!("case {ci}: census not reproducible"));
            continue;
        };
        r.inc("evaluations");
        if let Err(e) = c01::check_outputs(c, &honest) {
            r.violation("query:honest-run-wrong", &e, json!({"part":"tamper","case":c01::case_json(c)}));
            continue;
        }
        r.add("channels_in_census", census.channels.len() as u64);
        r.add("channels_tampered", faults.iter().map(|f| &f.channel).collect::<std::collections::BTreeSet<_>>().len() as u64);
        for id in census.channels.keys() {
            let g: Vec<&str> = id.gate.split('/').collect();
            r.set("protocol_steps", g.get(2).copied().unwrap_or("").to_string());
        }
        let res = fault::run_isolated("verif::c02::run", &format!("query{ci}"), faults.len(), 16, Duration::from_secs(if thorough { 90 } else { 45 }), Duration::from_secs(if thorough { 40 } else { 15 }), common::ncpu().min(12));
        let mut hist: BTreeMap<String, u64> = BTreeMap::new();
        for (f, v) in faults.iter().zip(res) {
            r.inc("evaluations");
            let class = v.as_ref().map_or("never-produces-output-killed".to_string(), |v| v["class"].as_str().unwrap_or("?").to_string());
            if class != "no-op" {
                r.inc("distinct_nontrivial");
            }
            if std::env::var("VERIF_VERBOSE").is_ok() {
                eprintln!("FAULT {} {}->{} chunk {} {:?}: {class}", f.channel.gate, f.channel.source, f.channel.dest, f.chunk, f.kind);
            }
            if let Some(kind) = class.strip_prefix("VIOLATION:") {
                let g: Vec<&str> = f.channel.gate.split('/').skip(2).take(3).collect();
                r.violation(&format!("query:{kind}:{}", g.join("/")), v.as_ref().and_then(|v| v["what"].as_str()).unwrap_or(""), json!({"part":"tamper","case":c01::case_json(c),"fault":f.to_json()}));
            } else {
                *hist.entry(class).or_default() += 1;
            }
        }
        for (k, v) in hist {
            r.add(&format!("tamper_{k}"), v);
        }
        if let Some(f) = faults.first() {
            r.sample(json!({"case":c01::case_json(c),"faults":faults.len(),"first_fault":f.to_json()}));
        }
    }
    r.flag("exhaustive", true);
    r.finish();
}
