// C07 (remaining building blocks): multiplication over every pair of a small field (semi-honest and
// MAC-validated), Boolean multiplication / OR / multiplexer under both DZKP modes, bit-wise AND/OR of
// bit-decomposed values, bucket aggregation with saturation, bit-to-field share conversion and the
// pseudonym function on boundary inputs - each against the plain function of the reconstructed
// inputs, with the replicated-sharing consistency of every output checked explicitly.
// (module path: crate::verif::c07b; config A)

use futures::{StreamExt, future::try_join_all, stream};
use serde_json::json;

use super::{
    common::{self, Report},
    fault,
};
use crate::{
    error::Error,
    ff::{
        Field, Fp31, Fp32BitPrime, U128Conversions,
        boolean::Boolean,
        boolean_array::{BA3, BA5, BA8, BA20, BA64},
        curve_points::RP25519,
        ec_prime_field::Fp25519,
    },
    protocol::{
        RecordId,
        basics::{SecureMul, select},
        boolean::{
            and::bool_and_8_bit,
            or::{bool_or, or},
            step::EightBitStep,
        },
        context::{Context, UpgradableContext, Validator},
        ipa_prf::{aggregation::aggregate_values, prf_eval::eval_dy_prf},
    },
    secret_sharing::{
        BitDecomposed, SharedValue,
        replicated::{ReplicatedSecretSharing, semi_honest::AdditiveShare},
    },
    test_fixture::{Runner, TestWorld, TestWorldConfig},
};

fn world(seed: u64) -> TestWorld {
    let mut config = TestWorldConfig::default();
    config.seed = seed;
    TestWorld::new_with(&config)
}

/// reconstructs one value from three shares, checking that neighbouring helpers hold the same copies
fn rec<V: SharedValue + U128Conversions>(s: [&AdditiveShare<V>; 3]) -> Result<u128, String> {
    for h in 0..3 {
        if s[h].right() != s[(h + 1) % 3].left() {
            return Err(format!("helpers {h} and {} hold different copies of their common share", (h + 1) % 3));
        }
    }
    Ok((s[0].left() + s[1].left() + s[2].left()).as_u128())
}

struct Arm<'a> {
    r: &'a mut Report,
    name: &'static str,
    cases: u64,
    bad: u64,
    first: Option<String>,
}

impl<'a> Arm<'a> {
    fn new(r: &'a mut Report, name: &'static str) -> Self {
        Self { r, name, cases: 0, bad: 0, first: None }
    }
    fn case(&mut self, what: impl FnOnce() -> String, got: Result<u128, String>, want: u128) {
        self.cases += 1;
        match got {
            Ok(g) if g == want => {}
            Ok(g) => {
                self.bad += 1;
                if self.first.is_none() {
                    self.first = Some(format!("{}: reconstructs to {g}, the function value is {want}", what()));
                }
            }
            Err(e) => {
                self.bad += 1;
                if self.first.is_none() {
                    self.first = Some(format!("{}: {e}", what()));
                }
            }
        }
    }
    fn fail(&mut self, what: String) {
        self.cases += 1;
        self.bad += 1;
        self.first.get_or_insert(what);
    }
    fn done(self) {
        self.r.add("evaluations", self.cases);
        self.r.add("distinct_nontrivial", self.cases);
        self.r.add(&format!("cases_{}", self.name), self.cases);
        self.r.set("blocks", self.name.to_string());
        if let Some(f) = self.first {
            self.r.violation(&format!("block:{}", self.name), &format!("{f} ({} failing cases)", self.bad), json!({"part":"blocks","block":self.name}));
        }
    }
}


/// MAC-validated multiplication: upgrade, multiply, validate the record, open
macro_rules! mac_mul {
    ($name:ident, $F:ty) => {
        async fn $name(pairs: &[($F, $F)], seed: u64) -> [Result<Vec<u128>, Error>; 3] {
            use crate::protocol::{basics::reveal, context::{UpgradedContext, upgrade::Upgradable}};
            let w = world(seed);
            let n = pairs.len();
            w.malicious(pairs.to_vec().into_iter(), |ctx, shares: Vec<(AdditiveShare<$F>, AdditiveShare<$F>)>| async move {
                let v = ctx.set_total_records(n).validator::<$F>();
                let m_ctx = v.context();
                try_join_all(shares.into_iter().enumerate().map(|(i, (a, b))| {
                    let m_ctx = m_ctx.clone();
                    async move {
                        let rid = RecordId::from(i);
                        let (am, bm) = (a, b).upgrade(m_ctx.clone(), rid).await?;
                        let prod = am.multiply(&bm, m_ctx.clone(), rid).await?;
                        m_ctx.validate_record(rid).await?;
                        let opened = reveal(m_ctx.narrow("verif-open"), rid, &prod).await?;
                        Ok::<_, Error>(<$F>::from_array(&opened).as_u128())
                    }
                }))
                .await
            })
            .await
        }
    };
}
mac_mul!(mac_mul_fp31, Fp31);
mac_mul!(mac_mul_fp32, Fp32BitPrime);

fn mac_arm<F: U128Conversions + std::fmt::Debug>(r: &mut Report, name: &'static str, pairs: &[(F, F)], out: [Result<Vec<u128>, Error>; 3], p: u128) {
    let mut arm = Arm::new(r, name);
    match out {
        [Ok(a), Ok(b), Ok(c)] => {
            for (i, (x, y)) in pairs.iter().enumerate() {
                let got = if a[i] == b[i] && b[i] == c[i] { Ok(a[i]) } else { Err(format!("helpers opened different values {} {} {}", a[i], b[i], c[i])) };
                arm.case(|| format!("{x:?} * {y:?} (MAC-validated)"), got, (x.as_u128() * y.as_u128()) % p);
            }
        }
        o => arm.fail(format!("MAC-validated multiplication failed: {:?}", o.iter().map(|x| x.as_ref().err().map(|e| format!("{e:?}"))).collect::<Vec<_>>())),
    }
    arm.done();
}

async fn mul_fp31(r: &mut Report, seed: u64) {
    let pairs: Vec<(Fp31, Fp31)> = (0..31u128).flat_map(|a| (0..31u128).map(move |b| (Fp31::truncate_from(a), Fp31::truncate_from(b)))).collect();
    // semi-honest
    let w = world(seed);
    let n = pairs.len();
    let out = w
        .semi_honest(pairs.clone().into_iter(), |ctx, shares: Vec<(AdditiveShare<Fp31>, AdditiveShare<Fp31>)>| async move {
            let ctx = ctx.set_total_records(n);
            try_join_all(shares.iter().enumerate().map(|(i, (a, b))| a.multiply(b, ctx.clone(), RecordId::from(i)))).await
        })
        .await;
    let mut arm = Arm::new(r, "multiply-fp31-semi-honest");
    match out {
        [Ok(a), Ok(b), Ok(c)] => {
            for (i, (x, y)) in pairs.iter().enumerate() {
                arm.case(|| format!("{x:?} * {y:?}"), rec([&a[i], &b[i], &c[i]]), (x.as_u128() * y.as_u128()) % 31);
            }
        }
        o => arm.fail(format!("multiplication failed: {:?}", o.iter().map(|x| x.as_ref().err().map(|e| format!("{e:?}"))).collect::<Vec<_>>())),
    }
    arm.done();
    // MAC-validated
    let out = mac_mul_fp31(&pairs, seed + 1).await;
    mac_arm(r, "multiply-fp31-mac", &pairs, out, 31);
}

async fn mul_fp32(r: &mut Report, seed: u64) {
    let p = u128::from(<Fp32BitPrime as crate::ff::PrimeField>::PRIME);
    let al = [0u128, 1, 2, p - 1, p - 2, p / 2, p / 2 + 1, 1 << 16, (1 << 16) + 1, (1 << 31) - 1, 1 << 31, 0xdead_beef % p, 65_537, 4_294_967_290 % p];
    let pairs: Vec<(Fp32BitPrime, Fp32BitPrime)> = al.iter().flat_map(|a| al.iter().map(move |b| (Fp32BitPrime::truncate_from(*a), Fp32BitPrime::truncate_from(*b)))).collect();
    let n = pairs.len();
    let w = world(seed);
    let out = w
        .semi_honest(pairs.clone().into_iter(), |ctx, shares: Vec<(AdditiveShare<Fp32BitPrime>, AdditiveShare<Fp32BitPrime>)>| async move {
            let ctx = ctx.set_total_records(n);
            try_join_all(shares.iter().enumerate().map(|(i, (a, b))| a.multiply(b, ctx.clone(), RecordId::from(i)))).await
        })
        .await;
    let mut arm = Arm::new(r, "multiply-fp32-semi-honest");
    match out {
        [Ok(a), Ok(b), Ok(c)] => {
            for (i, (x, y)) in pairs.iter().enumerate() {
                arm.case(|| format!("{x:?} * {y:?}"), rec([&a[i], &b[i], &c[i]]), (x.as_u128() * y.as_u128()) % p);
            }
        }
        _ => arm.fail("multiplication failed".into()),
    }
    arm.done();
    let out = mac_mul_fp32(&pairs, seed + 1).await;
    mac_arm(r, "multiply-fp32-mac", &pairs, out, p);
}

type BS = AdditiveShare<Boolean>;

/// Boolean multiplication, OR and the multiplexer on BA3 (all inputs) / BA8, BA20 (boundary), both DZKP modes
async fn boolean_blocks(r: &mut Report, seed: u64, malicious: bool) {
    let mode = if malicious { "dzkp-malicious" } else { "dzkp-semi-honest" };
    // --- mul / or on single bits -----------------------------------------------------------------
    let bits: Vec<(Boolean, Boolean)> = (0..4u8).map(|v| (Boolean::from(v & 1 == 1), Boolean::from(v & 2 == 2))).collect();
    // the fixture's dzkp_* runners fix the batch size at 8 multiplications per gate and validate a single
    // batch; here the batch is sized to the input
    macro_rules! run_dzkp {
        ($w:expr, $input:expr, |$ctx:ident, $sh:ident : $t:ty| $body:expr) => {{
            use crate::protocol::context::{TEST_DZKP_STEPS, dzkp_validator::DZKPValidator};
            let input = $input;
            let cap = input.len().next_power_of_two().max(8);
            if malicious {
                $w.malicious(input, |ctx, $sh: $t| async move {
                    let v = ctx.dzkp_validator(TEST_DZKP_STEPS, cap);
                    let $ctx = v.context();
                    let res = $body.await;
                    v.validate().await?;
                    res
                })
                .await
            } else {
                $w.semi_honest(input, |ctx, $sh: $t| async move {
                    let v = ctx.dzkp_validator(TEST_DZKP_STEPS, cap);
                    let $ctx = v.context();
                    let res = $body.await;
                    v.validate().await?;
                    res
                })
                .await
            }
        }};
    }
    let w = world(seed);
    let out: [Result<Vec<(BS, BS)>, Error>; 3] = run_dzkp!(w, bits.clone().into_iter(), |ctx, shares: Vec<(BS, BS)>| async {
        let ctx = ctx.set_total_records(4);
        try_join_all(shares.iter().enumerate().map(|(i, (a, b))| {
            let ctx = ctx.clone();
            async move {
                let m = a.multiply(b, ctx.narrow("mul"), RecordId::from(i)).await?;
                let o = or(ctx.narrow("or"), RecordId::from(i), a, b).await?;
                Ok::<_, Error>((m, o))
            }
        }))
        .await
    });
    let mut arm = Arm::new(r, if malicious { "boolean-mul-or-malicious" } else { "boolean-mul-or-semi-honest" });
    match out {
        [Ok(a), Ok(b), Ok(c)] => {
            for (i, (x, y)) in bits.iter().enumerate() {
                let (x, y) = (x.as_u128(), y.as_u128());
                arm.case(|| format!("{x} AND {y} ({mode})"), rec([&a[i].0, &b[i].0, &c[i].0]), x & y);
                arm.case(|| format!("{x} OR {y} ({mode})"), rec([&a[i].1, &b[i].1, &c[i].1]), x | y);
            }
        }
        _ => arm.fail(format!("Boolean multiplication failed ({mode})")),
    }
    arm.done();
    // --- select -----------------------------------------------------------------------------------
    macro_rules! select_arm {
        ($ty:ty, $name:expr, $vals:expr) => {{
            let vals: Vec<u128> = $vals;
            let mut cases: Vec<(Boolean, ($ty, $ty))> = Vec::new();
            for c in [false, true] {
                for a in &vals {
                    for b in &vals {
                        cases.push((Boolean::from(c), (<$ty>::truncate_from(*a), <$ty>::truncate_from(*b))));
                    }
                }
            }
            let n = cases.len();
            let w = world(seed + 7);
            let out: [Result<Vec<AdditiveShare<$ty>>, Error>; 3] = run_dzkp!(w, cases.clone().into_iter(), |ctx, shares: Vec<(BS, (AdditiveShare<$ty>, AdditiveShare<$ty>))>| async {
                let ctx = ctx.set_total_records(n);
                try_join_all(shares.iter().enumerate().map(|(i, (c, (a, b)))| select(ctx.clone(), RecordId::from(i), c, a, b))).await
            });
            let mut arm = Arm::new(r, $name);
            match out {
                [Ok(a), Ok(b), Ok(c)] => {
                    for (i, (cond, (x, y))) in cases.iter().enumerate() {
                        let want = if cond.as_u128() == 1 { x.as_u128() } else { y.as_u128() };
                        arm.case(|| format!("select({cond:?}, {x:?}, {y:?}) ({mode})"), rec([&a[i], &b[i], &c[i]]), want);
                    }
                }
                _ => arm.fail(format!("select failed ({mode})")),
            }
            arm.done();
        }};
    }
    select_arm!(BA3, if malicious { "select-BA3-malicious" } else { "select-BA3-semi-honest" }, (0..8).collect());
    select_arm!(BA5, if malicious { "select-BA5-malicious" } else { "select-BA5-semi-honest" }, vec![0, 1, 15, 16, 21, 31]);
    select_arm!(BA8, if malicious { "select-BA8-malicious" } else { "select-BA8-semi-honest" }, vec![0, 1, 127, 128, 0xaa, 255]);
    select_arm!(BA20, if malicious { "select-BA20-malicious" } else { "select-BA20-semi-honest" }, vec![0, 1, 0x7ffff, 0x80000, 0xaaaaa, 0xfffff]);
    select_arm!(BA64, if malicious { "select-BA64-malicious" } else { "select-BA64-semi-honest" }, vec![0, 1, u128::from(u64::MAX), 1 << 63, 0xaaaa_aaaa_5555_5555]);
    // --- bit-decomposed AND / OR (3-bit operands, all pairs) --------------------------------------------------
    let pairs: Vec<(u128, u128)> = (0..8).flat_map(|a| (0..8).map(move |b| (a, b))).collect();
    let inputs: Vec<(BitDecomposed<Boolean>, BitDecomposed<Boolean>)> =
        pairs.iter().map(|(a, b)| (BitDecomposed::decompose(3, |i| Boolean::from((a >> i) & 1 == 1)), BitDecomposed::decompose(3, |i| Boolean::from((b >> i) & 1 == 1)))).collect();
    let n = pairs.len();
    let w = world(seed + 9);
    type BD = BitDecomposed<BS>;
    let out: [Result<Vec<(BD, BD)>, Error>; 3] = run_dzkp!(w, inputs.into_iter(), |ctx, shares: Vec<(BD, BD)>| async {
        let ctx = ctx.set_total_records(n);
        try_join_all(shares.iter().enumerate().map(|(i, (a, b))| {
            let ctx = ctx.clone();
            async move {
                let x = bool_and_8_bit(ctx.narrow("and"), RecordId::from(i), a, b.iter()).await?;
                let y = bool_or::<_, EightBitStep, _, 1>(ctx.narrow("or"), RecordId::from(i), a, b.iter()).await?;
                Ok::<_, Error>((x, y))
            }
        }))
        .await
    });
    let mut arm = Arm::new(r, if malicious { "bitwise-and-or-malicious" } else { "bitwise-and-or-semi-honest" });
    match out {
        [Ok(a), Ok(b), Ok(c)] => {
            let val = |v: [&BD; 3]| -> Result<u128, String> {
                let mut acc = 0u128;
                for bit in 0..v[0].len() {
                    acc |= rec([&v[0][bit], &v[1][bit], &v[2][bit]])? << bit;
                }
                Ok(acc)
            };
            for (i, (x, y)) in pairs.iter().enumerate() {
                arm.case(|| format!("{x} & {y} ({mode})"), val([&a[i].0, &b[i].0, &c[i].0]), x & y);
                arm.case(|| format!("{x} | {y} ({mode})"), val([&a[i].1, &b[i].1, &c[i].1]), x | y);
            }
        }
        _ => arm.fail(format!("bit-wise and/or failed ({mode})")),
    }
    arm.done();
}

/// bucket aggregation: 16 lanes = 16 independent cases per run; every multiset of <= 3 two-bit rows,
/// plus longer columns, summed into 3-bit and 8-bit outputs (saturating)
async fn aggregation(r: &mut Report, seed: u64, malicious: bool, thorough: bool) {
    let mode = if malicious { "malicious" } else { "semi-honest" };
    // columns: every sequence of `rows` values below 2^tv_bits, 8 columns per run
    let mut plans: Vec<(usize, usize)> = vec![(1, 2), (2, 2), (3, 2), (2, 3), (5, 1)];
    if thorough {
        plans.extend([(4, 2), (3, 3), (7, 1), (6, 2)]);
    }
    let mut arm3 = (0u64, 0u64, None::<String>);
    for (rows, tv_bits) in plans {
        let base = 1u128 << tv_bits;
        let total: u128 = base.pow(rows as u32);
        let total = total.min(if thorough { 4096 } else { 512 });
        let cols: Vec<Vec<u32>> = (0..total).map(|mut c| (0..rows).map(|_| { let v = (c % base) as u32; c /= base; v }).collect()).collect();
        for chunk in cols.chunks(16) {
            let mut lanes: Vec<Vec<u32>> = chunk.to_vec();
            while lanes.len() < 16 {
                lanes.push(vec![0; rows]);
            }
            macro_rules! agg {
                ($ov:ty, $bits:expr) => {{
                    let inputs: Vec<Result<BitDecomposed<[Boolean; 16]>, Error>> = (0..rows)
                        .map(|row| Ok(BitDecomposed::decompose(tv_bits, |i| std::array::from_fn(|l| Boolean::from((lanes[l][row] >> i) & 1 == 1)))))
                        .collect();
                    let w = world(seed + rows as u64);
                    let out: [Result<BitDecomposed<AdditiveShare<Boolean, 16>>, Error>; 3] = if malicious {
                        w.dzkp_malicious(inputs.into_iter(), |ctx, inputs: Vec<Result<BitDecomposed<AdditiveShare<Boolean, 16>>, Error>>| async move {
                            let num_rows = inputs.len();
                            aggregate_values::<_, $ov, 16>(ctx, stream::iter(inputs).boxed(), num_rows, None).await
                        })
                        .await
                    } else {
                        w.dzkp_semi_honest(inputs.into_iter(), |ctx, inputs: Vec<Result<BitDecomposed<AdditiveShare<Boolean, 16>>, Error>>| async move {
                            let num_rows = inputs.len();
                            aggregate_values::<_, $ov, 16>(ctx, stream::iter(inputs).boxed(), num_rows, None).await
                        })
                        .await
                    };
                    match out {
                        [Ok(a), Ok(b), Ok(c)] => {
                            for l in 0..chunk.len() {
                                arm3.0 += 1;
                                let mut got = 0u128;
                                let mut err = None;
                                for bit in 0..a.len() {
                                    let la: [Boolean; 16] = (a[bit].left_arr().clone()).into_iter().collect::<Vec<_>>().try_into().unwrap();
                                    let lb: [Boolean; 16] = (b[bit].left_arr().clone()).into_iter().collect::<Vec<_>>().try_into().unwrap();
                                    let lc: [Boolean; 16] = (c[bit].left_arr().clone()).into_iter().collect::<Vec<_>>().try_into().unwrap();
                                    let ra: [Boolean; 16] = (a[bit].right_arr().clone()).into_iter().collect::<Vec<_>>().try_into().unwrap();
                                    if ra[l] != lb[l] {
                                        err = Some("helpers 0 and 1 hold different copies of their common share".to_string());
                                    }
                                    got |= (la[l] + lb[l] + lc[l]).as_u128() << bit;
                                }
                                let sum: u128 = lanes[l].iter().map(|v| u128::from(*v)).sum();
                                let want = sum.min((1u128 << $bits) - 1);
                                if err.is_some() || got != want {
                                    arm3.1 += 1;
                                    arm3.2.get_or_insert(format!("aggregating the column {:?} of {tv_bits}-bit values into a {}-bit bucket gives {got}, expected {want} ({mode}) {}", lanes[l], $bits, err.unwrap_or_default()));
                                }
                            }
                        }
                        _ => {
                            arm3.0 += 1;
                            arm3.1 += 1;
                            arm3.2.get_or_insert(format!("aggregate_values failed on {rows} rows of {tv_bits}-bit values ({mode})"));
                        }
                    }
                }};
            }
            agg!(BA3, 3);
            agg!(BA8, 8);
        }
    }
    let mut arm = Arm::new(r, if malicious { "aggregation-malicious" } else { "aggregation-semi-honest" });
    arm.cases = arm3.0;
    arm.bad = arm3.1;
    arm.first = arm3.2;
    arm.done();
}

/// the pseudonym function on boundary match keys: equals 1/(k+x)*G computed in the clear, identical
/// on the three helpers, equal inputs give equal pseudonyms and distinct inputs distinct ones
async fn pseudonym(r: &mut Report, seed: u64, malicious: bool) {
    let k = Fp25519::from(3_216_412_445u64 + seed);
    let xs: Vec<u64> = vec![0, 1, 2, 3, 3, u64::MAX, u64::MAX - 1, 1 << 63, (1 << 63) - 1, 56, 56, 0xdead_beef_cafe_f00d];
    let inputs: Vec<Fp25519> = xs.iter().map(|x| Fp25519::from(*x)).collect();
    let w = world(seed);
    let n = inputs.len();
    macro_rules! body {
        () => {
            |ctx, (mks, key): (Vec<AdditiveShare<Fp25519>>, AdditiveShare<Fp25519>)| async move {
                let ctx = ctx.set_total_records(n);
                let validator = ctx.validator::<Fp25519>();
                let ctx = validator.context();
                let v: Result<Vec<[u64; 1]>, Error> = try_join_all(mks.into_iter().enumerate().map(|(i, x)| eval_dy_prf(ctx.clone(), RecordId::from(i), &key, x))).await;
                v.map(|v| v.into_iter().flatten().collect::<Vec<u64>>())
            }
        };
    }
    let out: [Result<Vec<u64>, Error>; 3] = if malicious { w.malicious((inputs.clone().into_iter(), k), body!()).await } else { w.semi_honest((inputs.clone().into_iter(), k), body!()).await };
    let mut arm = Arm::new(r, if malicious { "pseudonym-malicious" } else { "pseudonym-semi-honest" });
    match out {
        [Ok(a), Ok(b), Ok(c)] => {
            for (i, x) in inputs.iter().enumerate() {
                let want: u64 = RP25519::from((*x + k).invert()).into();
                let got = if a[i] == b[i] && b[i] == c[i] { Ok(u128::from(a[i])) } else { Err(format!("the helpers hold different pseudonyms {} {} {}", a[i], b[i], c[i])) };
                arm.case(|| format!("pseudonym of match key {}", xs[i]), got, u128::from(want));
                for j in 0..i {
                    arm.cases += 1;
                    if (xs[i] == xs[j]) != (a[i] == a[j]) {
                        arm.bad += 1;
                        arm.first.get_or_insert(format!("match keys {} and {} map to pseudonyms {} and {}", xs[i], xs[j], a[i], a[j]));
                    }
                }
            }
        }
        o => arm.fail(format!("eval_dy_prf failed: {:?}", o.iter().map(|x| x.as_ref().err().map(|e| format!("{e:?}"))).collect::<Vec<_>>())),
    }
    arm.done();
}


/// bit-to-field share conversion: 257 match keys (boundary values first, then a fixed pseudo-random
/// tail) -> Fp25519 sharings whose reconstructed value is the integer value of the match key
async fn conversion(r: &mut Report, seed: u64, malicious: bool) {
    use futures::stream::TryStreamExt;

    use crate::{
        helpers::stream::process_slice_by_chunks,
        protocol::{
            context::{TEST_DZKP_STEPS, dzkp_validator::DZKPValidator},
            ipa_prf::{CONV_CHUNK, PRF_CHUNK, boolean_ops::convert_to_fp25519},
        },
        secret_sharing::TransposeFrom,
        seq_join::{SeqJoin, seq_join},
    };
    const COUNT: usize = CONV_CHUNK + 1;
    let mut keys: Vec<u64> = vec![0, 1, 2, 3, u64::MAX, u64::MAX - 1, 1 << 63, (1 << 63) - 1, (1 << 63) + 1, 1 << 32, (1 << 32) - 1, 0xaaaa_aaaa_aaaa_aaaa, 0x5555_5555_5555_5555];
    for k in 0..64 {
        keys.push(1 << k);
        keys.push((1u64 << k).wrapping_sub(1));
    }
    let mut rng = common::SplitMix(seed);
    while keys.len() < COUNT {
        keys.push(rng.next());
    }
    keys.truncate(COUNT);
    let records: Vec<BA64> = keys.iter().map(|k| BA64::truncate_from(u128::from(*k))).collect();
    let w = world(seed);
    macro_rules! body {
        ($proof_chunk:expr) => {
            |ctx, records: Vec<AdditiveShare<BA64>>| async move {
                let c_ctx = ctx.set_total_records(COUNT.div_ceil(CONV_CHUNK));
                let validator = c_ctx.dzkp_validator(TEST_DZKP_STEPS, $proof_chunk);
                let m_ctx = validator.context();
                let res: Result<Vec<_>, Error> = seq_join(
                    m_ctx.active_work(),
                    process_slice_by_chunks(&records, |idx, chunk| {
                        let match_keys = BitDecomposed::transposed_from(&*chunk).unwrap();
                        convert_to_fp25519::<_, CONV_CHUNK, PRF_CHUNK>(m_ctx.clone(), RecordId::from(idx), match_keys)
                    }),
                )
                .try_collect::<Vec<_>>()
                .await;
                let res = res?;
                // (every record is validated inside convert_to_fp25519; the validator is dropped here)
                drop(validator);
                Ok::<_, Error>(res.into_iter().flat_map(|chunk| chunk.unpack::<PRF_CHUNK>().into_iter()).flat_map(|chunk| chunk.map(AdditiveShare::into_unpacking_iter)).collect::<Vec<AdditiveShare<Fp25519>>>())
            }
        };
    }
    let out: [Result<Vec<AdditiveShare<Fp25519>>, Error>; 3] = if malicious { w.malicious(records.clone().into_iter(), body!(1)).await } else { w.semi_honest(records.clone().into_iter(), body!(2)).await };
    let mut arm = Arm::new(r, if malicious { "share-conversion-malicious" } else { "share-conversion-semi-honest" });
    match out {
        [Ok(a), Ok(b), Ok(c)] => {
            for (i, k) in keys.iter().enumerate() {
                arm.cases += 1;
                let mut bad = None;
                for h in 0..3 {
                    let s = [&a[i], &b[i], &c[i]];
                    if s[h].right() != s[(h + 1) % 3].left() {
                        bad = Some(format!("helpers {h} and {} hold different copies of their common share", (h + 1) % 3));
                    }
                }
                let got = a[i].left() + b[i].left() + c[i].left();
                let mut bytes = [0u8; 32];
                bytes[..8].copy_from_slice(&k.to_le_bytes());
                if got != Fp25519::from(curve25519_dalek::Scalar::from_bytes_mod_order(bytes)) {
                    bad = Some(format!("reconstructs to {got:?}"));
                }
                if let Some(b) = bad {
                    arm.bad += 1;
                    arm.first.get_or_insert(format!("conversion of match key {k:#x}: {b}"));
                }
            }
        }
        o => arm.fail(format!("convert_to_fp25519 failed: {:?}", o.iter().map(|x| x.as_ref().err().map(|e| format!("{e:?}"))).collect::<Vec<_>>())),
    }
    arm.done();
}

#[test]
fn run() {
    let mut r = Report::new("C07");
    let thorough = common::thorough();
    let seed = common::seed() + 700;
    let rt = fault::runtime(8);
    rt.block_on(async {
        mul_fp31(&mut r, seed).await;
        mul_fp32(&mut r, seed + 10).await;
        for malicious in [false, true] {
            boolean_blocks(&mut r, seed + 20, malicious).await;
            aggregation(&mut r, seed + 30, malicious, thorough).await;
            pseudonym(&mut r, seed + 40, malicious).await;
            conversion(&mut r, seed + 50, malicious).await;
        }
    });
    r.sample(json!({"block":"select-BA3","cases":"2 x 8 x 8 (condition, true value, false value)","oracle":"reconstructed output = plain function; neighbouring helpers hold equal copies"}));
    r.flag("exhaustive", true);
    r.finish();
}
