// Hook H11 (ipa-core/src/net/server/mod.rs): the `ClientIdentity` request extension is private.

#[cfg(all(not(feature = "shuttle"), feature = "descriptive-gate"))]
mod c20 {
    include!(concat!(env!("IPA_VERIF_DIR"), "/c20.rs"));
}
