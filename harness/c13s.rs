// C13 / E2: a gateway channel H1 -> H2 of a TestWorld built inside the shuttle body. The world is
// built under the deterministic warm-up policy; the exploration window is opened before the
// channel ends are requested, so the rendezvous of the incoming stream with the receive request,
// the gateway's spawned stream task, the transport and the sender/receiver tasks are all
// interleaved in every way within the preemption bound.
// (module path: crate::verif::c13s; config B)

use std::{
    collections::BTreeSet,
    sync::{Arc as StdArc, Mutex as StdMutex},
};

use futures::future::join_all;
use serde_json::json;

use super::{
    common::{self, Report},
    sched::{self, Cfg},
};
use crate::{
    ff::{U128Conversions, boolean_array::{BA8, BA64}},
    helpers::{GatewayConfig, Role, TotalRecords},
    protocol::{RecordId, context::Context},
    test_fixture::{TestWorld, TestWorldConfig},
};

#[derive(Clone, Copy, Debug)]
pub struct Drv {
    /// number of sender tasks; task w sends records w, w+senders, ...
    pub senders: usize,
    /// sender task w issues its records in descending order when set
    pub send_rev: bool,
    pub k: usize,
    pub active: usize,
    pub read: usize,
    /// 0: the main task receives (all requests of a window joined, highest first);
    /// n > 0: n receiver tasks, task r asks for records r, r+n, ...
    pub receivers: usize,
    pub wide: bool,
    pub indeterminate: bool,
}

impl Drv {
    pub fn name(&self) -> String {
        format!("s{}{}-k{}-a{}-r{}-rx{}-{}{}", self.senders, if self.send_rev { "rev" } else { "" }, self.k, self.active, self.read, self.receivers, if self.wide { "8B" } else { "1B" }, if self.indeterminate { "-indet" } else { "" })
    }
    pub fn to_json(&self) -> serde_json::Value {
        json!({"senders":self.senders,"send_rev":self.send_rev,"k":self.k,"active":self.active,"read":self.read,"receivers":self.receivers,"wide":self.wide,"indeterminate":self.indeterminate})
    }
    pub fn from_json(v: &serde_json::Value) -> Self {
        let u = |k: &str| v[k].as_u64().unwrap() as usize;
        let b = |k: &str| v[k].as_bool().unwrap();
        Self { senders: u("senders"), send_rev: b("send_rev"), k: u("k"), active: u("active"), read: u("read"), receivers: u("receivers"), wide: b("wide"), indeterminate: b("indeterminate") }
    }
}

fn val(i: usize) -> u128 {
    0x0101_0101_0101_0101u128 * (i as u128 + 1)
}

async fn exchange<M: crate::helpers::MpcMessage + U128Conversions>(d: Drv, world: &'static TestWorld) -> Vec<(usize, u128)> {
    let total: TotalRecords = if d.indeterminate { TotalRecords::Indeterminate } else { TotalRecords::specified(d.k).unwrap() };
    let ctxs = world.contexts();
    let sctx = ctxs[0].narrow("c13s").set_total_records(total);
    let rctx = ctxs[1].narrow("c13s").set_total_records(total);
    sched::open_window();
    let mut hs = Vec::new();
    for w in (0..d.senders).rev() {
        let sctx = sctx.clone();
        hs.push(shuttle::future::spawn(async move {
            let tx = sctx.send_channel::<M>(Role::H2);
            let mut mine: Vec<usize> = (0..d.k).filter(|i| i % d.senders == w).collect();
            if d.send_rev {
                mine.reverse();
            }
            if d.send_rev {
                // all of this task's records outstanding at once, highest first
                for x in join_all(mine.iter().map(|&i| { let tx = &tx; async move { tx.send(RecordId::from(i), M::truncate_from(val(i))).await } })).await {
                    x.unwrap();
                }
            } else {
                for i in mine {
                    tx.send(RecordId::from(i), M::truncate_from(val(i))).await.unwrap();
                }
            }
            if d.indeterminate && w == 0 {
                // the closing task may only close once everything below was handed over; with one
                // sender this is program order, with two the close index parks until then
                tx.close(RecordId::from(d.k)).await;
            }
            Vec::new()
        }));
    }
    let mut got: Vec<(usize, u128)> = Vec::new();
    if d.receivers == 0 {
        let rx = rctx.recv_channel::<M>(Role::H1);
        let ids: Vec<usize> = (0..d.k).collect();
        for block in ids.chunks(d.active) {
            let r = join_all(block.iter().rev().map(|&j| { let rx = &rx; async move { (j, rx.receive(RecordId::from(j)).await.unwrap().as_u128()) } })).await;
            got.extend(r);
        }
        match rx.receive(RecordId::from(d.k)).await {
            Err(_) => {}
            x => panic!("C13-ORACLE close: receive({}) after the last record returned {x:?}", d.k),
        }
    } else {
        for rt in (0..d.receivers).rev() {
            let rctx = rctx.clone();
            hs.push(shuttle::future::spawn(async move {
                let rx = rctx.recv_channel::<M>(Role::H1);
                let mut v = Vec::new();
                for j in (0..d.k).filter(|j| j % d.receivers == rt) {
                    v.push((j, rx.receive(RecordId::from(j)).await.unwrap().as_u128()));
                }
                v
            }));
        }
    }
    for h in hs {
        got.extend(h.await.unwrap());
    }
    sched::close_window();
    got
}

fn body(d: Drv, outcomes: StdArc<StdMutex<BTreeSet<String>>>) {
    shuttle::future::block_on(async move {
        let mut config = TestWorldConfig::default();
        config.gateway_config = GatewayConfig { active: d.active.try_into().unwrap(), read_size: d.read.try_into().unwrap(), ..Default::default() };
        config.seed = 13;
        config.timeout = None;
        let world: &'static mut TestWorld = Box::leak(Box::new(TestWorld::new_with(config)));
        let ptr = world as *mut TestWorld;
        let world: &'static TestWorld = world;
        let mut got = if d.wide { exchange::<BA64>(d, world).await } else { exchange::<BA8>(d, world).await };
        let order: Vec<usize> = got.iter().map(|x| x.0).collect();
        got.sort();
        let mask = if d.wide { u128::from(u64::MAX) } else { 0xff };
        let want: Vec<(usize, u128)> = (0..d.k).map(|i| (i, val(i) & mask)).collect();
        assert!(got == want, "C13-ORACLE delivery: received {got:?}, sent {want:?}");
        outcomes.lock().unwrap().insert(format!("{order:?}"));
        // SAFETY: every task holding a context has been joined
        drop(unsafe { Box::from_raw(ptr) });
    });
}

pub fn explore_driver(d: Drv, bounds: &[u32], cap_exec: u64, cap_wall_s: u64, r: &mut Report) -> bool {
    let name = d.name();
    for &k in bounds {
        let outcomes = StdArc::new(StdMutex::new(BTreeSet::new()));
        let o2 = StdArc::clone(&outcomes);
        let mut cfg = Cfg::new(k);
        cfg.max_exec = cap_exec;
        cfg.max_wall = std::time::Duration::from_secs(cap_wall_s);
        cfg.use_window = true;
        cfg.split = std::env::var("VERIF_SPLIT").ok().and_then(|s| s.parse().ok()).unwrap_or(2);
        let out = sched::explore(cfg, move || body(d, StdArc::clone(&o2)));
        r.add("states", out.counted);
        r.add("transitions", out.steps);
        r.add("evaluations", out.executions);
        r.add("distinct_nontrivial", out.counted);
        r.max("depth", out.max_depth as u64);
        r.max("preemptions_used", u64::from(out.max_preempt));
        r.add(&format!("schedules_{name}_k{k}"), out.counted);
        for o in outcomes.lock().unwrap().iter() {
            r.set("completion_orders", format!("{name}:{o}"));
        }
        if std::env::var("VERIF_VERBOSE").is_ok() {
            eprintln!("{name} k={k}: execs {} counted {} steps {} depth {} wall {:.1}s complete {} cap {}", out.executions, out.counted, out.steps, out.max_depth, out.wall, out.complete, out.cap_hit);
        }
        if let Some(m) = out.machinery {
            r.machinery(&format!("{name} k={k}: {m}"));
            return false;
        }
        if let Some((path, msg)) = out.failure {
            let kind = if msg.contains("deadlock") { "deadlock" } else if msg.contains("C13-ORACLE") { "oracle" } else { "panic" };
            r.violation(&format!("gateway-sched:{kind}:{name}"), &format!("k={k}: {msg}"), json!({"part":"sched","driver":d.to_json(),"bound":k,"schedule":path}));
            return false;
        }
        if out.cap_hit || !out.complete {
            r.flag("exhaustive", false);
            r.note(format!("{name}: cap hit at k={k} after {} executions ({:.0}s); bounds below k completed", out.executions, out.wall));
            r.set("bounds_completed", format!("{name}:k<{k}"));
            return true;
        }
        r.set("bounds_completed", format!("{name}:k={k}"));
    }
    true
}

#[test]
fn run() {
    let mut r = Report::new("C13");
    if let Some(rep) = common::replay_arg() {
        let d = Drv::from_json(&rep["driver"]);
        let path: Vec<u32> = rep["schedule"].as_array().unwrap().iter().map(|v| v.as_u64().unwrap() as u32).collect();
        let outcomes = StdArc::new(StdMutex::new(BTreeSet::new()));
        let mut cfg = Cfg::new(rep["bound"].as_u64().unwrap() as u32);
        cfg.forced = Some(path.clone());
        cfg.worker = (0, 1);
        cfg.use_window = true;
        let out = sched::explore(cfg, move || body(d, StdArc::clone(&outcomes)));
        r.add("states", 1);
        r.add("transitions", out.steps);
        if let Some((_, msg)) = out.failure {
            r.violation(&format!("gateway-sched:replay:{}", d.name()), &msg, json!({"part":"sched","driver":rep["driver"],"bound":rep["bound"],"schedule":path}));
        }
        r.finish();
        return;
    }
    let thorough = common::thorough();
    let base = Drv { senders: 1, send_rev: false, k: 2, active: 2, read: 1, receivers: 0, wide: false, indeterminate: false };
    let mut drivers: Vec<(Drv, Vec<u32>)> = vec![
        (base, vec![0, 1, 2]),
        (Drv { send_rev: true, ..base }, vec![0, 1, 2]),
        (Drv { read: 2048, ..base }, vec![0, 1, 2]),
        (Drv { senders: 2, ..base }, vec![0, 1]),
        (Drv { receivers: 2, ..base }, vec![0, 1]),
        (Drv { k: 3, ..base }, vec![0, 1]),
        (Drv { wide: true, read: 8, ..base }, vec![0, 1]),
        (Drv { indeterminate: true, ..base }, vec![0, 1]),
        // three sender tasks on one channel whose data is only flushed by the close after the last record
        (Drv { senders: 3, k: 3, active: 4, read: 2048, ..base }, vec![0, 1]),
    ];
    if thorough {
        drivers = vec![
            (base, vec![0, 1, 2, 3]),
            (Drv { send_rev: true, ..base }, vec![0, 1, 2, 3]),
            (Drv { read: 2048, ..base }, vec![0, 1, 2, 3]),
            (Drv { senders: 2, ..base }, vec![0, 1, 2]),
            (Drv { receivers: 2, ..base }, vec![0, 1, 2]),
            (Drv { senders: 2, receivers: 2, ..base }, vec![0, 1, 2]),
            (Drv { k: 3, ..base }, vec![0, 1, 2]),
            (Drv { k: 3, send_rev: true, ..base }, vec![0, 1, 2]),
            (Drv { k: 4, active: 4, read: 2, ..base }, vec![0, 1, 2]),
            (Drv { wide: true, read: 8, ..base }, vec![0, 1, 2]),
            (Drv { wide: true, read: 16, k: 3, ..base }, vec![0, 1, 2]),
            (Drv { indeterminate: true, ..base }, vec![0, 1, 2]),
            (Drv { indeterminate: true, k: 3, ..base }, vec![0, 1, 2]),
            (Drv { senders: 3, k: 3, active: 4, read: 2048, ..base }, vec![0, 1, 2]),
        ];
    }
    // development aid: VERIF_C13S_ONLY='{"senders":3,...}|0,1,2' explores one driver
    if let Ok(only) = std::env::var("VERIF_C13S_ONLY") {
        let (dj, bs) = only.split_once('|').unwrap();
        drivers = vec![(Drv::from_json(&serde_json::from_str(dj).unwrap()), bs.split(',').map(|b| b.parse().unwrap()).collect())];
    }
    r.flag("exhaustive", true);
    let (cap_exec, cap_wall) = if thorough { (20_000_000, 1200) } else { (2_000_000, 120) };
    let budget = sched::Budget::new(if thorough { 2400 } else { 240 }, cap_wall);
    let mut left: usize = drivers.iter().map(|d| d.1.len()).sum();
    for (d, bounds) in drivers {
        let mut ok = true;
        for b in &bounds {
            let share = budget.share(left);
            left -= 1;
            ok = explore_driver(d, &[*b], cap_exec, share, &mut r);
            if !ok {
                break;
            }
            // a bound that hit its cap ends this driver
            if r.has_note_for(&d.name()) {
                break;
            }
        }
        if !ok {
            break;
        }
    }
    r.sample(json!({"driver":base.to_json(),"tasks":"sender task(s), receiver = main or task(s), gateway stream task, in-memory transport","oracle":"receive(i) = sent(i), end-of-stream after k, no deadlock"}));
    r.finish();
}
