// C19 / E3: compute_prf_and_reshard (the production caller of reshard_try_stream with a genuinely
// fallible input stream) on a 2-shard malicious world: census of every helper-to-helper channel,
// one fault per channel/chunk; whenever the PRF evaluation of a chunk fails on an honest helper the
// call must fail there - it must never return Ok with fewer records than the helper was given.
// (module path: crate::verif::c19p; config A)

use std::time::Duration;

use rand::{SeedableRng, rngs::StdRng};
use serde_json::json;

use super::{
    common::{self, Report},
    fault::{self, BoxFut, Fault, FaultKind, Out},
};
use crate::{
    ff::{
        U128Conversions,
        boolean_array::{BA3, BA8, BA64},
    },
    helpers::in_memory_config::{DynStreamInterceptor, passthrough},
    protocol::hybrid::oprf::compute_prf_and_reshard,
    report::hybrid::IndistinguishableHybridReport,
    secret_sharing::{IntoShares, replicated::semi_honest::AdditiveShare},
    test_fixture::{TestWorld, TestWorldConfig, WithShards},
};

type Row = IndistinguishableHybridReport<BA8, BA3>;
const S: usize = 2;
/// outputs[helper][shard] = PRF values of the reports held after resharding
type Outputs = Vec<Vec<Out<Vec<u64>>>>;

fn rows(n: usize, seed: u64) -> [Vec<Vec<Row>>; 3] {
    let mut rng = StdRng::seed_from_u64(seed ^ 0xc19);
    let mut inputs: [Vec<Vec<Row>>; 3] = std::array::from_fn(|_| (0..S).map(|_| Vec::new()).collect());
    for i in 0..n {
        let mk: [AdditiveShare<BA64>; 3] = BA64::truncate_from(1000 + (i as u128 % 4) * 77).share_with(&mut rng);
        let vs: [AdditiveShare<BA3>; 3] = BA3::truncate_from(i as u128 % 8).share_with(&mut rng);
        let bs: [AdditiveShare<BA8>; 3] = BA8::truncate_from(i as u128).share_with(&mut rng);
        for h in 0..3 {
            inputs[h][i % S].push(Row { match_key: mk[h].clone(), value: vs[h].clone(), breakdown_key: bs[h].clone() });
        }
    }
    inputs
}

async fn world_run(n: usize, seed: u64, interceptor: DynStreamInterceptor, overall: Duration, grace: Duration) -> Outputs {
    let mut config = TestWorldConfig::default();
    config.seed = seed;
    config.stream_interceptor = interceptor;
    config.timeout = None;
    let world: TestWorld<WithShards<S>> = TestWorld::with_shards(&config);
    let mut inputs = rows(n, seed);
    let mut futs: Vec<BoxFut<'_, Vec<u64>>> = Vec::new();
    for (h, per_shard) in world.malicious_contexts().into_iter().enumerate() {
        for (s, ctx) in per_shard.into_iter().enumerate() {
            let inp = std::mem::take(&mut inputs[h][s]);
            futs.push(Box::pin(async move {
                let r = compute_prf_and_reshard(ctx, inp).await.map_err(|e| format!("{e:?}"))?;
                Ok(r.iter().map(|x| x.match_key).collect())
            }));
        }
    }
    let flat = fault::run_all(futs, overall, grace).await;
    let mut it = flat.into_iter();
    let out: Outputs = (0..3).map(|_| (0..S).map(|_| it.next().unwrap()).collect()).collect();
    drop(world);
    out
}

#[test]
fn run() {
    let mut r = Report::new("C19");
    let thorough = common::thorough();
    let rt = fault::runtime(8);
    let seed = common::seed() + 70;
    for n in if thorough { vec![6usize, 9] } else { vec![6usize] } {
        let honest = rt.block_on(world_run(n, seed, passthrough(), Duration::from_secs(60), Duration::from_secs(5)));
        r.inc("evaluations");
        r.inc("states");
        // honest oracle: every helper holds n records in total; equal PRF values sit on one shard; helpers agree
        for h in 0..3 {
            let per: Vec<Option<&Vec<u64>>> = (0..S).map(|s| honest[h][s].ok()).collect();
            if per.iter().any(Option::is_none) {
                r.violation("prf-reshard:honest-failed", &format!("helper {h}: {:?}", honest[h]), json!({"part":"prf","n":n,"seed":seed}));
                continue;
            }
            let total: usize = per.iter().map(|v| v.unwrap().len()).sum();
            if total != n {
                r.violation("prf-reshard:count", &format!("helper {h} holds {total} records after resharding {n}"), json!({"part":"prf","n":n,"seed":seed}));
            }
            let a: std::collections::BTreeSet<u64> = per[0].unwrap().iter().copied().collect();
            if per[1].unwrap().iter().any(|x| a.contains(x)) {
                r.violation("prf-reshard:split-key", &format!("helper {h}: a PRF value is present on both shards"), json!({"part":"prf","n":n,"seed":seed}));
            }
            if (0..S).any(|s| honest[h][s].ok() != honest[0][s].ok()) {
                r.violation("prf-reshard:alignment", &format!("helpers 0 and {h} hold different PRF sequences"), json!({"part":"prf","n":n,"seed":seed}));
            }
        }
        let (icp, cen) = fault::census_interceptor();
        let _ = rt.block_on(world_run(n, seed, icp, Duration::from_secs(60), Duration::from_secs(5)));
        let census = cen.lock().unwrap().clone();
        r.add("mpc_channels_in_census", census.channels.len() as u64);
        let mut faults = Vec::new();
        for (id, chunks) in &census.channels {
            // the fallible stream handed to reshard_try_stream carries the results of eval_prf; the
            // conversion steps before it fail the call directly (thorough tier samples them by family)
            let in_scope = id.gate.contains("/eval_prf/")
                || (thorough && (id.gate.contains("_validate/") || ["bit000", "bit001", "bit063", "bit127", "bit254", "bit255"].iter().any(|b| id.gate.ends_with(b))));
            if !in_scope {
                r.inc("channels_out_of_scope");
                continue;
            }
            for (ci, (len, _)) in chunks.iter().enumerate() {
                if *len == 0 {
                    continue;
                }
                let bytes: Vec<usize> = if thorough { vec![0, 1, len / 3, len / 2, len - 1] } else { vec![len / 2] };
                for b in bytes {
                    faults.push(Fault { channel: id.clone(), chunk: ci, kind: FaultKind::Xor { byte: b, mask: 1 } });
                }
            }
        }
        r.add("faults_planned", faults.len() as u64);
        if std::env::var("VERIF_PLAN_ONLY").is_ok() {
            let fam: std::collections::BTreeMap<String, usize> = census.channels.iter().fold(Default::default(), |mut m, (id, ch)| { *m.entry(id.gate.clone()).or_default() += ch.len(); m });
            eprintln!("faults {} channels {} gates {:#?}", faults.len(), census.channels.len(), fam);
            continue;
        }
        let outs: Vec<(Outputs, u64)> = rt.block_on(async {
            let mut all = Vec::new();
            for chunk in faults.chunks(16) {
                all.extend(
                    futures::future::join_all(chunk.iter().map(|f| {
                        let (icp, changed) = fault::fault_interceptor(f.clone());
                        async move {
                            let o = world_run(n, seed, icp, Duration::from_secs(20), Duration::from_millis(1500)).await;
                            (o, changed.load(std::sync::atomic::Ordering::SeqCst))
                        }
                    }))
                    .await,
                );
            }
            all
        });
        for (f, (o, changed)) in faults.iter().zip(&outs) {
            r.inc("evaluations");
            if *changed == 0 {
                continue;
            }
            r.inc("states");
            r.inc("distinct_nontrivial");
            r.inc("prf_faults_applied");
            r.add("transitions", 3 * n as u64);
            let mut any_fail = false;
            for h in 0..3 {
                if h == f.channel.source {
                    continue;
                }
                let per: Vec<Option<&Vec<u64>>> = (0..S).map(|s| o[h][s].ok()).collect();
                if per.iter().any(Option::is_none) {
                    any_fail = true;
                    continue;
                }
                let total: usize = per.iter().map(|v| v.unwrap().len()).sum();
                if total != n {
                    r.violation(
                        "prf-reshard:records-dropped",
                        &format!("honest helper {h} returned Ok on both shards with {total} of {n} records after a tampered message on {}", f.channel.gate),
                        json!({"part":"prf","n":n,"seed":seed,"fault":f.to_json()}),
                    );
                }
            }
            if any_fail {
                r.inc("prf_faults_failed_loudly");
                r.set("failing_gates", f.channel.gate.rsplit('/').next().unwrap_or("").to_string());
            }
        }
    }
    r.flag("exhaustive", true);
    r.finish();
}

// ---- order after resharding by pseudonym, whatever arrives first ----------------------------------------
// Three shards, shard 0 holds no report when the step starts (its own branch in the code), shards 1 and
// 2 hold reports tagged with (source shard, position). The shard-to-shard traffic into shard 0 from
// shard 1, or from shard 2, is held back for a while, so that the other peer's records arrive first.
// Every shard must hold its records grouped by source shard in shard order, each group in its
// original order - in all three timings, identically on the three helpers.

mod order3 {
    use super::*;
    use crate::{helpers::in_memory_config::InspectContext, secret_sharing::replicated::ReplicatedSecretSharing};
    const S3: usize = 3;

    /// per helper, per shard: the left shares of the breakdown keys of the records held
    async fn run3(seed: u64, delay_source: Option<u32>) -> Vec<Vec<Out<Vec<u128>>>> {
        let mut config = TestWorldConfig::default();
        config.seed = seed;
        config.timeout = None;
        config.stream_interceptor = std::sync::Arc::new(move |ctx: &InspectContext, _data: &mut Vec<u8>| {
            if let (InspectContext::ShardMessage { source, dest, .. }, Some(d)) = (ctx, delay_source) {
                if u32::from(*source) == d && u32::from(*dest) == 0 {
                    std::thread::sleep(Duration::from_millis(700));
                }
            }
        });
        let world: TestWorld<WithShards<S3>> = TestWorld::with_shards(&config);
        let mut rng = StdRng::seed_from_u64(seed ^ 0xc193);
        let mut inputs: [Vec<Vec<Row>>; 3] = std::array::from_fn(|_| (0..S3).map(|_| Vec::new()).collect());
        for src in 1..S3 {
            for idx in 0..12usize {
                let mk: [AdditiveShare<BA64>; 3] = BA64::truncate_from(5000 + (src * 40 + idx) as u128).share_with(&mut rng);
                let vs: [AdditiveShare<BA3>; 3] = BA3::truncate_from(1u128).share_with(&mut rng);
                let bs: [AdditiveShare<BA8>; 3] = BA8::truncate_from((src * 100 + idx) as u128).share_with(&mut rng);
                for h in 0..3 {
                    inputs[h][src].push(Row { match_key: mk[h].clone(), value: vs[h].clone(), breakdown_key: bs[h].clone() });
                }
            }
        }
        let mut futs: Vec<BoxFut<'_, Vec<u128>>> = Vec::new();
        for (h, per_shard) in world.malicious_contexts().into_iter().enumerate() {
            for (s, ctx) in per_shard.into_iter().enumerate() {
                let inp = std::mem::take(&mut inputs[h][s]);
                futs.push(Box::pin(async move {
                    let r = compute_prf_and_reshard(ctx, inp).await.map_err(|e| format!("{e:?}"))?;
                    Ok(r.iter().map(|x| x.breakdown_key.left().as_u128()).collect())
                }));
            }
        }
        let flat = fault::run_all(futs, Duration::from_secs(120), Duration::from_secs(5)).await;
        let mut it = flat.into_iter();
        let out = (0..3).map(|_| (0..S3).map(|_| it.next().unwrap()).collect()).collect();
        drop(world);
        out
    }

    #[test]
    fn run_order() {
        let mut r = Report::new("C19");
        let rt = fault::runtime(8);
        let seed = common::seed() + 73;
        let mut per_timing: Vec<Vec<Vec<u128>>> = Vec::new();
        for delay in [None, Some(1u32), Some(2)] {
            let out = rt.block_on(run3(seed, delay));
            r.inc("evaluations");
            r.inc("distinct_nontrivial");
            r.inc("prf_order_runs");
            r.inc("states");
            r.add("transitions", 24);
            let replay = json!({"part":"prf-order","delayed_source_shard":delay,"seed":seed});
            let mut tags: Vec<Vec<u128>> = Vec::new();
            let mut failed = false;
            for s in 0..S3 {
                let (Some(a), Some(b), Some(c)) = (out[0][s].ok(), out[1][s].ok(), out[2][s].ok()) else {
                    r.violation("prf-reshard:order:failed", &format!("traffic from shard {delay:?} to shard 0 held back: shard {s} ended {:?} / {:?} / {:?}", out[0][s].class(), out[1][s].class(), out[2][s].class()), replay.clone());
                    failed = true;
                    break;
                };
                if a.len() != b.len() || a.len() != c.len() {
                    r.violation("prf-reshard:order:alignment", &format!("shard {s}: the helpers hold {} / {} / {} records", a.len(), b.len(), c.len()), replay.clone());
                    failed = true;
                    break;
                }
                // BA8 addition is XOR
                tags.push((0..a.len()).map(|j| a[j] ^ b[j] ^ c[j]).collect());
            }
            if failed {
                continue;
            }
            let total: usize = tags.iter().map(Vec::len).sum();
            if total != 24 {
                r.violation("prf-reshard:order:count", &format!("{total} records after resharding 24"), replay.clone());
            }
            for (s, t) in tags.iter().enumerate() {
                let keys: Vec<(u128, u128)> = t.iter().map(|x| (x / 100, x % 100)).collect();
                if keys.windows(2).any(|w| w[0] >= w[1]) {
                    r.violation(
                        "prf-reshard:order:not-by-source-shard",
                        &format!("traffic from shard {delay:?} to shard 0 held back: shard {s} holds its records in the order (source shard, position) {keys:?}; expected grouped by source shard in shard order, each group in input order (so that the three helpers' shares stay aligned whatever arrives first)"),
                        replay.clone(),
                    );
                }
            }
            r.set("prf_order_shapes", format!("delay={delay:?}:{:?}", tags.iter().map(Vec::len).collect::<Vec<_>>()));
            per_timing.push(tags);
        }
        if per_timing.windows(2).any(|w| w[0] != w[1]) {
            r.violation("prf-reshard:order:timing-dependent", "the order in which the shards hold their records differs between the three timings", json!({"part":"prf-order","seed":seed}));
        }
        r.sample(json!({"shards":3,"reports":"12 on shard 1, 12 on shard 2, none on shard 0","timings":"none / shard 1 -> 0 held back / shard 2 -> 0 held back"}));
        r.flag("exhaustive", true);
        r.finish();
    }
}
