// Hook H10 (ipa-core/src/query/runner/mod.rs): `runner::hybrid` (Query::execute) is private.

#[cfg(all(not(feature = "shuttle"), feature = "descriptive-gate"))]
mod c11 {
    include!(concat!(env!("IPA_VERIF_DIR"), "/c11.rs"));
}

#[cfg(all(not(feature = "shuttle"), feature = "descriptive-gate"))]
mod c19a {
    include!(concat!(env!("IPA_VERIF_DIR"), "/c19a.rs"));
}
