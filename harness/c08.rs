// C08 — every advertised field is a field with canonical elements (engine E5: exhaustive
// small-domain enumeration against an independent reference).

use std::collections::BTreeMap;

use generic_array::GenericArray;
use serde_json::json;
use typenum::Unsigned;

use super::common::{self, Report};
use crate::{
    ff::{
        Field, Fp31, Fp32BitPrime, Fp61BitPrime, GaloisField, Gf2, Gf3Bit, Gf8Bit, Gf9Bit,
        Gf20Bit, Gf32Bit, Gf40Bit, MultiplyAccumulate, MultiplyAccumulator,
        MultiplyAccumulatorArray, PrimeField, Serializable, U128Conversions, batch_invert,
        boolean::Boolean, ec_prime_field::Fp25519,
    },
    secret_sharing::SharedValue,
};

#[derive(Clone, Copy, Debug)]
pub enum Kind {
    Prime(u128),
    Gf { bits: u32, poly: u128 },
}

impl Kind {
    pub fn order(self) -> u128 {
        match self {
            Kind::Prime(p) => p,
            Kind::Gf { bits, .. } => 1u128 << bits,
        }
    }
    fn add(self, a: u128, b: u128) -> u128 {
        match self {
            Kind::Prime(p) => (a + b) % p,
            Kind::Gf { .. } => a ^ b,
        }
    }
    fn neg(self, a: u128) -> u128 {
        match self {
            Kind::Prime(p) => (p - a) % p,
            Kind::Gf { .. } => a,
        }
    }
    fn sub(self, a: u128, b: u128) -> u128 {
        self.add(a, self.neg(b))
    }
    fn mul(self, a: u128, b: u128) -> u128 {
        match self {
            // operands < 2^61, product < 2^122
            Kind::Prime(p) => (a * b) % p,
            Kind::Gf { bits, poly } => {
                // shift-and-add with reduction after every doubling; independent of clmul
                let mut acc = 0u128;
                let mut x = a;
                for i in 0..bits {
                    if (b >> i) & 1 == 1 {
                        acc ^= x;
                    }
                    x <<= 1;
                    if (x >> bits) & 1 == 1 {
                        x ^= poly;
                    }
                }
                acc
            }
        }
    }
}

pub trait Dom: Field + Serializable {
    fn from_u(v: u128) -> Self;
    fn to_u(&self) -> u128;
}

macro_rules! dom {
    ($($t:ty),*) => {$(
        impl Dom for $t {
            fn from_u(v: u128) -> Self { <$t as U128Conversions>::truncate_from(v) }
            fn to_u(&self) -> u128 { U128Conversions::as_u128(self) }
        }
    )*};
}
dom!(Fp31, Fp32BitPrime, Fp61BitPrime, Gf2, Gf3Bit, Gf8Bit, Gf9Bit, Gf20Bit, Gf32Bit, Gf40Bit, Boolean);

fn ser<F: Serializable>(v: &F) -> Vec<u8> {
    let mut buf = GenericArray::<u8, F::Size>::default();
    v.serialize(&mut buf);
    buf.to_vec()
}

fn de<F: Serializable>(b: &[u8]) -> Result<F, String> {
    let mut buf = GenericArray::<u8, F::Size>::default();
    buf.copy_from_slice(b);
    F::deserialize(&buf).map_err(|e| e.to_string())
}

fn le_bytes(v: u128, n: usize) -> Vec<u8> {
    v.to_le_bytes()[..n].to_vec()
}

struct Fails {
    first: BTreeMap<String, (String, u64)>,
}

impl Fails {
    fn new() -> Self {
        Self { first: BTreeMap::new() }
    }
    fn hit(&mut self, axiom: &str, what: impl FnOnce() -> String) {
        let e = self.first.entry(axiom.to_string()).or_insert_with(|| (what(), 0));
        e.1 += 1;
    }
    fn merge(&mut self, o: Fails) {
        for (k, (w, n)) in o.first {
            let e = self.first.entry(k).or_insert((w, 0));
            e.1 += n;
        }
    }
    fn flush(self, name: &str, r: &mut Report) {
        for (ax, (what, n)) in self.first {
            r.violation(
                &format!("{ax}:{name}"),
                &format!("{what} ({n} failing cases)"),
                json!({"part":"fields","field":name,"axiom":ax}),
            );
        }
    }
}

/// canonical-form oracle for a single result value: reference value, range, byte encoding, decode.
fn canon<F: Dom>(kind: Kind, op: &str, r: F, expect: u128, f: &mut Fails, ctx: impl Fn() -> String) {
    let n = F::Size::USIZE;
    let got = r.to_u();
    if got != expect {
        if got % kind.order() == expect && matches!(kind, Kind::Prime(_)) {
            f.hit(&format!("{op}-noncanonical"), || format!("{}: value {got} is not reduced (expected {expect})", ctx()));
        } else {
            f.hit(&format!("{op}-wrong"), || format!("{}: got {got}, reference {expect}", ctx()));
        }
        return;
    }
    let canonical = F::from_u(expect);
    if r != canonical {
        f.hit(&format!("{op}-eq"), || format!("{}: result does not compare equal to the canonical element {expect}", ctx()));
    }
    let b = ser(&r);
    if b != ser(&canonical) || b != le_bytes(expect, n) {
        f.hit(&format!("{op}-bytes"), || format!("{}: serialises as {b:?}", ctx()));
    }
    match de::<F>(&b) {
        Ok(v) if v == r => {}
        Ok(_) => f.hit(&format!("{op}-roundtrip"), || format!("{}: decode(encode(r)) != r", ctx())),
        Err(e) => f.hit(&format!("{op}-roundtrip"), || format!("{}: own encoding rejected: {e}", ctx())),
    }
}

fn check_pairs<F: Dom>(kind: Kind, elems: &[u128], f: &mut Fails, cnt: &mut u64) {
    for &a in elems {
        let fa = F::from_u(a);
        canon(kind, "neg", -fa, kind.neg(a), f, || format!("-({a})"));
        if fa + (-fa) != F::ZERO {
            f.hit("add-inverse", || format!("{a} + (-{a}) != 0"));
        }
        if fa + F::ZERO != fa || F::ZERO + fa != fa {
            f.hit("add-identity", || format!("{a} + 0 != {a}"));
        }
        if fa * F::ONE != fa || F::ONE * fa != fa {
            f.hit("mul-identity", || format!("{a} * 1 != {a}"));
        }
        if fa * F::ZERO != F::ZERO {
            f.hit("mul-zero", || format!("{a} * 0 != 0"));
        }
        *cnt += 5;
        for &b in elems {
            let fb = F::from_u(b);
            canon(kind, "add", fa + fb, kind.add(a, b), f, || format!("{a}+{b}"));
            canon(kind, "sub", fa - fb, kind.sub(a, b), f, || format!("{a}-{b}"));
            canon(kind, "mul", fa * fb, kind.mul(a, b), f, || format!("{a}*{b}"));
            let mut x = fa;
            x += fb;
            let mut y = fa;
            y -= fb;
            let mut z = fa;
            z *= fb;
            if x != fa + fb || y != fa - fb || z != fa * fb {
                f.hit("assign-ops", || format!("op-assign differs from binary op at ({a},{b})"));
            }
            if fa + fb != fb + fa {
                f.hit("add-comm", || format!("{a}+{b}"));
            }
            if fa * fb != fb * fa {
                f.hit("mul-comm", || format!("{a}*{b}"));
            }
            if fa - fb != fa + (-fb) {
                f.hit("sub-def", || format!("{a}-{b} != {a}+(-{b})"));
            }
            *cnt += 7;
        }
    }
}

fn check_triples<F: Dom>(xs: &[u128], ys: &[u128], zs: &[u128], f: &mut Fails) -> u64 {
    let mut n = 0;
    for &a in xs {
        let fa = F::from_u(a);
        for &b in ys {
            let fb = F::from_u(b);
            let ab = fa * fb;
            let apb = fa + fb;
            for &c in zs {
                let fc = F::from_u(c);
                if apb + fc != fa + (fb + fc) {
                    f.hit("add-assoc", || format!("({a}+{b})+{c}"));
                }
                if ab * fc != fa * (fb * fc) {
                    f.hit("mul-assoc", || format!("({a}*{b})*{c}"));
                }
                if fa * (fb + fc) != ab + fa * fc {
                    f.hit("distrib", || format!("{a}*({b}+{c})"));
                }
                if (fb + fc) * fa != fb * fa + fc * fa {
                    f.hit("distrib-right", || format!("({b}+{c})*{a}"));
                }
                n += 4;
            }
        }
    }
    n
}

/// Exhaustive check of a field whose whole domain is enumerable.
fn small_field<F: Dom>(name: &str, kind: Kind, triples: bool, r: &mut Report) {
    let order = kind.order();
    let elems: Vec<u128> = (0..order).collect();
    let mut f = Fails::new();
    // the constructor is a bijection between 0..order and the type's values
    let mut seen = std::collections::BTreeSet::new();
    for &v in &elems {
        let e = F::from_u(v);
        if e.to_u() != v {
            f.hit("ctor", || format!("from_u({v}).to_u() = {}", e.to_u()));
        }
        seen.insert(ser(&e));
    }
    if seen.len() as u128 != order {
        f.hit("ctor-distinct", || format!("{} distinct encodings for {order} values", seen.len()));
    }
    if F::ZERO.to_u() != 0 || F::ONE.to_u() != 1 % order.max(2) {
        f.hit("constants", || "ZERO/ONE".into());
    }
    let threads = common::ncpu();
    let parts = common::par_map(elems.len(), threads, |i| {
        let mut f = Fails::new();
        let mut cnt = 0u64;
        check_pairs::<F>(kind, &elems[i..=i], &mut f, &mut 0);
        // pairs with a = elems[i]
        let a = elems[i];
        let fa = F::from_u(a);
        for &b in &elems {
            let fb = F::from_u(b);
            canon(kind, "add", fa + fb, kind.add(a, b), &mut f, || format!("{a}+{b}"));
            canon(kind, "sub", fa - fb, kind.sub(a, b), &mut f, || format!("{a}-{b}"));
            canon(kind, "mul", fa * fb, kind.mul(a, b), &mut f, || format!("{a}*{b}"));
            let (mut x, mut y, mut z) = (fa, fa, fa);
            x += fb;
            y -= fb;
            z *= fb;
            if x != fa + fb || y != fa - fb || z != fa * fb {
                f.hit("assign-ops", || format!("op-assign differs from binary op at ({a},{b})"));
            }
            if fa + fb != fb + fa {
                f.hit("add-comm", || format!("{a}+{b}"));
            }
            if fa * fb != fb * fa {
                f.hit("mul-comm", || format!("{a}*{b}"));
            }
            if fa - fb != fa + (-fb) {
                f.hit("sub-def", || format!("{a}-{b} != {a}+(-{b})"));
            }
            cnt += 7;
        }
        // multiplicative inverse by exhaustive search (=> no zero divisors)
        if a != 0 {
            let inv: Vec<u128> = elems.iter().copied().filter(|&b| fa * F::from_u(b) == F::ONE).collect();
            if inv.len() != 1 {
                f.hit("mul-inverse", || format!("{a} has {} inverses", inv.len()));
            }
            if elems.iter().any(|&b| b != 0 && fa * F::from_u(b) == F::ZERO) {
                f.hit("zero-divisor", || format!("{a} is a zero divisor"));
            }
            cnt += 2;
        }
        if triples {
            cnt += check_triples::<F>(&elems[i..=i], &elems, &elems, &mut f);
        }
        (f, cnt)
    });
    let mut total = 0;
    for (pf, c) in parts {
        f.merge(pf);
        total += c;
    }
    r.add("evaluations", total);
    r.add("distinct_nontrivial", (order * order) as u64 - 1);
    r.add(&format!("cases_{name}"), total);
    r.set("fields", format!("{name}:order={order}:exhaustive_pairs{}", if triples { "+triples" } else { "" }));
    {
        let (a, b) = (order - 1, order / 2 + 1);
        let (fa, fb) = (F::from_u(a), F::from_u(b % order));
        r.sample(json!({"field":name,"a":a.to_string(),"b":(b % order).to_string(),"a+b":(fa+fb).to_u().to_string(),
            "a*b":(fa*fb).to_u().to_string(),"-a":(-fa).to_u().to_string(),"bytes(a*b)":ser(&(fa*fb))}));
    }
    f.flush(name, r);
}

pub fn boundary(kind: Kind) -> Vec<u128> {
    let o = kind.order();
    let mut v = vec![0, 1, 2, 3, o - 1, o - 2, o - 3, o / 2, o / 2 + 1, o / 2 - 1];
    let bits = 128 - (o - 1).leading_zeros();
    for k in [1u32, 7, 8, 15, 16, 19, 20, 31, 32, 39, 60] {
        if k < bits {
            v.push(1 << k);
            v.push((1 << k) - 1);
            v.push((1 << k) + 1);
        }
    }
    // fixed pseudo-random elements
    let mut rng = common::SplitMix(0xC08);
    for _ in 0..8 {
        v.push((u128::from(rng.next()) << 64 | u128::from(rng.next())) % o);
    }
    v.sort_unstable();
    v.dedup();
    v.retain(|x| *x < o);
    v
}

fn large_field<F: Dom>(name: &str, kind: Kind, r: &mut Report) {
    let a = boundary(kind);
    let mut f = Fails::new();
    let mut cnt = 0;
    for &v in &a {
        if F::from_u(v).to_u() != v {
            f.hit("ctor", || format!("from_u({v})"));
        }
    }
    check_pairs::<F>(kind, &a, &mut f, &mut cnt);
    cnt += check_triples::<F>(&a, &a, &a, &mut f);
    // inverses through Fermat / exhaustive square-and-multiply on the reference side
    for &v in a.iter().filter(|v| **v != 0) {
        // a^(order-2) computed with the type's own mul must be an inverse
        let mut e = kind.order() - 2;
        let mut base = F::from_u(v);
        let mut acc = F::ONE;
        while e > 0 {
            if e & 1 == 1 {
                acc *= base;
            }
            base *= base;
            e >>= 1;
        }
        if acc * F::from_u(v) != F::ONE {
            f.hit("mul-inverse", || format!("{v}^(q-2) is not an inverse"));
        }
        cnt += 1;
    }
    r.add("evaluations", cnt);
    r.add("distinct_nontrivial", (a.len() * a.len()) as u64);
    r.add(&format!("cases_{name}"), cnt);
    r.set("fields", format!("{name}:alphabet={}", a.len()));
    f.flush(name, r);
}

fn prime_invert<F: Dom + PrimeField>(name: &str, kind: Kind, r: &mut Report, all: bool) {
    let vals: Vec<u128> = if all { (1..kind.order()).collect() } else { boundary(kind).into_iter().filter(|v| *v != 0).collect() };
    let mut f = Fails::new();
    for &v in &vals {
        let inv = F::from_u(v).invert();
        if inv * F::from_u(v) != F::ONE || inv.to_u() >= kind.order() {
            f.hit("invert", || format!("invert({v}) = {}", inv.to_u()));
        }
    }
    if common::catch(|| F::ZERO.invert()).is_ok() {
        f.hit("invert-zero", || "invert(0) returned a value".into());
    }
    r.add("evaluations", vals.len() as u64 + 1);
    f.flush(name, r);
}

// ---- modulus certificates -------------------------------------------------------------------

fn is_prime_trial(p: u128) -> bool {
    if p < 2 {
        return false;
    }
    let p64 = p as u64;
    let lim = (p as f64).sqrt() as u64 + 2;
    let threads = common::ncpu() as u64;
    let chunk = lim / threads + 1;
    let found = common::par_map(threads as usize, threads as usize, |t| {
        let lo = (t as u64 * chunk).max(2);
        let hi = ((t as u64 + 1) * chunk).min(lim);
        let mut d = lo;
        while d < hi {
            if d * d <= p64 && p64 % d == 0 {
                return true;
            }
            d += 1;
        }
        false
    });
    !found.into_iter().any(|x| x)
}

fn poly_deg(p: u128) -> i32 {
    127 - p.leading_zeros() as i32
}

fn poly_mod(mut a: u128, m: u128) -> u128 {
    let dm = poly_deg(m);
    while a != 0 && poly_deg(a) >= dm {
        a ^= m << (poly_deg(a) - dm);
    }
    a
}

fn irreducible(poly: u128, bits: u32) -> bool {
    if poly_deg(poly) != bits as i32 {
        return false;
    }
    if bits == 1 {
        return true; // degree-1 polynomials are irreducible
    }
    let maxd = bits / 2;
    // every candidate divisor of degree 1..=maxd
    (2u128..(1u128 << (maxd + 1))).all(|d| poly_mod(poly, d) != 0)
}

fn moduli(r: &mut Report) {
    for (name, p) in [
        ("Fp31", u128::from(Fp31::PRIME)),
        ("Fp32BitPrime", u128::from(Fp32BitPrime::PRIME)),
        ("Fp61BitPrime", u128::from(Fp61BitPrime::PRIME)),
        ("Boolean", u128::from(<Boolean as PrimeField>::PRIME)),
    ] {
        r.inc("evaluations");
        if !is_prime_trial(p) {
            r.violation(&format!("modulus-composite:{name}"), &format!("{p} is not prime"), json!({"part":"fields"}));
        }
        r.set("moduli", format!("{name}:{p}:prime-by-trial-division"));
    }
    macro_rules! gf {
        ($($t:ty),*) => {$(
            r.inc("evaluations");
            let poly = <$t as GaloisField>::POLYNOMIAL;
            if !irreducible(poly, <$t as SharedValue>::BITS) {
                r.violation(&format!("modulus-reducible:{}", stringify!($t)), &format!("{poly:#x} is reducible or has the wrong degree"), json!({"part":"fields"}));
            }
            r.set("moduli", format!("{}:{poly:#x}:irreducible-by-exhaustive-division", stringify!($t)));
        )*};
    }
    gf!(Gf2, Gf3Bit, Gf8Bit, Gf9Bit, Gf20Bit, Gf32Bit, Gf40Bit);
}

// ---- Fp25519 (wrapper of curve25519-dalek's Scalar) --------------------------------------------

type U256 = [u64; 4];
const ELL: U256 = [0x5812_631a_5cf5_d3ed, 0x14de_f9de_a2f7_9cd6, 0, 0x1000_0000_0000_0000];

fn u256_add(a: U256, b: U256) -> (U256, bool) {
    let mut r = [0u64; 4];
    let mut c = 0u128;
    for i in 0..4 {
        let s = u128::from(a[i]) + u128::from(b[i]) + c;
        r[i] = s as u64;
        c = s >> 64;
    }
    (r, c != 0)
}
fn u256_sub(a: U256, b: U256) -> (U256, bool) {
    let mut r = [0u64; 4];
    let mut borrow = 0i128;
    for i in 0..4 {
        let s = i128::from(a[i]) - i128::from(b[i]) - borrow;
        if s < 0 {
            r[i] = (s + (1i128 << 64)) as u64;
            borrow = 1;
        } else {
            r[i] = s as u64;
            borrow = 0;
        }
    }
    (r, borrow != 0)
}
fn u256_ge(a: U256, b: U256) -> bool {
    for i in (0..4).rev() {
        if a[i] != b[i] {
            return a[i] > b[i];
        }
    }
    true
}
fn ell_reduce(mut a: U256) -> U256 {
    while u256_ge(a, ELL) {
        a = u256_sub(a, ELL).0;
    }
    a
}
fn ell_add(a: U256, b: U256) -> U256 {
    // a,b < ell < 2^253 so no carry out
    ell_reduce(u256_add(a, b).0)
}
fn ell_mul(a: U256, b: U256) -> U256 {
    let mut acc = [0u64; 4];
    let mut x = a;
    for i in 0..256 {
        if (b[i / 64] >> (i % 64)) & 1 == 1 {
            acc = ell_add(acc, x);
        }
        x = ell_add(x, x);
    }
    acc
}
fn u256_bytes(a: U256) -> [u8; 32] {
    let mut o = [0u8; 32];
    for i in 0..4 {
        o[i * 8..i * 8 + 8].copy_from_slice(&a[i].to_le_bytes());
    }
    o
}
fn fp25519_from(a: U256) -> Fp25519 {
    de::<Fp25519>(&u256_bytes(a)).unwrap()
}

fn fp25519(r: &mut Report) {
    let mut alpha: Vec<U256> = vec![[0; 4], [1, 0, 0, 0], [2, 0, 0, 0], [u64::MAX, 0, 0, 0], [0, 1, 0, 0], [u64::MAX, u64::MAX, 0, 0], [0, 0, 0, 1 << 59]];
    alpha.push(u256_sub(ELL, [1, 0, 0, 0]).0);
    alpha.push(u256_sub(ELL, [2, 0, 0, 0]).0);
    let mut half = ELL;
    // (ell-1)/2 and (ell+1)/2
    half = u256_sub(half, [1, 0, 0, 0]).0;
    let mut h = [0u64; 4];
    for i in 0..4 {
        h[i] = half[i] >> 1 | if i < 3 { half[i + 1] << 63 } else { 0 };
    }
    alpha.push(h);
    alpha.push(u256_add(h, [1, 0, 0, 0]).0);
    let mut rng = common::SplitMix(25519);
    for _ in 0..6 {
        alpha.push(ell_reduce([rng.next(), rng.next(), rng.next(), rng.next() >> 4]));
    }
    let mut f = Fails::new();
    let mut cnt = 0u64;
    // non-reduced encodings are reduced on decode (documented), and every result is canonical
    for enc in [u256_bytes(ELL), u256_bytes(u256_add(ELL, [5, 0, 0, 0]).0), [0xff; 32]] {
        let v = de::<Fp25519>(&enc).unwrap();
        let b = ser(&v);
        let mut x = [0u64; 4];
        for i in 0..4 {
            x[i] = u64::from_le_bytes(enc[i * 8..i * 8 + 8].try_into().unwrap());
        }
        if b != u256_bytes(ell_reduce_big(x)).to_vec() {
            f.hit("decode-reduces", || format!("{enc:?}"));
        }
        cnt += 1;
    }
    for &a in &alpha {
        let fa = fp25519_from(a);
        if ser(&fa) != u256_bytes(a).to_vec() {
            f.hit("roundtrip", || format!("{a:?}"));
        }
        let na = -fa;
        let expect_neg = if a == [0; 4] { a } else { u256_sub(ELL, a).0 };
        if ser(&na) != u256_bytes(expect_neg).to_vec() {
            f.hit("neg", || format!("-{a:?}"));
        }
        if fa + na != Fp25519::ZERO || fa + Fp25519::ZERO != fa || fa * Fp25519::ONE != fa {
            f.hit("identities", || format!("{a:?}"));
        }
        if a != [0; 4] {
            let inv = fa.invert();
            if inv * fa != Fp25519::ONE {
                f.hit("mul-inverse", || format!("{a:?}"));
            }
        }
        for &b in &alpha {
            let fb = fp25519_from(b);
            if ser(&(fa + fb)) != u256_bytes(ell_add(a, b)).to_vec() {
                f.hit("add-wrong", || format!("{a:?}+{b:?}"));
            }
            let nb = if b == [0; 4] { b } else { u256_sub(ELL, b).0 };
            if ser(&(fa - fb)) != u256_bytes(ell_add(a, nb)).to_vec() {
                f.hit("sub-wrong", || format!("{a:?}-{b:?}"));
            }
            if ser(&(fa * fb)) != u256_bytes(ell_mul(a, b)).to_vec() {
                f.hit("mul-wrong", || format!("{a:?}*{b:?}"));
            }
            let (mut x, mut y, mut z) = (fa, fa, fa);
            x += fb;
            y -= fb;
            z *= fb;
            if x != fa + fb || y != fa - fb || z != fa * fb {
                f.hit("assign-ops", || format!("{a:?},{b:?}"));
            }
            cnt += 4;
            for &c in &alpha {
                let fc = fp25519_from(c);
                if (fa + fb) + fc != fa + (fb + fc) || (fa * fb) * fc != fa * (fb * fc) || fa * (fb + fc) != fa * fb + fa * fc {
                    f.hit("assoc-distrib", || format!("{a:?},{b:?},{c:?}"));
                }
                cnt += 3;
            }
        }
    }
    if common::catch(|| Fp25519::ZERO.invert()).is_ok() {
        f.hit("invert-zero", || "invert(0) returned".into());
    }
    r.add("evaluations", cnt);
    r.add("distinct_nontrivial", (alpha.len() * alpha.len()) as u64);
    r.set("fields", format!("Fp25519:alphabet={}", alpha.len()));
    f.flush("Fp25519", r);
}

fn ell_reduce_big(a: U256) -> U256 {
    // a < 2^256 < 16*ell
    ell_reduce(a)
}

// ---- derived helpers -------------------------------------------------------------------------

fn accumulators<F: Dom + PrimeField>(name: &str, kind: Kind, r: &mut Report)
where
    F: MultiplyAccumulate,
{
    let mut f = Fails::new();
    let o = kind.order();
    let interval = <<F as MultiplyAccumulate>::Accumulator as MultiplyAccumulator<F>>::reduce_interval();
    let lens: Vec<usize> = (0..=200).chain([interval.saturating_sub(1), interval, interval + 1, 2 * interval, 2 * interval + 1, 3 * interval + 7]).collect();
    let patterns: [(&str, Box<dyn Fn(usize) -> (u128, u128)>); 4] = [
        ("max", Box::new(move |_| (o - 1, o - 1))),
        ("max-one", Box::new(move |_| (o - 1, 1))),
        ("alt", Box::new(move |i| if i % 2 == 0 { (o - 1, o - 2) } else { (1, 2) })),
        ("ramp", Box::new(move |i| ((i as u128 * 0x9E37_79B9_7F4A_7C15) % o, (o - 1 - i as u128 % o) % o))),
    ];
    let mut cnt = 0u64;
    for &len in &lens {
        for (pn, pat) in &patterns {
            // an overflow inside the accumulator is a debug panic: caught and reported, not a crash of the harness
            let res = common::catch(|| {
                let mut acc = <F as MultiplyAccumulate>::Accumulator::new();
                let mut arr = <F as MultiplyAccumulate>::AccumulatorArray::<3>::new();
                let mut expect = 0u128;
                let mut expect_arr = [0u128; 3];
                for i in 0..len {
                    let (a, b) = pat(i);
                    acc.multiply_accumulate(F::from_u(a), F::from_u(b));
                    expect = kind.add(expect, kind.mul(a, b));
                    let la = [a, (a + 1) % o, (o - 1)];
                    let lb = [b, (o - 1), (b + 2) % o];
                    arr.multiply_accumulate(&la.map(F::from_u), &lb.map(F::from_u));
                    for j in 0..3 {
                        expect_arr[j] = kind.add(expect_arr[j], kind.mul(la[j], lb[j]));
                    }
                }
                let got = acc.take();
                let got_arr = arr.take();
                (got, got_arr, expect, expect_arr)
            });
            match res {
                Err(p) => f.hit("accumulator-panic", || format!("len={len} pattern={pn}: {p}")),
                Ok((got, got_arr, expect, expect_arr)) => {
                    if got.to_u() != expect || got != F::from_u(expect) {
                        f.hit("accumulator", || format!("len={len} pattern={pn}: got {} expected {expect}", got.to_u()));
                    }
                    if got_arr.map(|x| x.to_u()) != expect_arr {
                        f.hit("accumulator-array", || format!("len={len} pattern={pn}"));
                    }
                }
            }
            cnt += 2;
        }
    }
    r.add("evaluations", cnt);
    r.set("helpers", format!("accumulator:{name}:interval={interval}:lens<=max({},200)", 3 * interval + 7));
    f.flush(name, r);
}

fn batch_inv<F: Dom + PrimeField>(name: &str, kind: Kind, r: &mut Report) {
    let mut f = Fails::new();
    let a: Vec<u128> = boundary(kind).into_iter().filter(|v| *v != 0).collect();
    macro_rules! n {
        ($($n:literal),*) => {$(
            for start in 0..a.len() {
                let mut xs: [F; $n] = std::array::from_fn(|i| F::from_u(a[(start + i * 3) % a.len()]));
                let orig = xs;
                batch_invert(&mut xs);
                for i in 0..$n {
                    if xs[i] * orig[i] != F::ONE || xs[i] != orig[i].invert() {
                        f.hit("batch-invert", || format!("N={} start={start} i={i}", $n));
                    }
                }
                r.inc("evaluations");
            }
        )*};
    }
    n!(1, 2, 3, 4, 7, 8, 32);
    r.set("helpers", format!("batch_invert:{name}"));
    f.flush(name, r);
}

pub fn run_fields(r: &mut Report) {
    let thorough = common::thorough();
    let p31 = Kind::Prime(31);
    small_field::<Fp31>("Fp31", p31, true, r);
    small_field::<Boolean>("Boolean", Kind::Prime(2), true, r);
    small_field::<Gf2>("Gf2", Kind::Gf { bits: 1, poly: Gf2::POLYNOMIAL }, true, r);
    small_field::<Gf3Bit>("Gf3Bit", Kind::Gf { bits: 3, poly: Gf3Bit::POLYNOMIAL }, true, r);
    small_field::<Gf8Bit>("Gf8Bit", Kind::Gf { bits: 8, poly: Gf8Bit::POLYNOMIAL }, thorough, r);
    small_field::<Gf9Bit>("Gf9Bit", Kind::Gf { bits: 9, poly: Gf9Bit::POLYNOMIAL }, false, r);
    let p32 = Kind::Prime(u128::from(Fp32BitPrime::PRIME));
    let p61 = Kind::Prime(u128::from(Fp61BitPrime::PRIME));
    large_field::<Fp32BitPrime>("Fp32BitPrime", p32, r);
    large_field::<Fp61BitPrime>("Fp61BitPrime", p61, r);
    large_field::<Gf8Bit>("Gf8Bit", Kind::Gf { bits: 8, poly: Gf8Bit::POLYNOMIAL }, r);
    large_field::<Gf9Bit>("Gf9Bit", Kind::Gf { bits: 9, poly: Gf9Bit::POLYNOMIAL }, r);
    large_field::<Gf20Bit>("Gf20Bit", Kind::Gf { bits: 20, poly: Gf20Bit::POLYNOMIAL }, r);
    large_field::<Gf32Bit>("Gf32Bit", Kind::Gf { bits: 32, poly: Gf32Bit::POLYNOMIAL }, r);
    large_field::<Gf40Bit>("Gf40Bit", Kind::Gf { bits: 40, poly: Gf40Bit::POLYNOMIAL }, r);
    fp25519(r);
    prime_invert::<Fp31>("Fp31", p31, r, true);
    prime_invert::<Fp32BitPrime>("Fp32BitPrime", p32, r, false);
    prime_invert::<Fp61BitPrime>("Fp61BitPrime", p61, r, false);
    moduli(r);
    accumulators::<Fp31>("Fp31", p31, r);
    accumulators::<Fp32BitPrime>("Fp32BitPrime", p32, r);
    accumulators::<Fp61BitPrime>("Fp61BitPrime", p61, r);
    batch_inv::<Fp31>("Fp31", p31, r);
    batch_inv::<Fp32BitPrime>("Fp32BitPrime", p32, r);
    batch_inv::<Fp61BitPrime>("Fp61BitPrime", p61, r);
}

#[test]
fn run() {
    let mut r = Report::new("C08");
    run_fields(&mut r);
    super::c08b::run_derived(&mut r);
    super::c09o::run_field_ctors(&mut r);
    r.flag("exhaustive", true);
    r.finish();
}
