#!/bin/bash
# Builds the harness configurations from /repo's working tree (offline). Idempotent.
set -e
cd "$(dirname "$0")"
export CARGO_NET_OFFLINE=true
python3 - <<'PY'
import sys, os
sys.path.insert(0, os.getcwd())
import importlib.util, subprocess
spec = importlib.util.spec_from_loader("chk", loader=None)
src = open("check").read()
g = {"__name__": "chk", "__file__": os.path.abspath("check")}
exec(compile(src, "check", "exec"), g)
for cfg in ("A", "B", "B2", "E"):
    g["build"](cfg)
PY
