# Registry of checks: property id -> parts (each part = one #[test] of the harness, built in a
# named cargo configuration) + evidence metadata. Read by ./check.

CONFIGS = {
    # default features: tokio runtime, in-memory infra, descriptive gate, debug assertions on
    "A": {"cargo_args": []},
    # the crate's own shuttle seam (crate::sync, tokio::spawn -> shuttle), driven by our scheduler
    "B": {"cargo_args": ["--features", "shuttle"]},
    "B2": {"cargo_args": ["--features", "shuttle multi-threading"]},
    "E": {"cargo_args": ["--no-default-features", "--features",
                         "compact-gate in-memory-infra web-app test-fixture stall-detection"]},
}

CHECKS = {}


def check(pid, level, rule, parts, assumptions=(), exhaustive=False, engine="", text="", note="", technique="",
          design_ref=""):
    CHECKS[pid] = {"level": level, "rule": rule, "parts": parts, "assumptions": list(assumptions),
                   "exhaustive": exhaustive, "engine": engine, "text": text, "note": note,
                   "technique": technique, "design_ref": design_ref or ("DESIGN.md section 3, " + pid)}


check("C08", "exploration",
      "every element pair (and triple, for orders <= 32; <= 256 in thorough) of Fp31, Boolean, Gf2, Gf3Bit, "
      "Gf8Bit, Gf9Bit against an independent integer / carry-less reference; boundary-alphabet pairs and "
      "triples for the >= 20-bit fields; moduli certified by exhaustive trial division; accumulators, batch "
      "inversion, Lagrange tables, share and array arithmetic against plain field formulas. "
      "distinct_nontrivial = distinct ordered operand pairs (excluding (0,0)) per field, summed.",
      [{"name": "fields", "config": "A", "test": "verif::c08::run"}],
      assumptions=["curve25519-dalek Scalar arithmetic is executed, compared with a 256-bit reference on a boundary alphabet only",
                   "values of >= 20-bit fields outside the boundary alphabet are not enumerated"],
      exhaustive=True, engine="E5 domain",
      technique="exhaustive small-domain enumeration of the real field operators against an independent reference "
                "(bounded exhaustive exploration; no sampling, no solver)",
      text="Every operator of every exported field type is executed on the complete domain (orders <= 512) or on all "
           "pairs/triples of a boundary alphabet (>= 20-bit types) and compared with an independent integer / carry-less "
           "reference plus the field axioms and the canonical-encoding invariant; moduli are certified prime/irreducible "
           "by exhaustive trial division of the constants read from the code.",
      note="Trusts rustc, the harness reference arithmetic (u128 / shift-and-add), and curve25519-dalek for Fp25519 beyond "
           "the boundary alphabet.")

# properties deliberately not claimed (reason); anything else missing from CHECKS is listed as "not built yet"
NOT_APPLICABLE = {}

HOOK_COMMITS = ["45bc492", "e36cf10"]
