# Registry of checks: property id -> parts (each part = one #[test] of the harness, built in a
# named cargo configuration) + evidence metadata. Read by ./check.

CONFIGS = {
    # default features: tokio runtime, in-memory infra, descriptive gate, debug assertions on
    "A": {"cargo_args": []},
    # the crate's own shuttle seam (crate::sync, tokio::spawn -> shuttle), driven by our scheduler
    "B": {"cargo_args": ["--features", "shuttle"]},
    "B2": {"cargo_args": ["--features", "shuttle multi-threading"]},
    "E": {"cargo_args": ["--no-default-features", "--features",
                         "compact-gate in-memory-infra web-app test-fixture stall-detection"]},
}

CHECKS = {}


def check(pid, level, rule, parts, assumptions=(), exhaustive=False, engine="", text="", note="", technique="",
          design_ref=""):
    CHECKS[pid] = {"level": level, "rule": rule, "parts": parts, "assumptions": list(assumptions),
                   "exhaustive": exhaustive, "engine": engine, "text": text, "note": note,
                   "technique": technique, "design_ref": design_ref or ("DESIGN.md section 3, " + pid)}


check("C08", "exploration",
      "every element pair (and triple, for orders <= 32; <= 256 in thorough) of Fp31, Boolean, Gf2, Gf3Bit, "
      "Gf8Bit, Gf9Bit against an independent integer / carry-less reference; boundary-alphabet pairs and "
      "triples for the >= 20-bit fields; moduli certified by exhaustive trial division; accumulators, batch "
      "inversion, Lagrange tables, share and array arithmetic against plain field formulas; construction from integers up "
      "to u128::MAX (every power of two +-1, all-ones low parts under every high bit, the last 64 integers) must give the "
      "canonical element with a canonical encoding. "
      "distinct_nontrivial = distinct ordered operand pairs (excluding (0,0)) per field, summed.",
      [{"name": "fields", "config": "A", "test": "verif::c08::run"}],
      assumptions=["curve25519-dalek Scalar arithmetic is executed, compared with a 256-bit reference on a boundary alphabet only",
                   "values of >= 20-bit fields outside the boundary alphabet are not enumerated"],
      exhaustive=True, engine="E5 domain",
      technique="exhaustive small-domain enumeration of the real field operators against an independent reference "
                "(bounded exhaustive exploration; no sampling, no solver)",
      text="Every operator of every exported field type is executed on the complete domain (orders <= 512) or on all "
           "pairs/triples of a boundary alphabet (>= 20-bit types) and compared with an independent integer / carry-less "
           "reference plus the field axioms and the canonical-encoding invariant; moduli are certified prime/irreducible "
           "by exhaustive trial division of the constants read from the code.",
      note="Trusts rustc, the harness reference arithmetic (u128 / shift-and-add), and curve25519-dalek for Fp25519 beyond "
           "the boundary alphabet.")

# properties deliberately not claimed (reason); anything else missing from CHECKS is listed as "not built yet"
NOT_APPLICABLE = {}

HOOK_COMMITS = ["45bc492", "e36cf10", "3319613", "69852e4", "f4a53ae", "1c4db3c", "0212cac", "4b47353", "ce43167", "97dee5a"]

check("C13", "model_checking",
      "MPC channels H1->H2 of the real Gateway over the in-memory transport: message width {1,3,4,8,14,32 bytes} x k = 1..5 (6) "
      "records x active work {2,4,16} x read size {1,5,16,2048 bytes, ...} x total {Specified(k), Indeterminate + close(k)} x every "
      "send order (all k! for k <= 4 (5)) x every window-respecting receive order (requests of a window outstanding at once, polled "
      "in every order; or awaited one by one) x receiver polled before/after the sender, on a current-thread runtime so that the "
      "enumerated poll order is the executed one. Oracle per case: receive(i) returns the message sent for record i; after the k-th "
      "send receive(k) is end-of-stream and not before (early-close probe: k-1 records sent, every request polled 60 rounds, must "
      "stay pending); send(k), send(k+1), send(k+5) return TooManyRecords (no panic, no block); the exchange completes within the "
      "deadline. Isolation: all 6 directed helper pairs x 2 gates x every shard x shard-to-shard channels on the same gates, at once, "
      "payload = code(channel, record). Schedule arm (config B): sender tasks, receiver tasks, the gateway's spawned stream task and "
      "the transport under the preemption-bounded DFS scheduler inside an exploration window. Lost chunk: the receive path "
      "transport stream -> LogErrors -> UnorderedReceiver on every chunking of 1..5 (6) messages of 1, 2 and 3 bytes with a transport "
      "error item at every position (more chunks follow it): the records wholly in front of the error are delivered, no later "
      "request is ever handed a message.",
      [{"name": "channels", "config": "A", "test": "verif::c13::run", "timeout": {"quick": 900, "thorough": 3600},
        "require": {"any": {"channel_cases": 10000, "isolation_receives": 500}}},
       {"name": "sched", "config": "B", "test": "verif::c13s::run", "workers": {"quick": 16, "thorough": 16},
        "timeout": {"quick": 900, "thorough": 7200}, "require": {"any": {"distinct:completion_orders": 2}}},
       {"name": "lost-chunk", "config": "A", "test": "helpers::buffers::verif::c14_recv::run_log_errors",
        "require": {"any": {"lost_chunk_cases": 1000}}}],
      assumptions=["in-memory transport only (the HTTP transport is outside the anchors)",
                   "shuttle models every atomic as SeqCst; tokio mpsc / DashMap operations inside the transport execute atomically within a step; "
                   "preemption bounds as listed in coverage.set_sched.bounds_completed",
                   "receive requests for record j are only served while the requests for all lower records of the window are outstanding "
                   "(UnorderedReceiver's documented contract): one-by-one awaiting is enumerated in record order only"],
      exhaustive=True, engine="E5 domain + E2 sched",
      technique="bounded exhaustive enumeration of send orders x receive orders x widths x window/read-size configurations executed on "
                "the real gateway with a deterministic single-threaded executor; preemption-bounded exhaustive schedule exploration "
                "(CHESS-style) of the same exchange under shuttle",
      text="Every order of sends and every window-respecting order of receives for up to 5 records is executed on the real gateway "
           "for six message widths and twelve window/read-size configurations; delivery, end-of-channel, the too-many-records error "
           "and absence of deadlock are checked in each execution; cross-channel isolation is checked with channel-coded payloads.",
      note="k <= 5 (6); schedules within preemption bound 2 inside the exploration window.")

check("C14", "model_checking",
      "CircularBuf: BFS to closure over {write,take,close} histories for every capacity<=6 units x write size 1..3 x read size, "
      "lock-step VecDeque model. OrderingSender: every interleaving of 2-3 writer tasks + main (close || stream) with <= k "
      "preemptions under a bounded-DFS shuttle scheduler. states = distinct canonical states (BFS) + distinct schedules (DFS); "
      "transitions = model transitions + scheduling points executed.",
      [
          {"name": "circular", "config": "A", "test": "helpers::buffers::verif::c14_circ::run"},
          {"name": "receiver", "config": "A", "test": "helpers::buffers::verif::c14_recv::run",
           "require": {"any": {"max_distinct_first_poll_orders": 6, "max_distinct_chunkings": 8}}},
          {"name": "sender-e1", "config": "A", "test": "helpers::buffers::verif::c14_send::run",
           "require": {"any": {"max_distinct_poll_order_prefixes": 6}}},
          {"name": "sender-sched", "config": "B", "test": "helpers::buffers::verif::c14_sched::run",
           "workers": {"quick": 16, "thorough": 16},
           "require": {"any": {"distinct:chunkings": 2}}},
      ],
      assumptions=["shuttle models every atomic as SeqCst: Acquire/AcqRel weak-memory behaviours are not explored",
                   "preemption bound as listed in coverage.set_sender-sched.bounds_completed"],
      exhaustive=True, engine="E4 bfs + E2 sched + E1 choice",
      technique="explicit-state BFS of the real CircularBuf with a reference model; stateless preemption-bounded exhaustive "
                "schedule exploration (CHESS-style) of the real OrderingSender under shuttle; exhaustive choice-tree "
                "exploration of UnorderedReceiver chunkings/poll orders",
      text="Every reachable state of CircularBuf for all small configurations is compared with a queue model on every "
           "transition; every schedule of the real OrderingSender with 2-3 concurrent writers within the preemption bound is "
           "executed and checked for byte order, chunk sizes and absence of deadlock (a lost wake-up is a deadlock).",
      note="Bounded: capacity <= 6 (8) units, <= 3 writers, preemption bound 3 (2 for 3 writers); SeqCst atomics.")

check("C15", "model_checking",
      "seq_join / seq_try_join_all / parallel_join polled by a waker-tracking executor; the explorer enumerates every order of "
      "{poll the consumer, complete started task j} for n<=6 tasks, window 1..4, every single in-window dependency (task a "
      "completes only after task b's future resolved), every error position, and <=2 source-Pending deviations. "
      "states = executions (distinct choice sequences); transitions = choice points. Multi-threaded implementation (config B2): "
      "seq_join / seq_try_join_all / parallel_join with n <= 4 (5) items spawned as real tasks, window 1..4, every single in-window "
      "dependency in both directions, yields, error at the last item or with window 1, a source stream that is Pending once before "
      "every item, parallel_join with two failing tasks (the error of the first one in input order is returned; executions "
      "that end in the documented cancellation panic of abandoned tasks are counted as tolerated and the exploration continues), "
      "every schedule within the preemption bound. Window occupancy is checked from both sides at every Pending return "
      "of the single-threaded stream: at least min(w, outstanding) and never more than w tasks in flight. Boundary windows: "
      "for every w in {1,2,3, 2^k-1, 2^k, 2^k+1 (k=5..17), 1000, 10^4, 5*10^4, 10^5} one execution each of seq_join and "
      "seq_try_join_all with n = w+3 tasks where task 0 waits for task w-1: exactly w tasks taken and polled at the first "
      "Pending, task 0 released by completing task w-1 alone, all results in order.",
      [{"name": "seqjoin", "config": "A", "test": "verif::c15::run",
        "require": {"any": {"max_distinct_completion_orders": 20, "window_checks": 100, "large_window_runs": 80, "max_largest_window": 131073}}},
       {"name": "multi-thread", "config": "B2", "test": "verif::c15s::run", "workers": {"quick": 16, "thorough": 16},
        "timeout": {"quick": 900, "thorough": 7200},
        "require": {"any": {"mt_schedules": 100000, "max_distinct_completion_orders_mt": 6}}}],
      assumptions=["the single-threaded implementation (seq_join/local.rs) is explored with the choice-tree explorer, the multi-threaded one "
                   "(seq_join/multi_thread.rs, feature multi-threading) with the preemption-bounded scheduler under shuttle (SeqCst atomics)",
                   "multi-threaded early termination with other items still in flight cancels them through a panicking cancellation handler; "
                   "tokio contains that panic in the JoinHandle, shuttle reports every task panic as a failed execution, so errors are "
                   "placed only where nothing else can be in flight (window 1 or last item) in the multi-threaded arm"],
      exhaustive=True, engine="E1 choice + E2 sched",
      technique="stateless exhaustive choice-tree exploration (DFS by re-execution, deviation-bounded) of the real stream "
                "combinators on a waker-tracking executor with deadlock detection; preemption-bounded exhaustive schedule "
                "exploration of the multi-threaded implementation (one real task per item) under shuttle",
      text="All completion orders the window permits and all single in-window dependencies are executed against the real "
           "SequentialFutures; order of results, exactly-once, window occupancy at every Pending return, polling of every "
           "in-flight task and termination after the first error are checked on every execution.",
      note="Bounds: n <= 6 (9), w <= 8, one dependency edge, source Pending deviations <= 2; 46 boundary windows up to 2^17+1 "
           "with one fixed completion order each (single-threaded implementation only); multi-threaded: n <= 4 (5), "
           "preemption bound 3 (n <= 2), 2 (n = 3), 1 (n = 4).")

check("C16", "model_checking",
      "Batcher (records_per_batch 1..4, total 1..6): the explorer enumerates every interleaving of {record i requests validation "
      "(any arrival permutation), poll a woken wait, batch b's check completes with verdict ok/fail (any batch order)} on the real "
      "Batcher with a waker-tracking executor; oracle = reference model of batch membership. Plus every misuse history "
      "(records 0..k arrived, then validate_record(x) for every x up to total+2*rpb+1) for totals <= 9. Cancellation: for batch "
      "sizes 2,3 and 1-2 batches (+ a partial one), every arrival order, then the future that runs a batch's check is dropped "
      "before the verdict: no other record of that batch may be released with success, the other batches (either verdict) are "
      "released as usual. Stream adapter (part validated-join): DZKPValidator::validated_seq_join over real 64-bit multiplications "
      "of three helpers, 4-6 (8) records in batches of 2/4, every item of the stream collected; honest: all Ok; one bit of one "
      "multiplication message flipped (every chunk of every multiplication channel x first/last (every) byte): on each honest "
      "helper the items of one batch carry one verdict (no record of a failed batch is yielded as Ok) and some honest helper fails. "
      "states = executions; transitions = choice points.",
      [{"name": "batcher", "config": "A", "test": "protocol::context::verif::c16::run",
        "require": {"any": {"max_distinct_arrival_orders": 24, "out_of_order_batch_completions": 10, "cancellation_executions": 100}}},
       {"name": "validated-join", "config": "A", "test": "verif::c16v::run", "timeout": {"quick": 900, "thorough": 3600},
        "require": {"any": {"validated_join_honest_runs": 3, "validated_join_faults_rejected": 20}}}],
      assumptions=["the batch check closure is modelled by a gate the harness completes in the batcher part; the real DZKP check runs in the validated-join part (its soundness is C03)"],
      exhaustive=True, engine="E1 choice",
      technique="stateless exhaustive choice-tree exploration of the real Batcher (all arrival permutations x completion orders x "
                "verdict vectors) against a reference model; exhaustive misuse-history enumeration",
      text="Every arrival order of validation requests and every order/verdict of batch completion is executed on the real Batcher; "
           "release only after the whole batch requested and was checked, verdict propagation, exactly-once checking with the "
           "right contents, closing of the final partial batch and loud rejection of every misuse call are checked on each one.",
      note="Bounds: <= 6 (7) records, batch size <= 4; totals <= 9 for misuse histories.")

check("C17", "model_checking",
      "RecordsStream (Batch and Single) for record sizes 1,1,2,3,4,8, LengthDelimitedStream and BufferedBytesStream: for every "
      "test buffer (every record count x every truncated tail x an undecodable record at every position, <= 10 (14) bytes) the "
      "explorer enumerates every chunking of the bytes and, deviation-bounded, a Pending answer, an empty chunk or a transport "
      "error at every poll; the flattened output is compared with a reference parse of the whole buffer; the buffers of <= 8 (10) "
      "bytes are explored a second time with the environment behind BodyStream, the wrapper every real request body passes through. "
      "states = executions (distinct chunking/deviation sequences); transitions = choice points. Resume arm (record parsers, <= 8 (10) bytes): the injected transport error is recoverable, the transport goes on delivering the remaining bytes and the consumer keeps polling up to the second error item; no panic, and for bytes that decode completely the records that come out around the error are still a prefix of the encoded records.",
      [{"name": "parsers", "config": "A", "test": "verif::c17::run",
        "require": {"any": {"streams": 100, "distinct:parsers": 10}}}],
      assumptions=["process_slice_by_chunks / Chunk::unpack and ExactSizeStream are not part of this check yet"],
      exhaustive=True, engine="E1 choice",
      technique="stateless exhaustive choice-tree exploration of all chunkings (2^(n-1) compositions) and deviation-bounded "
                "environment answers of the real stream parsers, reference parse as oracle",
      text="Every way of splitting each test body into network chunks, plus Pending/empty-chunk/transport-error answers within the "
           "deviation bound, is executed on the real parsers; records must be exactly those encoded (none lost, duplicated, "
           "reordered), undecodable or trailing data must surface as an error, transport errors must not be swallowed, no panic.",
      note="Bounds: bodies <= 10 (14) bytes (17 for 8-byte records), deviations <= 2 (n<=6), 1 (n<=10), 0 beyond.")

check("C18", "model_checking",
      "One real query Processor (three views: coordinator/leader shard, follower helper/leader shard, non-leader shard) wired to "
      "in-memory MPC and shard networks with scripted peers; BFS over histories of 13 request kinds (create start/finish with "
      "accept/reject, prepare helper/shard, inputs, injected task + task returns ok/err, status with every pair of answers of the "
      "two peer shards (3 shards: 36 combinations), "
      "shard status with every claimed status, complete with shard accept/reject, poll parked completion, kill - including kill "
      "while a completion request or a create request is parked, after which the abandoned request, the end of the killed query's task and any new "
      "query are interleaved in every order) to depth 9 (12); failing transitions are recorded and the search continues; "
      "state rebuilt by replaying the history on a fresh Processor; canonical key = reference-model state; every call's result "
      "class and the stored status are compared with the model. states = distinct model states reached; transitions = calls replayed.",
      [{"name": "lifecycle", "config": "A", "test": "query::processor::verif::c18::run",
        "require": {"any": {"states": 100}}}],
      assumptions=["at most one abandoned completion request and one abandoned create request at a time; no further create request while an abandoned one is parked at the peers",
                   "the real executor started by receive_inputs never finishes against the scripted peers; finished tasks are "
                   "modelled by an injected RunningQuery as in the repository's unit tests"],
      exhaustive=True, engine="E4 bfs",
      technique="explicit-state breadth-first search over API-call histories of the real Processor with a lock-step reference "
                "model (state re-derived by replay, dedup on the model state)",
      text="All request histories up to the depth bound are executed against the real Processor and compared call by call with a "
           "reference lifecycle model: forward-only states, invalid requests answered with an error and leaving the state "
           "unchanged, failed creation leaving no trace, results handed out once, min-over-shards status, no panic.",
      note="Depth 9 (quick) / 12 (thorough); one query id (QueryId is a unit type); 3 shards.")

check("C09", "exploration",
      "every byte string of the advertised size for the value types of <= 3 bytes (Fp31, Boolean, Gf2/3/8/9/20Bit, BA3..BA8, BA16, "
      "BA20, two-byte shares): accepted => re-encodes to itself, #accepted = #values; slot-wise canonical/non-canonical faults "
      "(single slots and pairs) for the large scalars, shares, StdArray widths, proof/diff arrays, PRF report, seeds, hashes, tags, "
      "Ristretto points (2^17 byte windows); every supported transpose shape on all one-hot inputs per share (boundary cross for "
      "256-wide shapes in quick). Values produced by operations: for BA3..BA7, BA20, Boolean, Gf3/9/20Bit, Fp31/32/61 the constants, "
      "every value (<= 512) or a boundary alphabet, and the results of not / neg / add / sub / mul and of truncate_from on integers "
      "up to u128::MAX are encoded: the type's own decoder must accept the bytes, return the same value, and equal values must have "
      "equal bytes. distinct_nontrivial = distinct byte strings / fault placements / one-hot matrices / operation results executed. Proof batches: a ProofBatch of every legal depth (1..14 proofs) through the real channel type to the left neighbour and back from the right one, non-canonical elements in used slots rejected. Reports: info sections and encrypted records of both report kinds, exact and followed by 1..3 extra bytes - accepted only if re-encoding reproduces the bytes.",
      [{"name": "encodings", "config": "A", "test": "verif::c09::run",
        "require": {"any": {"distinct:exhaustive_types": 15, "distinct:transposes": 20}}},
       {"name": "ops", "config": "A", "test": "verif::c09o::run",
        "require": {"any": {"op_result_encodings": 100000, "distinct:op_types": 10}}},
       {"name": "proofs", "config": "A", "test": "protocol::ipa_prf::verif::c09p::run",
        "require": {"any": {"proof_batch_depths": 10, "proof_batch_noncanonical": 20}}},
       {"name": "reports-canonical", "config": "A", "test": "verif::c10::run_canonical_reports",
        "require": {"any": {"report_canonical_cases": 60}}}],
      assumptions=[
                   "transposes are linear over GF(2): one-hot inputs form a basis (non-linear corruption would need a two-hot input)"],
      exhaustive=True, engine="E5 domain",
      technique="exhaustive enumeration of all byte strings of small encodings and of one-hot bases of every transpose shape; "
                "slot-wise single/double fault enumeration for composite encodings",
      text="Decoders are run on the complete byte-string space of every small type and on every canonical/non-canonical slot "
           "placement of composite types; a decoder may accept a string only if re-encoding the value reproduces it, and the number "
           "of accepted strings must equal the number of values. Every transpose implementation is checked bit-for-bit on a basis.",
      note="Types above 3 bytes are not enumerable; their non-canonical regions are probed at the boundaries only.")

check("C10", "fault_enumeration",
      "round trip over a grid of both report kinds (site-domain lengths 0..255, boundary timestamps / privacy parameters, key ids); "
      "for five representative encrypted records: every single-bit flip at every byte offset, every truncation length, all 256 "
      "event-type bytes, all 256 key ids against a 2-key and a 1-key registry, a different key pair; parser+decryptor on all byte "
      "strings of length 0,1,2; LengthDelimitedStream<EncryptedHybridReport> on every 2-byte length prefix (0..600 + boundaries; "
      "all 65536 in thorough) with an absent, short and exact body; every sequence of <= 3 length-prefixed records over {valid "
      "impression, valid conversion, empty, truncated, unknown event type} x 5 chunkings (one chunk, per record, inside every "
      "record, 7-byte pieces, byte by byte): well-formed bodies are handed out completely, a malformed record k gives an error after "
      "at most k records, never a silent skip. distinct_nontrivial = distinct tampered records / inputs executed.",
      [{"name": "reports", "config": "A", "test": "verif::c10::run",
        "require": {"any": {"tamper_rejected": 3000, "roundtrip_reports": 100, "record_sequence_cases": 500}}}],
      assumptions=["HPKE (hpke crate, X25519-HKDF-SHA256 / AES-128-GCM) is executed, not explored; an accepted forgery has negligible probability"],
      exhaustive=True, engine="E3 fault + E5 domain",
      technique="exhaustive single-fault enumeration (every bit, every truncation, every type/key byte) on real encrypted records; "
                "exhaustive enumeration of all short inputs to the parser",
      text="Every single-bit corruption and truncation of representative encrypted reports is fed to the real parser and decryptor: "
           "each must produce an error or exactly the original report, never a different report and never a panic; all inputs of "
           "length <= 2 and all length prefixes are shown not to crash the parser.",
      note="One fault per record; five representative records; fixed key material from VERIF_SEED.")

check("C12", "exploration",
      "truncation point n for a 9x6x6 (epsilon, delta, sensitivity) grid against an independent closed-form evaluation of the "
      "documented tail condition (admissible and minimal, indeterminate band 1e-9); the real TruncatedDoubleGeometric sampler driven "
      "by a scripted RngCore under an exhaustive weighted exploration of every Bernoulli outcome sequence down to path mass 1e-16, "
      "normalised accepted mass compared with A*exp(-eps|x-n|) on 0..2n (1e-9); every support point x in 0..=2n forced through "
      "sample_shares for widths 8/16/32 and both directions; NoiseParams::new / OPRFPaddingDp::new on the cross product of "
      "per-parameter alphabets. Released buckets: dp_for_histogram on the three real helpers (32 buckets, output widths 8/16/32, both "
      "security modes, epsilon in {0.5, 2, 8} (0.1)): the same world run on the all-zero histogram gives the noise vector N, every "
      "other histogram h (incl. totals at the top of the range) must be released as h + N mod 2^w, as a consistent sharing, and N must "
      "lie within three support radii. Dummy records: apply_dp_padding on the three real helpers for hybrid reports (both modes) and "
      "aggregation rows, two parameter sets x 12 (60) seeds: the rows added are consistent sharings with value 0 (and breakdown key 0 / "
      "below the bucket count), hybrid dummies come in match-key groups of size 1..cap that never reuse a real match key, group and "
      "per-bucket counts stay within three draws of the support, the input rows are preserved. Query-level switch: the real "
      "Query::execute (one-shard malicious world, four encrypted reports = two attributed pairs) with with_dp in {0, 1, 2, 7, "
      "u32::MAX}: 0 releases the exact totals, every other value a histogram that is not the exact one. "
      "distinct_nontrivial = distinct configurations / support points / parameter tuples / buckets executed.",
      [{"name": "noise", "config": "A", "test": "protocol::dp::verif::c12::run",
        "require": {"any": {"truncation_points_checked": 200, "distinct:sampler_configs": 6, "share_mapping_cases_w32": 50}}},
       {"name": "released", "config": "A", "test": "protocol::dp::verif::c12n::run",
        "require": {"any": {"released_buckets": 1000, "noise_vectors": 10, "distinct:noise_values": 8}}},
       {"name": "dummies", "config": "A", "test": "verif::c12d::run",
        "require": {"any": {"dummy_rows": 2000, "padding_runs": 50, "distinct:groups_per_cardinality": 6}}},
       {"name": "dp-switch", "config": "A", "test": "query::runner::verif::c11::run_dp_switch", "timeout": {"quick": 1800, "thorough": 3600},
        "require": {"any": {"dp_switch_runs": 5}}}],
      assumptions=["rand::distributions::Bernoulli draws one u64 per sample and succeeds iff it is below p*2^64",
                   "the released-bucket identity is checked differentially (same seed and gate => same noise): the three individual draws are not separated",
                   "the number of dummy records is checked against the support of the sampler here and against its law in the coin-tree part",
                   "the binomial mechanism (not reachable from a query) only in the semi-honest mode"],
      exhaustive=True, engine="E6 coin + E5 domain",
      technique="weighted exhaustive exploration of the probabilistic sampler's coin tree (every outcome sequence above a mass floor, "
                "exact path probabilities); exhaustive support-point and parameter-alphabet enumeration",
      text="The sampler's output law is computed exactly from an exhaustive enumeration of its random choices and compared with the "
           "documented truncated discrete Laplace law; every support value is pushed through the sample-to-share mapping at every "
           "output width; truncation points and constructor ranges are checked against independent evaluations.",
      note="Coin-tree residual mass < 1e-10; epsilon/delta outside the listed grid are not explored.")

check("C05", "fault_enumeration",
      "honest: sharded shuffle (semi-honest and malicious contexts) for every row count 0..6 (12) x shard counts 1,2,3,5 x "
      "{round-robin, all rows on each single shard, 3 seeded assignments}; oracle: reconstructed multiset equals the input and "
      "all share copies are consistent. order of disclosure (malicious, 1-3 shards, 2/3/6 rows): in the message order of the run every helper sends its share of the MAC keys only after the last table addressed to it; tamper (malicious; 1 and 2 shards with 3 rows, 3 shards with 2 rows on three placements, 2 shards with 1 row - shards that receive rows but end without output, or hold nothing): channel census of every helper-to-helper "
      "channel (run twice, must agree), then one run per (channel, chunk, fault) with faults = bit flips at bytes {0,1,mid,last} "
      "x masks {0x01,0x80} (every byte x 8 masks in thorough), zeroed chunk, and replaced 8-byte counts; every one of the three "
      "helpers is the corrupt sender in turn. distinct_nontrivial = faults whose interceptor fired and changed >= 1 byte "
      "+ honest cases with >= 2 rows. Row types: the honest shuffle repeated for 32-bit and 112-bit rows and for the two production row types (hybrid report 64+3+8 bits, aggregation row 3+8 bits) and their widest instances (64+16+32 and 16+16 bits, which fill the 112- and 32-bit shuffle shares exactly), 1-3 shards, 0..8 (16) rows, both modes.",
      [{"name": "shuffle", "config": "A", "test": "verif::c05::run", "timeout": {"quick": 900, "thorough": 7200},
        "require": {"any": {"tamper_rejected": 50, "honest_runs": 100, "channels_in_census": 20}}},
       {"name": "rows", "config": "A", "test": "verif::c05b::run", "timeout": {"quick": 900, "thorough": 3600},
        "require": {"any": {"row_type_runs": 150, "distinct:row_types": 4}}}],
      assumptions=["one fault per run (no adaptive multi-message strategies)",
                   "the 2^-32 probability that a forged row passes the Gf32Bit MAC is not explored (seeds fixed)",
                   "a helper altering a row it holds is covered only through what that makes it send"],
      exhaustive=True, engine="E3 fault + E5 domain",
      technique="channel census + exhaustive single-fault enumeration on real three-helper (x shards) executions through the "
                "repository's StreamInterceptor; exhaustive small-scope enumeration of honest inputs and shard assignments",
      text="Every message chunk of every helper-to-helper channel of the malicious shuffle is corrupted in turn (bit flips, zeroing, "
           "count replacement) and the outcome of all helper futures is observed: an honest helper must fail or never produce output, "
           "or the honest helpers' rows must still be the input multiset. Honest runs over all small shapes must preserve the multiset.",
      note="Bounds: <= 6 (12) rows, <= 5 shards; tamper runs on 3 rows with 1-2 shards.")

check("C04", "fault_enumeration",
      "drivers: (D1) upgrade two inputs, multiply, validate_record, open, over Fp31 (1 and 3 records) and Fp32BitPrime (2 records); "
      "(D2) the vectorised pseudonym evaluation eval_dy_prf over Fp25519 with 16 lanes and with 1 lane. Census of every "
      "helper-to-helper channel (upgrade, both multiplications, u/w propagation, r opening, check-zero, final opening), run twice; "
      "one run per (channel, chunk, element, additive error): e in {1,2,15,30} (all 30 in thorough) for 1-byte elements, "
      "{1,2,p-1,(p+1)/2} for 4-byte elements, {+1,+2,+2^32-1,-1} per Fp25519 lane and cross-lane cancelling pairs (+e,-e); each "
      "helper is the corrupt sender in turn. The scalar drivers keep every record's own outcome (validation failed / validated / "
      "opened value): an unnoticed deviation is tolerated only in the 31-element field (1/|F| event), a batch whose check failed on "
      "an honest helper has no record whose validation returned Ok there, and in the 32-bit field no honest helper opens a value other "
      "than the untampered one. distinct_nontrivial = faults whose interceptor changed a byte. MAC relation: 12 linear operations (+, -, unary -, +=, -= by value and by reference, scalar *) on MAC shares over 81 pairs of Fp31 and 36 boundary pairs of Fp32BitPrime: the value is right, the MAC component equals r * value for the key of the record's batch, copies consistent; the keys of 3 consecutive validation batches (window 4, 12 records) are equal inside a batch and different between batches.",
      [{"name": "mac", "config": "A", "test": "verif::c04::run", "timeout": {"quick": 900, "thorough": 7200},
        "require": {"any": {"tamper_rejected": 100, "honest_runs": 5, "channels_in_census": 30, "two_message_strategies": 12}}},
       {"name": "relation", "config": "A", "test": "verif::c04m::run",
        "require": {"any": {"mac_relation_cases": 1000, "batch_key_runs": 3}}}],
      assumptions=["acceptance of a forged MAC with probability ~1/|extension field| is not explored (seeds fixed)",
                   "one fault per run, plus the listed two-message strategies (cross-lane cancelling error on the multiplication message together with the matching patch of the corrupt helper's opening message) for the vectorised driver; the corrupt helper's own state is not altered, only what it sends"],
      exhaustive=True, engine="E3 fault",
      technique="channel census + exhaustive single-fault (additive error per element, cross-lane pairs) enumeration on real "
                "three-helper executions through the repository's StreamInterceptor",
      text="Every element of every message of the MAC-protected upgrade / multiply / validate / open pipeline receives each additive "
           "error of the alphabet from each helper in turn; on every run an honest helper must fail, or both honest helpers must open "
           "exactly the untampered values. Honest runs must validate and open the product.",
      note="Bounds: <= 3 (5) records, 16 lanes; additive alphabets as listed.")

check("C03", "fault_enumeration",
      "(A) honest acceptance: real multiply over vectorised Booleans of width 3,8,20,64,256 x record counts sweeping 1..5 (17) "
      "256-bit blocks incl. exact block boundaries x 1-2 gates x {validate(), validate_record with 1,2,4 records per batch}, and "
      "the recording half driven through DZKPUpgraded::push in forward, reversed and interleaved record order; "
      "(B) recorded-bit flips: one bit of one of the 7 recorded arrays of one record on one helper, pushed in forward and reversed "
      "order, for 5 widths; (C) transmitted-bit flips: census of every channel of 4 batches (product shares, proof, challenge, "
      "verification messages), every byte of the product-share messages x masks, a spread of bytes of the proof messages. "
      "(D) cheating prover (component level, the call sequence of Batch::validate on hand-built consistent intermediates of 1/2/5 (9) "
      "blocks): a helper flips one transmitted product-share bit and then runs the real proof generation lying about that "
      "multiplication's table index in every way (u or v index xor 1..7), with and without doctoring the first proof to the "
      "expected sum, or adding +-1 to single proof entries; every cheater role, bit positions 0/77/255 (12 positions); honest "
      "component batches on either side of every proof-recursion threshold (3*4^k multiplications: 3, 12, 48 ... 49 152 blocks "
      "and one more each - the last needs all 14 recursion levels) must be accepted. "
      "Oracle: honest => all three accept and products reconstruct; any flip => at least one honest helper rejects, whatever the "
      "prover does afterwards. distinct_nontrivial = honest batches + flips that changed a byte + prover strategies.",
      [{"name": "dzkp", "config": "A", "test": "verif::c03::run", "timeout": {"quick": 1200, "thorough": 10800},
        "require": {"any": {"honest_batches": 60, "recorded_flips": 100, "wire_rejected": 200, "channels_in_census": 20}}},
       {"name": "prover", "config": "A", "test": "protocol::ipa_prf::verif::c03p::run", "timeout": {"quick": 900, "thorough": 3600},
        "require": {"any": {"cheating_prover_rejected": 500, "distinct:rejecting_verifier": 3, "honest_component_batches": 19}}}],
      assumptions=["soundness error of the proof system (~2^-61 per challenge) is not explored; seeds fixed",
                   "the table identity of TABLE_U/TABLE_V (design item 1) is covered indirectly through acceptance/rejection only",
                   "cheating-prover strategies are the listed family (index lies, first-proof sum fix, single-entry tampering); adaptive "
                   "strategies that depend on the challenges are outside it"],
      exhaustive=True, engine="E3 fault + E5 domain",
      technique="exhaustive configuration grid of honest batches + exhaustive single-bit fault enumeration (recorded and "
                "transmitted) on real three-helper executions",
      text="Honest batches of every enumerated size, width, gate count, validation API and recording order must be accepted by all "
           "three helpers; every enumerated single-bit corruption of a recorded array or of a transmitted message must make at "
           "least one helper reject.",
      note="Widths {3,8,20,64,256}; <= 600 (2200) records; one flipped bit per run.")

check("C01", "exploration",
      "real hybrid_protocol::<_, BA8, BA3, HV, 3, 256> on 3 x S helper contexts of a sharded TestWorld, reconstructed leader output "
      "compared with an independent in-the-clear reference written from the property text. Inputs: all multisets of <= 3 (4) "
      "reports over the alphabet {impression, conversion} x {match key a, b} on one shard, both security modes; every assignment of "
      "<= 2 (3) reports to 2 and 3 shards; one 90-report input holding every group shape (single, pair II/IC/CI/CC, triple, "
      "quadruple, groups of 5..9 and 11 reports) with wrap-around of value (7+7, 4+4) and breakdown key (255+1, 128+128) on 1, 2, 3 shards with two "
      "distributions, HV in {BA8, BA16}, with and without dummy-record padding; saturation inputs (36/37/40 pairs of value 7 in one "
      "bucket); inputs of 255 / 256 / 257 (512) rows on one shard (the chunk size of share conversion and PRF evaluation). The same driver is built and run a second time with the compact step-identifier implementation (config E). "
      "distinct_nontrivial = executed inputs holding at least one attributed pair.",
      [{"name": "attribution", "config": "A", "test": "verif::c01::run", "workers": {"quick": 4, "thorough": 8},
        "timeout": {"quick": 1200, "thorough": 10800},
        "require": {"any": {"matches_reference": 60, "runs_S1": 40, "runs_S2": 10}}},
       {"name": "compact-steps", "config": "E", "test": "verif::c01::run", "workers": {"quick": 4, "thorough": 8},
        "timeout": {"quick": 1800, "thorough": 10800},
        "require": {"any": {"matches_reference": 60, "runs_S1": 40}}}],
      assumptions=["task schedules of the composed query are not enumerated here (discharged per component in C13-C16, C19)",
                   "the compact step-identifier implementation (config E: --no-default-features --features compact-gate ...) runs the same "
                   "inputs on 1-2 shards in the quick tier and all of them in the thorough tier",
                   "HV = BA32 and DP noise are not instantiated"],
      exhaustive=True, engine="E5 domain",
      technique="bounded exhaustive enumeration of small inputs x shard assignments executed on the real three-helper protocol, "
                "independent reference oracle",
      text="Every small multiset of reports (and every assignment of reports to shards for the smallest sizes), plus inputs covering "
           "every group shape, wrap-around and saturation, is run through the real protocol in both security modes; the combined "
           "output shares must equal the reference attribution bucket by bucket, follower shards must contribute nothing, and the "
           "helpers' share copies must agree.",
      note="Small scope: <= 3 (4) reports exhaustively, 90-report shape input, <= 3 (5) shards; see the known finding on shards that "
           "run out of rows.")

check("C02", "fault_enumeration",
      "malicious-mode hybrid_protocol on a 12-report input (3 attributed pairs incl. value and key wrap-around, unmatched reports, a "
      "triple-free layout), 1 shard (thorough: also with dummy-record padding and on 2 shards): census of every helper-to-helper "
      "channel (run twice, must agree) - conversion to field shares, DZKP proof/challenge/verification, PRF MAC steps and openings, "
      "shuffle transfers and hashes, breakdown-key reveals, aggregation, finalize - then one run per (channel, fault); quick: first/middle/last channel of every channel family (gate with numbers abstracted, per sender and receiver), first chunk, "
      "bit 0 of the first and of the last byte (thorough: every chunk, bytes {all if <= 64, else 0,1,mid,last} x masks {0x01,0x80}, "
      "zeroed chunk). The channel's sender is the corrupt helper. Oracle: an honest helper fails / never produces output, or both "
      "honest helpers finish with consistent shares that determine exactly the untampered histogram. "
      "distinct_nontrivial = faults whose interceptor changed a byte. Component arm (opening a value): reveal and partial reveal of a MAC-upgraded Fp31 sharing and of a Boolean-array sharing in the DZKP malicious context, every helper excluded in turn, every byte x 4 masks (and every additive error for Fp31) of every reveal message: each honest helper that is meant to learn the value fails or learns the true value.",
      [{"name": "tamper", "config": "A", "test": "verif::c02::run", "timeout": {"quick": 1800, "thorough": 14400},
        "require": {"any": {"tamper_rejected": 100, "channels_in_census": 100}}},
       {"name": "reveal", "config": "A", "test": "verif::c02r::run", "timeout": {"quick": 900, "thorough": 3600},
        "require": {"any": {"reveal_faults": 400, "distinct:reveal_settings": 8}}}],
      assumptions=["one altered message per run (no adaptive multi-message strategies; those of the MAC layer are in C04)",
                   "cryptographic acceptance probabilities (2^-32 shuffle MAC, 2^-61 DZKP, 2^-252 Fp25519 MAC) are not explored",
                   "shard-to-shard channels are inside one helper's trust domain and are not tampered with"],
      exhaustive=True, engine="E3 fault",
      technique="channel census + exhaustive single-fault enumeration over every helper-to-helper channel of a real three-helper "
                "attribution query through the repository's StreamInterceptor, process-isolated runs",
      text="Each helper-to-helper channel of a complete malicious-mode attribution is corrupted in turn and the outcome of every helper "
           "future is observed: no run may end with both honest helpers holding an accepted histogram that differs from the "
           "untampered computation.",
      note="Quick tier: 2 faults per channel on one 12-report query; thorough: full alphabet, padding on, 2 shards.")

check("C06", "exploration",
      "three PRSS endpoints from make_participants (3 seeds): for 47 step identifiers (incl. neighbours differing in one "
      "character) x indices {0,1,2,255,2^16,2^32-1} x every admissible offset 0..=2048 (two indices per step) / 0..40: each helper's "
      "right value equals its right neighbour's left value, and all values over the whole alphabet are pairwise distinct; offset 2049 "
      "is refused; sequential generators agree for 1000 draws; sequential twice / indexed+sequential on one step is refused; "
      "cross-shard randomness over real gateways for 2,3,5 shards (identical on all shards of a helper, matching the neighbours, "
      "different from per-shard randomness); the debug duplicate-(step,index) monitor stays silent over attribution queries with and "
      "without padding, both modes, 1-2 shards (and, through the shared panic hook, over every other check's runs). "
      "distinct_nontrivial = distinct 128-bit values observed. Sequential vs indexed: the first 64 words of the sequential stream of 3 gates against both halves of the indexed values 0..64 of 8 children (incl. the names the generator code uses) and a sibling of each; indices wider than 32 bits (2^32, 2^32+5, 2^63+5, ... u128::MAX) must be refused or must not alias a small index. End of a sequential stream (hook H12 positions the private "
      "32-bit counter 0, 1, 4 and 17 indices before its last value): the remaining indices are handed out, equal on both holders and "
      "distinct from the first 64 values of the stream, then the generator refuses - it never wraps around to index 0.",
      [{"name": "prss", "config": "A", "test": "verif::c06::run", "timeout": {"quick": 900, "thorough": 3600},
        "require": {"any": {"prss_values_compared": 100000, "cross_shard_points": 40, "protocol_runs_monitored": 5}}},
       {"name": "prss-end", "config": "A", "test": "protocol::prss::verif::c06p::run",
        "require": {"any": {"sequential_end_cases": 4}}}],
      assumptions=["pseudo-randomness of AES/HKDF is assumed; 'unrelated' is checked as pairwise distinctness over the alphabet",
                   "index reuse inside protocols is observed through the crate's own debug-assertion monitor"],
      exhaustive=True, engine="E5 domain",
      technique="exhaustive enumeration of a (step, index, offset) alphabet on real PRSS endpoints with agreement and distinctness "
                "oracles; runtime monitor turned oracle over protocol executions",
      text="All values of the alphabet are generated on the three real endpoints and compared pairwise; every admissible offset of an "
           "index is covered so that any aliasing inside the index space shows as a collision; API misuse that would replay a stream "
           "must be refused; cross-shard values must coincide on all shards.",
      note="47 steps x 6 indices x up to 2049 offsets x 3 seeds.")

check("C07", "exploration",
      "integer_add (with carry), integer_sat_add, integer_sub, compare_geq, compare_gt for every pair of widths (x,y) in {1..4}^2 "
      "with y no wider than x, integer_mul for every (x,y) width pair with x+y <= 6 (thorough: widths to 7, all 2^16 pairs of the 8-bit "
      "adders / subtractor / comparisons in both modes, 8x8 boundary rows of the multiplier): every "
      "operand pair of the two widths as the records of one three-helper run, in the semi-honest DZKP context and (all width pairs in "
      "thorough, half of them in quick) in the proof-carrying malicious context where the proof must also verify; boundary-operand "
      "pairs for 16- and 64-bit words incl. narrower y; multiply over Fp31 on all 961 pairs. Oracle: consistent three-party sharing "
      "of the right bit length reconstructing to the plaintext function. Remaining blocks: multiply over all 961 pairs of Fp31 and "
      "a 14-value boundary alphabet of Fp32BitPrime (semi-honest and MAC-validated); Boolean multiply, OR, bit-wise AND/OR of all "
      "3-bit operand pairs; the multiplexer on all 2x8x8 inputs of BA3 and boundary values of BA5/8/20/64; bucket aggregation of every "
      "column of <= 3 (4) small values into 3- and 8-bit saturating buckets; share conversion of 257 boundary match keys; the "
      "pseudonym function on boundary keys incl. equal inputs - each in both execution modes. Aggregation beyond one call "
      "(part chunks): every pair of chunk lengths 1..6 (8) and some triples aggregated by consecutive aggregate_values calls that "
      "share the per-depth record counters; breakdown_reveal_aggregation end to end with row counts around every multiple (1..4, "
      "thorough 1..8) of the proof chunk size in one bucket for 8-bit and 3-bit values; the cross-shard histogram merge "
      "(FinalizerContext::finalize) on every combination of 7 boundary per-shard totals for 2 and 3 shards "
      " - saturating sums expected, a stall (no result within a generous re-checked deadline) is a violation. "
      "distinct_nontrivial = operand pairs / cases executed.",
      [{"name": "circuits", "config": "A", "test": "verif::c07::run", "workers": {"quick": 4, "thorough": 8},
        "timeout": {"quick": 1200, "thorough": 7200},
        "require": {"any": {"circuit_runs": 60, "unequal_width_runs": 20, "distinct:circuits": 12}}},
       {"name": "blocks", "config": "A", "test": "verif::c07b::run", "timeout": {"quick": 900, "thorough": 3600},
        "require": {"any": {"distinct:blocks": 24, "cases_multiply-fp31-mac": 961}}},
       {"name": "chunks", "config": "A", "test": "verif::c07c::run", "timeout": {"quick": 1200, "thorough": 5400},
        "require": {"any": {"consecutive_chunk_runs": 80, "breakdown_aggregation_runs": 20, "shard_merge_cases": 400}}}],
      assumptions=["the pseudonym function is compared with 1/(k+x)*G computed with the library's own Fp25519 / RP25519 arithmetic (C08 covers that arithmetic)",
                   "vector widths: 1 for the arithmetic circuits, 16 for aggregation, 256/16 for share conversion, the BA width for the multiplexer",
                   "operands wider than 4 (5) bits only on the boundary alphabet"],
      exhaustive=True, engine="E5 domain",
      technique="exhaustive small-domain enumeration of operand pairs and width pairs executed on the real three-helper circuits, "
                "plaintext reference",
      text="For each arithmetic / comparison circuit every operand pair of every small width combination (including unequal widths) is "
           "evaluated by the three real helpers in both execution modes and compared with the integer function; sharings must be "
           "consistent and proofs must verify.",
      note="Widths 1..4 (7, and all 8-bit pairs) exhaustively; 16/64-bit boundary operands.")

check("C11", "exploration",
      "the real Query::execute on every shard of a sharded TestWorld (malicious contexts, HPKE-encrypted length-delimited input) for "
      "1, 2, 3 shards: 3 distinct reports in two base placements; one report duplicated with the copy placed on every shard, at the "
      "front and at the back of that shard's input; both copies away from the original; a triple; two different duplicated reports; "
      "and the duplicate-free inputs; base placements that leave shards without input (the copies are then routed to a dry shard); one "
      "shard with a gateway window of 16 records holding 18 (40) reports with the copy at the far end. Oracle per helper: the shard the duplicated report is routed to (first 16 bytes of the match-key "
      "ciphertext, little-endian, modulo the shard count - computed from the raw bytes) fails with DuplicateBytes and the helper does "
      "not complete; duplicate-free inputs are never answered with DuplicateBytes and run to completion on every shard. Component arm: UniqueTagValidator on tag pairs "
      "differing in each of the 128 bits, shard_picker against u128 arithmetic. distinct_nontrivial = inputs executed.",
      [{"name": "duplicates", "config": "A", "test": "query::runner::verif::c11::run", "timeout": {"quick": 900, "thorough": 3600},
        "require": {"any": {"duplicate-rejected": 20, "distinct-not-rejected": 3, "tag_validator_cases": 128}}}],
      assumptions=["the exchange of tags between shards is schedule-independent (C19)"],
      exhaustive=True, engine="E5 domain",
      technique="bounded exhaustive enumeration of duplicate placements (report x shard of the copy x position) executed on the real "
                "query runner over a sharded in-memory world",
      text="Every placement of the second copy of every report, over 1-3 shards, is submitted to the real query entry point of all "
           "three helpers; the shard the copies are routed to must reject with the duplicate-report error and the query must not "
           "complete, while duplicate-free inputs must not be rejected for duplication.",
      note="3 reports, <= 3 shards (thorough: 6 reports, <= 5 shards); routing targets are fixed by VERIF_SEED (ciphertext bytes).")

check("C19", "model_checking",
      "reshard_iter / reshard_try_stream on every shard of TestWorld<WithShards<S>> for S in {1,2,3,5}: every input size 0..7 (12) "
      "x 3 placements of the records over the source shards x pickers {by record index, by value, reversed, stay, all-to-shard-j for "
      "every j}; oracle = the vector the property text defines (records grouped by source shard 0..S-1, each group in its original "
      "order), compared on every shard of all three helpers (alignment). Error arm: the input stream of each shard yields an Err at "
      "every position, or more items than its size hint: that shard's call must fail. Transport arm: census of every shard-to-shard "
      "stream (InspectContext::ShardMessage), every record slot of every such stream made undecodable in a separate run: the "
      "receiving shard must fail, never return Ok. Schedule arm (config B): the same call on 2-3 shards under the preemption-"
      "bounded DFS scheduler, every schedule inside the exploration window; the output must be the same vector on every schedule. reshard_aad (values stay, tags are resharded): 1-3 shards x 0..5 (9) records x 2 placements x every picker, and an error item at every position: values complete and in order, tags in the reference order on every shard of every helper. Order under timing (part prf-order): compute_prf_and_reshard on 3 shards, shard 0 without reports, 12 tagged reports on each of the others, with the shard-to-shard traffic into shard 0 from shard 1 or from shard 2 held back: every shard holds its records grouped by source shard in shard order in all three timings, identically on the three helpers.",
      [{"name": "grid", "config": "A", "test": "verif::c19::run", "timeout": {"quick": 900, "thorough": 3600},
        "require": {"any": {"honest_runs": 200, "error_runs": 20, "transport_faults_failed_loudly": 10}}},
       {"name": "prf", "config": "A", "test": "verif::c19p::run", "timeout": {"quick": 900, "thorough": 3600},
        "require": {"any": {"prf_faults_failed_loudly": 10}}},
       {"name": "prf-order", "config": "A", "test": "verif::c19p::order3::run_order",
        "require": {"any": {"prf_order_runs": 3}}},
       {"name": "aad", "config": "A", "test": "query::runner::verif::c19a::run", "timeout": {"quick": 900, "thorough": 3600},
        "require": {"any": {"reshard_aad_runs": 100}}},
       {"name": "sched", "config": "B", "test": "verif::c19s::run", "workers": {"quick": 16, "thorough": 16},
        "timeout": {"quick": 900, "thorough": 7200}, "require": {"any": {"schedules": 5000}}}],
      assumptions=["shuttle models every atomic as SeqCst; tokio mpsc / DashMap operations inside the transport execute atomically within a step",
                   "schedule exploration covers the shards of one helper (resharding does not talk to other helpers), <= 3 records per shard, "
                   "preemption bounds as listed in coverage.set_sched.bounds_completed",
                   "records are plain field values (Fp32BitPrime) identical on the three helpers; alignment is checked as equality of the three helpers' vectors"],
      exhaustive=True, engine="E5 domain + E3 fault + E2 sched",
      technique="bounded exhaustive enumeration of (shard count x input size x placement x picker), of error positions and of "
                "single-record corruptions of every shard-to-shard stream, executed on the real resharding code over the in-memory "
                "sharded world; preemption-bounded exhaustive schedule exploration of the same call",
      text="Every small input/placement/picker combination is resharded by the real code on every shard and compared with the "
           "ordering the property defines; every error position and every corrupted shard-to-shard record must fail the call.",
      note="S <= 5, n <= 7 (12 thorough).")

check("C20", "exploration",
      "route table discovery on the real MPC-server and shard-server routers through IpaHttpServer::handle_req: every path of <= 5 "
      "segments over the segment alphabet harvested from the http_serde AXUM_PATH constants (plus a valid and a malformed query id "
      "and a step segment), with and without trailing slash x GET/POST/PUT/DELETE/HEAD/OPTIONS/PATCH x {empty, JSON} body, once with a ClientIdentity "
      "extension and once without; every mounted route is classified by the documented tables (unlisted routes must require "
      "identity). Oracle: peer routes answer 401 without identity whatever the parameters, report-collector routes never 401, no route "
      "exists only for anonymous callers. Live loopback matrix: {TLS on, off} x {inherited listener, self-bound port} x identity "
      "header {absent, A, B, C} x {step, prepare, echo}, client without certificate: with TLS the header has no effect (401), "
      "without TLS it is honoured. Client certificates (TLS): the test certificate of helper A, B, C x identity header {absent, A, C} x "
      "{step, prepare, echo}: peer routes are served, the step records are filed under the identity of the certificate (received "
      "back from exactly that helper through the transport) whatever the header says, the answers do not depend on the header; a "
      "certificate the server does not know (3 of them) is refused. Configuration matrix, both server flavours: {HTTPS disabled, "
      "not} x {TLS material present, absent} x {which peers have a certificate configured: 4 (thorough: all 8) subsets} started as "
      "further listeners of the real server object (a configuration that refuses to start is a refusal) x callers {plain HTTP, TLS "
      "without certificate, TLS with each of the 6 test certificates} x identity header {absent, two values} x {step, prepare, "
      "echo, (shard) complete}: a peer route may be served only when HTTPS is explicitly disabled and the header is present, or "
      "under TLS when the caller's certificate is the one configured for some peer; NetworkConfig::identify_cert on every "
      "(configuration, certificate or none) pair. distinct_nontrivial = mounted (method, path) pairs + live requests.",
      [{"name": "auth", "config": "A", "test": "net::server::verif::c20::run", "timeout": {"quick": 900, "thorough": 3600},
        "require": {"any": {"mounted_routes_mpc": 9, "mounted_routes_shard": 5, "live_requests": 40, "identity_observations": 9,
                            "server_configurations": 32, "config_matrix_requests": 1000}}}],
      assumptions=["routes reachable only through segments absent from the http_serde path constants are not probed",
                   "the identity under which a shard server files records is not observed through its transport (the helper server's is)"],
      exhaustive=True, engine="E5 domain",
      technique="exhaustive enumeration of the bounded path space x methods against the real axum routers; exhaustive configuration "
                "matrix of live loopback servers",
      text="Every path up to five segments over the route-segment alphabet is requested on both real servers with and without a peer "
           "identity, so that every mounted route is found and checked to refuse anonymous callers when it carries peer traffic; the "
           "TLS / header matrix is run against live loopback listeners started both ways.",
      note="Path depth 5; one request handler that accepts everything; loopback only.")
