#!/usr/bin/env python3
"""Re-run the detection matrix: for every confirmed seeded change in /verif/seeded/<label>/ apply
patch.diff to /repo's working tree, run the quick check of its property (plus the checks listed in
EXTRA for cross-detection), undo the patch, and record who reported it in seeded/MATRIX.json.

usage: tools/seed_matrix.py [label ...]      (default: all)
Never commits anything to /repo; refuses to start on a dirty /repo tree."""
import json, os, subprocess, sys, time

VERIF = os.path.dirname(os.path.dirname(os.path.abspath(__file__)))
# the matrix runs against a scratch worktree of /repo (created here, removed at the end) with its
# own build output, so that /repo itself and the committed evidence are never touched
REPO = os.environ.get("MATRIX_WT", "/tmp/matrix-wt")
SCRATCH = os.environ.get("MATRIX_SCRATCH", "/tmp/matrix-scratch")
EXTRA = {"C13b-1": ["C14"], "C13c-2": ["C14"], "C02c-1": ["C05"], "C02c-2": ["C05"], "C11c-1": ["C19"], "C09c-2": ["C10"], "C06c-1": ["C16"], "C03c-2": ["C09"], "C02-1": ["C05"], "C02-2": ["C04"], "C13-1": ["C14"], "C04-1": [], "C02b-1": ["C03", "C04", "C05"], "C02b-2": ["C03", "C04", "C05"]}


def sh(*a, **kw):
    return subprocess.run(a, text=True, capture_output=True, **kw)


def clean():
    return sh("git", "-C", REPO, "status", "--short").stdout.strip() == ""


def main():
    labels = sys.argv[1:] or sorted(d for d in os.listdir(os.path.join(VERIF, "seeded")) if os.path.isdir(os.path.join(VERIF, "seeded", d)))
    if not os.path.isdir(REPO):
        r = sh("git", "-C", "/repo", "worktree", "add", "--detach", REPO, "HEAD")
        if r.returncode != 0:
            sys.exit("cannot create scratch worktree: " + r.stderr)
    if not clean():
        sys.exit("refusing: scratch worktree is not clean")
    # a kept worktree follows /repo's HEAD (the fixes committed since it was created)
    head = sh("git", "-C", "/repo", "rev-parse", "HEAD").stdout.strip()
    if sh("git", "-C", REPO, "rev-parse", "HEAD").stdout.strip() != head:
        r = sh("git", "-C", REPO, "checkout", "--detach", head)
        if r.returncode != 0:
            sys.exit("cannot move scratch worktree to /repo HEAD: " + r.stderr)
    os.makedirs(SCRATCH, exist_ok=True)
    # the harness sources are snapshotted so that edits made while the matrix runs cannot break its builds
    snap = os.path.join(SCRATCH, "harness")
    sh("rm", "-rf", snap)
    sh("cp", "-r", os.path.join(VERIF, "harness"), snap)
    env = dict(os.environ, VERIF_REPO=REPO, VERIF_SCRATCH=SCRATCH, VERIF_HARNESS=snap)
    out_path = os.path.join(VERIF, "seeded", "MATRIX.json")
    matrix = json.load(open(out_path)) if os.path.exists(out_path) else {}
    for label in labels:
        d = os.path.join(VERIF, "seeded", label)
        meta = json.load(open(os.path.join(d, "meta.json")))
        prop = meta["property"]
        patch = os.path.join(d, "patch.diff")
        r = sh("git", "-C", REPO, "apply", patch)
        if r.returncode != 0:
            matrix[label] = {"property": prop, "error": "patch does not apply: " + r.stderr[:300]}
            print(label, "PATCH DOES NOT APPLY", flush=True)
            continue
        row = {"property": prop, "repo_head": head[:7], "checks": {}}
        try:
            for pid in [prop] + EXTRA.get(label, []):
                t0 = time.time()
                c = sh(os.path.join(VERIF, "check"), pid, "--tier", "quick", timeout=3600, cwd=VERIF, env=env)
                vio = [l for l in c.stdout.splitlines() if l.startswith("VIOLATION")]
                mach = [l for l in c.stdout.splitlines() if l.startswith("MACHINERY")]
                row["checks"][pid] = {"exit": c.returncode, "violations": len(vio), "first": (vio[0][:400] if vio else None), "machinery": mach[:2], "wall_s": round(time.time() - t0)}
                print(label, pid, "exit", c.returncode, "violations", len(vio), (vio[0][:200] if vio else ""), flush=True)
        finally:
            sh("git", "-C", REPO, "checkout", "--", ".")
            if not clean():
                sh("git", "-C", REPO, "clean", "-fd", "ipa-core/src")
        row["detected_by"] = [p for p, v in row["checks"].items() if v["exit"] == 1 and v["violations"] > 0]
        matrix[label] = row
        # several instances (different scratch worktrees) may run side by side: merge under a lock
        import fcntl
        with open(out_path + ".lock", "w") as lk:
            fcntl.flock(lk, fcntl.LOCK_EX)
            cur = json.load(open(out_path)) if os.path.exists(out_path) else {}
            cur[label] = row
            tmp = out_path + ".tmp.%d" % os.getpid()
            json.dump(cur, open(tmp, "w"), indent=1, sort_keys=True)
            os.replace(tmp, out_path)
            matrix = cur
    print(json.dumps({k: v.get("detected_by", v.get("error")) for k, v in matrix.items()}, indent=1))
    if not os.environ.get("MATRIX_KEEP"):
        sh("git", "-C", "/repo", "worktree", "remove", "--force", REPO)
        sh("rm", "-rf", SCRATCH)


if __name__ == "__main__":
    main()
