#!/usr/bin/env python3
"""tools/mk_seed_prompt.py <property id> <tag>   e.g.  C01 c01c
Writes /tmp/prompt-<tag>.txt for a seeding sub-agent: the text of the property, its anchor files, the
task description and a list of the files/mechanisms earlier seeds of the same property changed (so that
a new round looks elsewhere). Nothing about /verif's checks goes into the prompt."""
import glob
import json
import os
import sys

pid, tag = sys.argv[1], sys.argv[2]
props = {json.loads(l)["id"]: json.loads(l) for l in open("/verif/properties.jsonl")}
p = props[pid]
base = open("/verif/tools/seed_prompt_template.txt").read()
earlier = []
for d in sorted(glob.glob("/verif/seeded/%s*" % pid)):
    if not os.path.isdir(d):
        continue
    files = [l[6:].strip() for l in open(d + "/patch.diff") if l.startswith("+++ b/")]
    title = ""
    if os.path.exists(d + "/notes.md"):
        for l in open(d + "/notes.md"):
            if l.strip():
                title = l.strip().lstrip("# ").split(":", 1)[-1].split(" - ", 1)[-1].strip()
                break
    earlier.append("(%d) %s [%s]" % (len(earlier) + 1, ", ".join(files), title[:160]))
t = base.replace("{TAG}", tag).replace("{TITLE}", p["title"]).replace("{STATEMENT}", p["statement"]).replace("{FILES}", "\n".join(p["anchors"]["files"]))
t += "\nAdditional constraint: earlier work already produced mutations at these places: " + " ".join(earlier) + \
     ". Choose DIFFERENT mechanisms, preferably in other functions or files named above (or code they call), and other kinds of trigger (a boundary size, a particular order of events, a rarely taken branch, an error path, an unusual but legal configuration).\n"
open("/tmp/prompt-%s.txt" % tag, "w").write(t)
print("/tmp/prompt-%s.txt" % tag, len(t))
