#!/usr/bin/env python3
"""Print seeded/MATRIX.json as the markdown table used in DESIGN.md section 9.4."""
import json, os
root = os.path.join(os.path.dirname(os.path.dirname(os.path.abspath(__file__))), "seeded")
m = json.load(open(os.path.join(root, "MATRIX.json")))
print("| seed | property | what it needs to manifest (from the seed's notes) | quick checks that report it |")
print("|---|---|---|---|")
for k in sorted(m, key=lambda x: (x.split("-")[0].rstrip("b"), x)):
    meta = json.load(open(os.path.join(root, k, "meta.json"))) if os.path.exists(os.path.join(root, k, "meta.json")) else {}
    need = (meta.get("needs_to_manifest") or "").replace("|", "/").replace("\n", " ")[:160]
    det = m[k].get("detected_by")
    ran = ", ".join("%s:%s" % (p, {0: "silent", 1: "VIOLATION", 2: "machinery"}.get(c["exit"], c["exit"])) for p, c in m[k].get("checks", {}).items())
    print("| %s | %s | %s | %s |" % (k, m[k].get("property"), need, ("**" + ", ".join(det) + "**" if det else "none") + " (" + ran + ")"))
