#!/usr/bin/env python3
"""Rewrites the table of DESIGN.md section 9.4 from seeded/MATRIX.json (runs fill_meta.py first)."""
import os, re, subprocess, sys
root = os.path.dirname(os.path.dirname(os.path.abspath(__file__)))
subprocess.run([sys.executable, os.path.join(root, "tools", "fill_meta.py")], stdout=subprocess.DEVNULL, check=True)
table = subprocess.run([sys.executable, os.path.join(root, "tools", "matrix_md.py")], capture_output=True, text=True, check=True).stdout
p = os.path.join(root, "DESIGN.md")
s = open(p).read()
a = s.index("### 9.4")
b = s.index("### 9.5")
sec = s[a:b]
i = sec.index("| seed | property |")
# keep the prose in front of the table and anything after the table's last row
rows_end = i + len(re.match(r"(\|.*\n)+", sec[i:]).group(0))
sec = sec[:i] + table + sec[rows_end:]
open(p, "w").write(s[:a] + sec + s[b:])
print("rows:", table.count("\n") - 2)
