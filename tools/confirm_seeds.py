#!/usr/bin/env python3
"""confirm_seeds.py <label>=<seed dir> ...   (label like C15-1)
For each seeded change: in a scratch worktree of /repo (outside /repo and /verif) check that
 (1) the demonstration passes on the unchanged tree, (2) fails with the change, (3) the repository's
 full test suite passes with the change; then store it under /verif/seeded/<label>/ with meta.json."""
import json, os, re, shutil, subprocess, sys, time

# CONFIRM_WT / CONFIRM_TARGET: several instances may run side by side, each on its own scratch worktree;
# CONFIRM_REUSE=1 keeps an existing (clean) worktree and its warm build output instead of recreating it
WT = os.environ.get("CONFIRM_WT", "/tmp/confirm-wt")
TARGET = os.environ.get("CONFIRM_TARGET", "/tmp/confirm-target")
REUSE = bool(os.environ.get("CONFIRM_REUSE"))
ENV = dict(os.environ, CARGO_TARGET_DIR=TARGET, CARGO_NET_OFFLINE="true")
ENV.pop("RUST_LOG", None)

def sh(cmd, cwd=WT, timeout=3600):
    p = subprocess.run(cmd, cwd=cwd, shell=True, env=ENV, stdout=subprocess.PIPE, stderr=subprocess.STDOUT, text=True, timeout=timeout)
    return p.returncode, p.stdout

def test_names(diff):
    names, armed = [], False
    for line in diff.splitlines():
        if not line.startswith("+"):
            continue
        l = line[1:].strip()
        if re.match(r"#\[(tokio::)?test", l):
            armed = True
        m = re.match(r"(pub )?(async )?fn (\w+)\s*\(", l)
        if m and armed:
            names.append(m.group(3)); armed = False
    return names

def main():
    if os.path.exists(WT) and not REUSE:
        sh("git -C /repo worktree remove --force " + WT, cwd="/")
    if not os.path.exists(WT):
        rc, out = sh("git -C /repo worktree add --detach %s HEAD" % WT, cwd="/")
        assert rc == 0, out
    results = {}
    for arg in sys.argv[1:]:
        label, d = arg.split("=")
        prop = re.match(r"C\d+", label).group(0)
        t0 = time.time()
        sh("git checkout -- . && git clean -fdq")
        patch, demo = os.path.join(d, "patch.diff"), os.path.join(d, "demo.diff")
        names = test_names(open(demo).read())
        meta = {"property": prop, "label": label, "demo_tests": names, "ran": []}
        rc, out = sh("git apply %s" % demo); assert rc == 0, out
        filt = " ".join(names)
        # CONFIRM_DEMO_FLAGS: extra cargo flags for the demonstration only (a demonstration inside feature-gated code)
        # CONFIRM_DEMO_TARGET: e.g. "--test name" for a demonstration delivered as an integration test
        cmd = "cargo test -p ipa-core %s --offline %s -- %s" % (os.environ.get("CONFIRM_DEMO_TARGET", "--lib"), os.environ.get("CONFIRM_DEMO_FLAGS", ""), filt)
        rc1, out1 = sh(cmd)
        m1 = re.search(r"test result: (\w+)\. (\d+) passed; (\d+) failed", out1)
        meta["ran"].append({"cmd": cmd + "   # demonstration, unchanged tree", "rc": rc1, "result": m1.group(0) if m1 else out1[-300:]})
        rc, out = sh("git apply %s" % patch); assert rc == 0, out
        rc2, out2 = sh(cmd)
        m2 = re.search(r"test result: (\w+)\. (\d+) passed; (\d+) failed", out2)
        meta["ran"].append({"cmd": cmd + "   # demonstration, with the change", "rc": rc2, "result": m2.group(0) if m2 else out2[-300:]})
        rc, out = sh("git apply -R %s" % demo); assert rc == 0, out
        cmd3 = "cargo nextest run --workspace --no-fail-fast --offline --test-threads 8"
        rc3, out3 = sh(cmd3, timeout=7200)
        m3 = re.search(r"Summary \[.*?\] (.*)", out3)
        failed = sorted(set(re.findall(r"^\s*(?:FAIL|TIMEOUT|SIGABRT|SIGSEGV)\s+\[[^\]]*\]\s+(.*)$", out3, re.M)))
        meta["ran"].append({"cmd": cmd3 + "   # repository suite, with the change", "rc": rc3, "result": m3.group(1) if m3 else out3[-300:], "failed_tests": failed[:10]})
        # A suite failure is re-run on its own (three times, with the change): the repository has a
        # test whose input strategy is occasionally empty (buffered::tests::proptest_success draws
        # `1..total_size` with total_size = 1), which fails about one suite run in thirty whatever the tree.
        if rc3 != 0 and failed and len(failed) <= 2:
            names3 = [f.split()[-1] for f in failed]
            reruns = []
            for _ in range(3):
                rcr, outr = sh("cargo nextest run --workspace --no-fail-fast --offline " + " ".join(names3), timeout=3600)
                reruns.append(rcr)
            meta["ran"].append({"cmd": "cargo nextest run --workspace --offline " + " ".join(names3) + "   # the failed test(s) alone, with the change, three times", "rcs": reruns})
            if all(x == 0 for x in reruns):
                rc3 = 0
                meta["suite_failure_was_flaky"] = names3
        ok = rc1 == 0 and m1 and int(m1.group(2)) >= 1 and rc2 != 0 and rc3 == 0
        meta["confirmed"] = bool(ok)
        meta["confirm_wall_s"] = round(time.time() - t0)
        notes = os.path.join(d, "notes.md")
        meta["needs_to_manifest"] = "see notes.md"
        results[label] = meta
        dest = os.path.join("/verif/seeded", label)
        if ok:
            os.makedirs(dest, exist_ok=True)
            shutil.copy(patch, dest); shutil.copy(demo, dest)
            if os.path.exists(notes):
                shutil.copy(notes, dest)
            json.dump(meta, open(os.path.join(dest, "meta.json"), "w"), indent=1)
        print(label, "CONFIRMED" if ok else "REJECTED", json.dumps(meta["ran"]), flush=True)
    sh("git checkout -- . && git clean -fdq")
    if not REUSE:
        sh("git -C /repo worktree remove --force " + WT, cwd="/")

main()
