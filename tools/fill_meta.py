#!/usr/bin/env python3
"""Fill meta.json's needs_to_manifest / breaks from the sub-agent's notes.md (first paragraph under the
heading that says what the change needs to manifest / which part of the property breaks)."""
import json, os, re, sys
root = os.path.join(os.path.dirname(os.path.dirname(os.path.abspath(__file__))), "seeded")
for d in sorted(os.listdir(root)):
    p = os.path.join(root, d)
    if not os.path.isdir(p) or not os.path.exists(os.path.join(p, "notes.md")) or not os.path.exists(os.path.join(p, "meta.json")):
        continue
    notes = open(os.path.join(p, "notes.md")).read()
    meta = json.load(open(os.path.join(p, "meta.json")))
    secs = re.split(r"\n(?=#+ )", notes)
    def find(words):
        for s in secs:
            head = s.split("\n", 1)[0].lower()
            if any(w in head for w in words) and "\n" in s:
                body = s.split("\n", 1)[1].strip()
                body = re.sub(r"\s+", " ", body)
                return body[:900]
        return None
    need = find(["manifest", "takes", "needed", "trigger"])
    brk = find(["break", "property"])
    if need:
        meta["needs_to_manifest"] = need
    elif notes:
        m = re.search(r"(?is)(needs?|takes|manifest)[^\n]*\n(.{40,900}?)(\n\n|\Z)", notes)
        if m:
            meta["needs_to_manifest"] = re.sub(r"\s+", " ", m.group(2))
    if brk:
        meta["breaks"] = brk
    mx = os.path.join(root, "MATRIX.json")
    if os.path.exists(mx):
        row = json.load(open(mx)).get(d)
        if row and "detected_by" in row:
            meta["detected_by_quick_checks"] = row["detected_by"]
    json.dump(meta, open(os.path.join(p, "meta.json"), "w"), indent=1)
    print(d, "needs:", (meta.get("needs_to_manifest") or "")[:80])
