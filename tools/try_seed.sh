#!/bin/bash
# tools/try_seed.sh <patch.diff> <property id> [tier]
# Development aid: applies a seeded change to /repo, runs the property's check with every part named
# explicitly (so that no evidence file is written), and undoes the change. Never run while another
# check builds from /repo.
set -u
patch=$1; pid=$2; tier=${3:-quick}
cd /verif
[ -z "$(git -C /repo status --short)" ] || { echo "refusing: /repo is not clean"; exit 2; }
parts=$(python3 -c "import registry,sys; print(','.join(p['name'] for p in registry.CHECKS['$pid']['parts']))")
git -C /repo apply "$patch" || exit 2
timeout 3600 ./check "$pid" --tier "$tier" --parts "$parts" 2>&1 | grep -E "VIOLATION|MACHINERY|KNOWN|violations=" | cut -c1-420 | head -${TRY_LINES:-5}
git -C /repo checkout -- .
git -C /repo status --short
