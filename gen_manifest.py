#!/usr/bin/env python3
"""Regenerates MANIFEST.json from registry.py (so that it always validates)."""
import json, os, sys
sys.path.insert(0, os.path.dirname(os.path.abspath(__file__)))
from registry import CHECKS, NOT_APPLICABLE, HOOK_COMMITS

props = [json.loads(l)["id"] for l in open(os.path.join(os.path.dirname(__file__), "properties.jsonl"))]
checks = []
for pid in props:
    if pid not in CHECKS:
        continue
    c = CHECKS[pid]
    checks.append({
        "property_id": pid,
        "quick_cmd": "./check %s --tier quick" % pid,
        "thorough_cmd": "./check %s --tier thorough" % pid,
        "evidence_file": "/verif/evidence/%s.json" % pid,
        "replay_cmd_template": "./check %s --replay {path}" % pid,
        "engine": c["engine"],
        "level_claimed": {"category": c["level"], "text": c["text"], "design_ref": c["design_ref"]},
        "level_note": c["note"],
        "technique": c["technique"],
    })
na = [{"property_id": p, "reason": NOT_APPLICABLE.get(p, "check not built yet in this session; not claimed")} for p in props if p not in CHECKS]
m = {
    "version": 1,
    "setup_cmd": "./setup.sh",
    "hooks": {
        "guard": "--cfg ipa_verif (rustc cfg; all hook code is #[cfg(all(test, ipa_verif))])",
        "enable": "RUSTFLAGS='--cfg ipa_verif' IPA_VERIF_DIR=/verif/harness CARGO_TARGET_DIR=/verif/target/<config> cargo test --lib -p ipa-core --no-run --offline [--features shuttle]  (done by ./check)",
        "baseline_off_cmd": "cd /repo && cargo nextest run --workspace --no-fail-fast --tool-config-file pb:/w/lib/nextest.toml --profile pb --test-threads 8 --offline",
        "source_commits": HOOK_COMMITS,
        "add_only": True,
    },
    "engines": [
        {"name": "E1 choice", "path": "harness/explore.rs", "kind_free_text": "stateless choice-tree explorer (DFS by re-execution, deviation bounded) with a waker-tracking single-thread executor", "serves_properties": ["C14", "C15", "C16", "C17"]},
        {"name": "E2 sched", "path": "harness/sched.rs", "kind_free_text": "preemption-bounded exhaustive DFS scheduler plugged into shuttle::Runner, exploring real tasks of the crate built with its shuttle seam", "serves_properties": ["C13", "C14", "C16", "C19"]},
        {"name": "E3 fault", "path": "harness/fault.rs", "kind_free_text": "channel census + exhaustive single-fault enumeration through the repository's StreamInterceptor", "serves_properties": ["C02", "C03", "C04", "C05"]},
        {"name": "E4 bfs", "path": "harness/", "kind_free_text": "explicit-state BFS over API-call histories on the real object with a lock-step reference model", "serves_properties": ["C14", "C16", "C18"]},
        {"name": "E5 domain", "path": "harness/", "kind_free_text": "exhaustive small-domain enumeration against an independent reference", "serves_properties": ["C01", "C07", "C08", "C09", "C10", "C11", "C12", "C17", "C20"]},
        {"name": "E6 coin", "path": "harness/", "kind_free_text": "weighted exhaustive exploration of the coin tree of a probabilistic sampler", "serves_properties": ["C12"]},
    ],
    "checks": checks,
    "not_applicable": na,
    "notes": "All checks are ./check <id>; see DESIGN.md. known_findings.txt lists open and fixed findings.",
}
json.dump(m, open(os.path.join(os.path.dirname(__file__), "MANIFEST.json"), "w"), indent=1)
print("claimed:", [c["property_id"] for c in checks], "not claimed:", [x["property_id"] for x in na])
